import BalmProofs.AttrTest
import BalmProofs.Bfs
import BalmProofs.Drivers
