import BalmProofs.DriversComplete
import Balm.Ldoi
/-!
# Every driver the model of `find_drivers` reports forces the motif (C06)

`findDrivers_free`: a reported driver never touches a variable that is already fixed in `assume_fixed` (the pool of the
"all" strategy contains such variables, but an assignment to one of them has the same logical domain of influence as
the assignment without it, which is smaller and was examined earlier - minimality rules it out).
`findDrivers_forces`: for every network, trap space `assume`, target, strategy, bound and forbidden set, every driver
`d` reported by `Impl.findDrivers` has the property that every attractor of the network with `d` overridden that lies
inside `assume` has the target's values.  (That an attractor reachable from `assume` lies inside `assume`:
`trap_override`; the per-run judge `judgeForces` checks the same clause on the real output by reachability.)
-/
namespace Balm.Impl

open Balm

variable {n : Nat}

theorem unionSp_get (a b : Space n) (i : Fin n) :
    (unionSp a b)[i] = match b[i] with | some v => some v | none => a[i] := by
  simp only [unionSp, ofFn_get]
  cases b[i] <;> rfl

theorem unionSp_eq_withDrivers (d assume : Space n) : unionSp d assume = withDrivers assume d := by
  apply Vector.ext
  intro i hi
  have h1 := unionSp_get d assume ⟨i, hi⟩
  have h2 := withDrivers_get assume d ⟨i, hi⟩
  simp only [Fin.getElem_fin] at h1 h2
  rw [h1, h2]
  cases assume[i] <;> rfl

/-- dropping from `d` the variables that `assume` fixes does not change the acceptance test -/
def dropFixed (assume d : Space n) : Space n :=
  Vector.ofFn fun i => if (assume[i]).isSome then none else d[i]

theorem dropFixed_get (assume d : Space n) (i : Fin n) :
    (dropFixed assume d)[i] = if (assume[i]).isSome then none else d[i] := by
  simp [dropFixed]

theorem unionSp_dropFixed (assume d : Space n) : unionSp (dropFixed assume d) assume = unionSp d assume := by
  apply Vector.ext
  intro i hi
  have h1 := unionSp_get (dropFixed assume d) assume ⟨i, hi⟩
  have h2 := unionSp_get d assume ⟨i, hi⟩
  simp only [Fin.getElem_fin] at h1 h2
  rw [h1, h2]
  cases ha : assume[i] with
  | some v => rfl
  | none =>
    have h3 := dropFixed_get assume d ⟨i, hi⟩
    simp only [Fin.getElem_fin] at h3
    simp only [h3, ha, Option.isSome_none, Bool.false_eq_true, if_false]

theorem drives_dropFixed (N : Net n) (assume target d : Space n) :
    drives N assume target (dropFixed assume d) = drives N assume target d := by
  unfold drives
  rw [unionSp_dropFixed]

/-- **reported drivers only use variables that are free in `assume_fixed`** -/
theorem findDrivers_free (N : Net n) (assume target : Space n) (internal : Bool) (bound : Option Nat)
    (forbidden : List (Fin n)) (d : Space n) (hd : d ∈ findDrivers N assume target internal bound forbidden) :
    ∀ i : Fin n, (d[i]).isSome = true → assume[i] = none := by
  obtain ⟨hdr, hforb, _⟩ := findDrivers_sound N assume target internal bound forbidden d hd
  -- `d` is one of its own candidates, hence admissible
  have hgen := hd
  rw [findDrivers_eq_gen] at hgen
  have hex := exact_candsOf (innerOf assume target) internal forbidden
  obtain ⟨S, hS, _, hcand, _, _⟩ := Gen.result_minimal (ok := drives N assume target) _ hex _ d hgen
  obtain ⟨hdS, hSd⟩ := hex S hS d hcand
  have hpool : ∀ i : Fin n, (d[i]).isSome = true → i ∈ poolOf (innerOf assume target) internal forbidden :=
    fun i hi => hS.subset (hdS i ((mem_dom d i).2 hi))
  cases hint : internal with
  | true =>
    -- internal strategy: the pool consists of target variables that are free in `assume`
    intro i hi
    have := hpool i hi
    rw [hint] at this
    have h2 := ((mem_poolOf (innerOf assume target) true forbidden i).1 this).2 rfl
    simp only [innerOf, ofFn_get] at h2
    cases ha : assume[i] with
    | none => rfl
    | some v =>
      have h3 : (assume[i.val]).isSome = true := by
        have : assume[i.val] = some v := ha
        rw [this]; rfl
      simp [h3] at h2
  | false =>
    subst hint
    intro i hi
    by_contra hne
    have hsome : (assume[i]).isSome = true := by
      cases ha : assume[i] with
      | none => exact absurd ha hne
      | some v => rfl
    -- the assignment without the variables fixed in `assume` is admissible, smaller, and passes the test
    have hadm : Admissible assume target false forbidden (dropFixed assume d) := by
      refine ⟨fun j hj => ?_, fun h => by cases h⟩
      rw [dropFixed_get] at hj
      split at hj
      · simp at hj
      · exact hpool j hj
    have hsub : ∀ j : Fin n, ((dropFixed assume d)[j]).isSome = true → (d[j]).isSome = true := by
      intro j hj
      rw [dropFixed_get] at hj
      split at hj
      · simp at hj
      · exact hj
    have hmin := findDrivers_minimal N assume target false bound forbidden d hd (dropFixed assume d) hadm hsub
      (by rw [drives_dropFixed]; exact hdr) i hi
    rw [dropFixed_get, if_pos hsome] at hmin
    simp at hmin

/-- **C06 for the model of `find_drivers`**: every attractor of the overridden network inside the assumed trap
    space has the target's values -/
theorem findDrivers_forces (N : Net n) (assume target : Space n) (internal : Bool) (bound : Option Nat)
    (forbidden : List (Fin n)) (hT : TrapSpace N assume) (d : Space n)
    (hd : d ∈ findDrivers N assume target internal bound forbidden)
    (A : State n → Prop) (hA : IsAttr (override N d) A) (hAT : ∀ s, A s → assume.Mem s) :
    ∀ s, A s → target.Mem s := by
  obtain ⟨hdr, _, _⟩ := findDrivers_sound N assume target internal bound forbidden d hd
  have hfree := findDrivers_free N assume target internal bound forbidden d hd
  have hld := ldoi_sound N (constOnOf N) assume d hT
    (fun i b hdi => hfree i (by rw [hdi]; rfl)) A hA hAT n
  intro s hs i b hti
  unfold drives at hdr
  simp only [List.all_eq_true, List.mem_finRange, true_implies] at hdr
  have := hdr i
  rw [hti] at this
  simp only [beq_iff_eq] at this
  rw [unionSp_eq_withDrivers] at this
  exact hld s hs i b this

end Balm.Impl
