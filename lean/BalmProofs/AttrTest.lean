import Mathlib.Data.Finset.Basic
import Mathlib.Logic.Relation

namespace Balm.AttrTest

variable {α V : Type} [DecidableEq α]

/-- per-variable transition relation of the (percolated) asynchronous graph -/
structure TS (α V : Type) where
  edge : V → α → α → Prop

def TS.Reach (ts : TS α V) : α → α → Prop :=
  Relation.ReflTransGen (fun s t => ∃ v, ts.edge v s t)

/-- the two symbolic operators the loop uses (E4): successors / predecessors under one variable that
    lie outside the given set -/
structure Ops (ts : TS α V) where
  postOut : V → Finset α → Finset α
  preOut : V → Finset α → Finset α
  post_spec : ∀ v X t, t ∈ postOut v X ↔ t ∉ X ∧ ∃ s ∈ X, ts.edge v s t
  pre_spec : ∀ v Y s, s ∈ preOut v Y ↔ s ∉ Y ∧ ∃ t ∈ Y, ts.edge v s t

variable {ts : TS α V} (ops : Ops ts)

/-- every mutation `symbolic_attractor_test` performs on `(reach_set, avoid)` is one of these two,
    whatever the saturation order, the promotion order and the size heuristic decide -/
inductive Mut : Finset α × Finset α → Finset α × Finset α → Prop
  | fwd (v : V) (r a : Finset α) : Mut (r, a) (r ∪ ops.postOut v r, a)
  | bwd (v : V) (r a : Finset α) : Mut (r, a) (r, a ∪ ops.preOut v a)

/-- loop invariant: the forward set only contains states reachable from the pivot, the backward set
    only states that can reach the original avoid set -/
structure Good (ts : TS α V) (pivot : α) (avoid0 : Finset α) (st : Finset α × Finset α) : Prop where
  pivot_mem : pivot ∈ st.1
  fwd : ∀ t ∈ st.1, ts.Reach pivot t
  avoid_sup : avoid0 ⊆ st.2
  bwd : ∀ s ∈ st.2, ∃ t ∈ avoid0, ts.Reach s t

theorem good_init (pivot : α) (avoid0 : Finset α) : Good ts pivot avoid0 ({pivot}, avoid0) :=
  ⟨by simp, by intro t ht; simp at ht; subst ht; exact Relation.ReflTransGen.refl,
   Finset.Subset.refl _, fun s hs => ⟨s, hs, Relation.ReflTransGen.refl⟩⟩

theorem Mut.good {pivot : α} {avoid0 : Finset α} {st st' : Finset α × Finset α}
    (h : Good ts pivot avoid0 st) (m : Mut ops st st') : Good ts pivot avoid0 st' := by
  cases m with
  | fwd v r a =>
    refine ⟨Finset.mem_union_left _ h.pivot_mem, ?_, h.avoid_sup, h.bwd⟩
    intro t ht
    rcases Finset.mem_union.1 ht with ht | ht
    · exact h.fwd t ht
    · obtain ⟨_, s, hs, he⟩ := (ops.post_spec v r t).1 ht
      exact Relation.ReflTransGen.tail (h.fwd s hs) ⟨v, he⟩
  | bwd v r a =>
    refine ⟨h.pivot_mem, h.fwd, h.avoid_sup.trans Finset.subset_union_left, ?_⟩
    intro s hs
    rcases Finset.mem_union.1 hs with hs | hs
    · exact h.bwd s hs
    · obtain ⟨_, t, ht, he⟩ := (ops.pre_spec v a s).1 hs
      obtain ⟨u, hu, htu⟩ := h.bwd t ht
      exact ⟨u, hu, Relation.ReflTransGen.head ⟨v, he⟩ htu⟩

/-- exit `return None`: the two sets meet, so the pivot reaches the original avoid set -/
theorem exit_none {pivot : α} {avoid0 : Finset α} {st : Finset α × Finset α}
    (h : Good ts pivot avoid0 st) (hmeet : (st.1 ∩ st.2).Nonempty) :
    ∃ t ∈ avoid0, ts.Reach pivot t := by
  obtain ⟨x, hx⟩ := hmeet
  obtain ⟨hx1, hx2⟩ := Finset.mem_inter.1 hx
  obtain ⟨t, ht, hxt⟩ := h.bwd x hx2
  exact ⟨t, ht, (h.fwd x hx1).trans hxt⟩

/-- exit `return reach_set` (a full pass changed nothing): the forward set is closed and disjoint
    from the backward set, hence it is exactly the forward closure of the pivot and the pivot cannot
    reach the avoid set – the specification used by `filter_exact` (C.2) -/
theorem exit_some {pivot : α} {avoid0 : Finset α} {st : Finset α × Finset α}
    (h : Good ts pivot avoid0 st) (hdisj : st.1 ∩ st.2 = ∅) (hclosed : ∀ v, ops.postOut v st.1 = ∅) :
    (∀ t, t ∈ st.1 ↔ ts.Reach pivot t) ∧ ∀ t ∈ avoid0, ¬ ts.Reach pivot t := by
  have hall : ∀ t, ts.Reach pivot t → t ∈ st.1 := by
    intro t ht
    induction ht with
    | refl => exact h.pivot_mem
    | @tail b c _ hstep ih =>
      obtain ⟨v, he⟩ := hstep
      by_contra hc
      have : c ∈ ops.postOut v st.1 := (ops.post_spec v st.1 c).2 ⟨hc, b, ih, he⟩
      rw [hclosed v] at this; simp at this
  refine ⟨fun t => ⟨h.fwd t, hall t⟩, ?_⟩
  intro t ht hr
  have h1 := hall t hr
  have h2 := h.avoid_sup ht
  have : t ∈ st.1 ∩ st.2 := Finset.mem_inter.2 ⟨h1, h2⟩
  rw [hdisj] at this; simp at this

/-- any finite sequence of mutations keeps the invariant -/
theorem muts_good {pivot : α} {avoid0 : Finset α} {st st' : Finset α × Finset α}
    (h : Good ts pivot avoid0 st) (m : Relation.ReflTransGen (Mut ops) st st') :
    Good ts pivot avoid0 st' := by
  induction m with
  | refl => exact h
  | tail _ hm ih => exact Mut.good ops ih hm

end Balm.AttrTest
