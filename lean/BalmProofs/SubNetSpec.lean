import Balm.Impl.Scc
import BalmProofs.DriversSpec
/-!
# The component network of the SCC model has the trap spaces of the main network over the component

`Impl.subNet N p comp` represents `component_subdiagram(comp, node)` over the same variables: component variables keep
their update functions (read with the node's fixed values imposed), every other variable becomes a constant.
`subNet_trap_iff`: when the component is closed under regulators inside `p` (what `source_SCCs` guarantees: nothing outside
the component regulates it), a space `T` that fixes component variables only is a trap space of the component network
(together with the constants) exactly when `T` on top of the node's space `p` is a trap space of the main network - provided
`p` itself is one.  So the inner diagram of the model ranges over the same trap spaces as the real component diagram.
-/
namespace Balm.Impl

open Balm

variable {n : Nat}

/-- the component does not read anything outside itself once the values fixed by `p` are imposed -/
def CompClosed (N : Net n) (p : Space n) (comp : List (Fin n)) : Prop :=
  ∀ i ∈ comp, ∀ s t : State n, (∀ j ∈ comp, s[j] = t[j]) → N.f i (overlay p s) = N.f i (overlay p t)

/-- the constants the non-component variables are given in the component network -/
def constsOf (p : Space n) (comp : List (Fin n)) : Space n :=
  Vector.ofFn fun i => if comp.contains i then none else some ((p[i]).getD false)

/-- `T` (component variables only) together with the constants -/
def withConsts (p : Space n) (comp : List (Fin n)) (T : Space n) : Space n :=
  Vector.ofFn fun i => if comp.contains i then T[i] else some ((p[i]).getD false)

/-- `T` (component variables only) on top of the node's space -/
def onTop (p : Space n) (comp : List (Fin n)) (T : Space n) : Space n :=
  Vector.ofFn fun i => if comp.contains i then T[i] else p[i]

theorem overlay_get (p : Space n) (s : State n) (j : Fin n) : (overlay p s)[j] = (p[j]).getD s[j] := by
  simp [overlay]

theorem overlay_of_mem (p : Space n) (s : State n) (h : p.Mem s) : overlay p s = s := by
  apply Vector.ext
  intro i hi
  have := overlay_get p s ⟨i, hi⟩
  simp only [Fin.getElem_fin] at this
  rw [this]
  cases hp : p[i] with
  | none => rfl
  | some b =>
    have := h ⟨i, hi⟩ b hp
    simp only [Fin.getElem_fin] at this
    simp [this]

/-- the state `s` with the free non-component variables reset to the constants of the component network -/
def resetOutside (p : Space n) (comp : List (Fin n)) (s : State n) : State n :=
  Vector.ofFn fun i => if comp.contains i then s[i] else (p[i]).getD false

theorem resetOutside_get (p : Space n) (comp : List (Fin n)) (s : State n) (j : Fin n) :
    (resetOutside p comp s)[j] = if comp.contains j then s[j] else (p[j]).getD false := by
  simp [resetOutside]

theorem subNet_f (N : Net n) (p : Space n) (comp : List (Fin n)) (i : Fin n) (s : State n) :
    (subNet N p comp).f i s = if comp.contains i then N.f i (overlay p s) else (p[i]).getD false := rfl

/-- **trap spaces of the component network = trap spaces of the main network over the component, inside `p`** -/
theorem subNet_trap_iff (N : Net n) (p : Space n) (comp : List (Fin n)) (T : Space n)
    (hp : TrapSpace N p) (hfree : ∀ i ∈ comp, p[i] = none) (hcl : CompClosed N p comp) :
    TrapSpace (subNet N p comp) (withConsts p comp T) ↔ TrapSpace N (onTop p comp T) := by
  have hwc : ∀ j : Fin n, (withConsts p comp T)[j] = if comp.contains j then T[j] else some ((p[j]).getD false) := by
    intro j; simp [withConsts]
  have hot : ∀ j : Fin n, (onTop p comp T)[j] = if comp.contains j then T[j] else p[j] := by
    intro j; simp [onTop]
  constructor
  · intro h s hs i j b hj
    -- `s` lies in `p` (the non-component part of `onTop`) and in `T` on the component
    have hsp : p.Mem s := by
      intro k c hk
      have hkc : comp.contains k = false := by
        cases hc : comp.contains k with
        | false => rfl
        | true =>
          have := hfree k (by simpa using hc)
          rw [this] at hk; cases hk
      exact hs k c (by rw [hot, hkc]; exact hk)
    rw [hot] at hj
    by_cases hjc : comp.contains j = true
    · rw [if_pos hjc] at hj
      -- compare with the step of the component network from the reset state
      let s' := resetOutside p comp s
      have hs' : (withConsts p comp T).Mem s' := by
        intro k c hk
        rw [hwc] at hk
        rw [resetOutside_get]
        by_cases hkc : comp.contains k = true
        · rw [if_pos hkc] at hk ⊢
          exact hs k c (by rw [hot, if_pos hkc]; exact hk)
        · rw [if_neg hkc] at hk ⊢
          cases hk; rfl
      have hstep := h s' hs' i j b (by rw [hwc, if_pos hjc]; exact hj)
      rw [step_get] at hstep ⊢
      by_cases hji : j = i
      · subst hji
        simp only [if_true] at hstep ⊢
        rw [subNet_f, if_pos hjc] at hstep
        have hagree : ∀ k ∈ comp, s'[k] = s[k] := by
          intro k hk
          rw [resetOutside_get, if_pos (by simpa using hk)]
        rw [hcl j (by simpa using hjc) s' s hagree, overlay_of_mem p s hsp] at hstep
        exact hstep
      · simp only [hji, if_false] at hstep ⊢
        rw [resetOutside_get, if_pos hjc] at hstep
        exact hstep
    · rw [if_neg hjc] at hj
      exact hp s hsp i j b hj
  · intro h s hs i j b hj
    rw [hwc] at hj
    rw [step_get]
    by_cases hji : j = i
    · subst hji
      simp only [if_true]
      rw [subNet_f]
      by_cases hjc : comp.contains j = true
      · rw [if_pos hjc] at hj ⊢
        -- the state of the main network: `s` with the values of `p` imposed
        let t := overlay p s
        have ht : (onTop p comp T).Mem t := by
          intro k c hk
          rw [hot] at hk
          rw [overlay_get]
          by_cases hkc : comp.contains k = true
          · rw [if_pos hkc] at hk
            have hpk := hfree k (by simpa using hkc)
            rw [hpk]
            exact hs k c (by rw [hwc, if_pos hkc]; exact hk)
          · rw [if_neg hkc] at hk
            rw [hk]; rfl
        have hstep := h t ht j j b (by rw [hot, if_pos hjc]; exact hj)
        rw [step_get] at hstep
        simp only [if_true] at hstep
        exact hstep
      · rw [if_neg hjc] at hj ⊢
        cases hj; rfl
    · simp only [hji, if_false]
      exact hs j b (by rw [hwc]; exact hj)

end Balm.Impl
