import BalmProofs.JudgeSpec
import Balm.PEnvC
/-!
# Soundness of the weak-invariant judge (C03, C05, C15)

`judgeWeak` is evaluated on dumps of real diagrams that were built with shortcuts (source-variable valuations
of block expansion, skip nodes, attached sub-diagrams of SCC expansion).  An `OK` proves the clauses below for
the dumped diagram; they are the hypotheses under which `Skip.skip_completion` / `Leaves.leaf_iff_minimal`
make the successor-free nodes exactly the minimal trap spaces.
-/
namespace Balm.Impl

open Balm

variable {n : Nat}

structure WeakSpec (c : Ctx n) (d : Dump n) : Prop where
  root : d.nodes.length > 0 ∧ d.space 0 = c.root
  distinct : ((d.nodes.map (·.space)).eraseDups).length = d.nodes.length
  node : ∀ i, i < d.nodes.length → TrapSpace c.N (d.node i).space ∧ perc c.N (d.node i).space = (d.node i).space
  stub : ∀ i, i < d.nodes.length → (d.node i).expanded = false → d.outs i = []
  targets : ∀ i, i < d.nodes.length → ∀ e ∈ d.outs i, e.2.1 < d.nodes.length
  /-- successors are strictly inside the node -/
  inside : ∀ i, i < d.nodes.length → (d.node i).expanded = true → ∀ e ∈ d.outs i,
    (d.space e.2.1).le (d.node i).space ∧ d.space e.2.1 ≠ (d.node i).space
  /-- every minimal trap space inside an expanded node is the node itself or lies inside a successor -/
  cover : ∀ i, i < d.nodes.length → (d.node i).expanded = true → ∀ m ∈ minTrapsIn c.N c.root,
    m.le (d.node i).space → m = (d.node i).space ∨ ∃ e ∈ d.outs i, m.le (d.space e.2.1)
  depth : ∀ i, i < d.nodes.length → (d.node i).depth = longestTo d.pairs d.nodes.length i

/-- **verified checker for diagrams built with shortcuts** -/
theorem judgeWeak_sound (c : Ctx n) (d : Dump n) (h : judgeWeak c d = none) : WeakSpec c d := by
  unfold judgeWeak at h
  simp only at h
  rw [firstSome_none] at h
  have hroot := h (chkRoot c d) (by simp)
  have hdist := h (chkDistinct d) (by simp)
  have hnode : ∀ i, i < d.nodes.length → ∀ x ∈ [chkTrap c d i, chkPerc c d i, chkTargets d i,
      chkKindWeak (minTrapsIn c.N c.root) d i, chkDepth d true i], x = none := by
    intro i hi
    have := h _ (List.mem_append_right _ (List.mem_map.2 ⟨i, List.mem_range.2 hi, rfl⟩))
    exact (firstSome_none _).1 this
  unfold chkRoot at hroot
  unfold chkDistinct at hdist
  rw [check_none] at hroot hdist
  refine ⟨?_, by simpa using hdist, ?_, ?_, ?_, ?_, ?_, ?_⟩
  · simp only [Bool.and_eq_true, decide_eq_true_eq, beq_iff_eq] at hroot
    exact hroot
  · intro i hi
    have h1 := hnode i hi (chkTrap c d i) (by simp)
    have h2 := hnode i hi (chkPerc c d i) (by simp)
    unfold chkTrap at h1
    unfold chkPerc at h2
    rw [check_none] at h1 h2
    exact ⟨(isTrapB_iff _ _).1 h1, by simpa using h2⟩
  · intro i hi hexp
    have h5 := hnode i hi (chkKindWeak (minTrapsIn c.N c.root) d i) (by simp)
    unfold chkKindWeak at h5
    simp only [hexp, Bool.not_false, if_true] at h5
    rw [check_none] at h5
    simpa using h5
  · intro i hi e he
    have h4 := hnode i hi (chkTargets d i) (by simp)
    unfold chkTargets at h4
    rw [check_none, List.all_eq_true] at h4
    have := h4 e he
    simp only [Bool.and_eq_true, decide_eq_true_eq] at this
    exact this.1
  · intro i hi hexp e he
    have h5 := hnode i hi (chkKindWeak (minTrapsIn c.N c.root) d i) (by simp)
    unfold chkKindWeak at h5
    simp only [hexp, Bool.not_true, Bool.false_eq_true, if_false] at h5
    rw [firstSome_none] at h5
    have h6 := h5 _ List.mem_cons_self
    rw [check_none, List.all_eq_true] at h6
    have := h6 e he
    simp only [Bool.and_eq_true, bne_iff_ne, ne_eq, Space.leB_iff] at this
    exact this
  · intro i hi hexp m hm hle
    have h5 := hnode i hi (chkKindWeak (minTrapsIn c.N c.root) d i) (by simp)
    unfold chkKindWeak at h5
    simp only [hexp, Bool.not_true, Bool.false_eq_true, if_false] at h5
    rw [firstSome_none] at h5
    have h6 := h5 _ (List.mem_cons_of_mem _ List.mem_cons_self)
    rw [check_none, List.all_eq_true] at h6
    have := h6 m (List.mem_filter.2 ⟨hm, (Space.leB_iff _ _).2 hle⟩)
    simp only [Bool.or_eq_true, beq_iff_eq, List.any_eq_true, Space.leB_iff] at this
    exact this
  · intro i hi
    have h6 := hnode i hi (chkDepth d true i) (by simp)
    unfold chkDepth at h6
    simp only [if_true] at h6
    rw [check_none] at h6
    simpa using h6

/-! ### the weak invariant of a diagram without stubs determines its leaves (C03) -/

theorem Dump.space_eq_node (d : Dump n) (i : Nat) : d.space i = (d.node i).space := by
  unfold Dump.space Dump.node
  cases d.nodes[i]? <;> rfl

/-- every trap space inside `root` contains a minimal trap space of the list `minTrapsIn` -/
theorem exists_min_inside (N : Net n) (root : Space n) :
    ∀ (k : Nat) (p : Space n), free p ≤ k → TrapSpace N p → p.le root → ∃ m ∈ minTrapsIn N root, m.le p := by
  intro k
  induction k with
  | zero =>
    intro p hk hp hle
    refine ⟨p, (mem_minTrapsIn N root p).2 ⟨⟨hp, hle⟩, fun q _ _ hqp => ?_⟩, Space.le_refl p⟩
    by_contra hne
    have := free_lt_of_le_ne hqp hne
    omega
  | succ k ih =>
    intro p hk hp hle
    by_cases hmin : ∀ q, TrapSpace N q → q.le p → q = p
    · exact ⟨p, (mem_minTrapsIn N root p).2 ⟨⟨hp, hle⟩, fun q hq _ hqp => hmin q hq hqp⟩, Space.le_refl p⟩
    · obtain ⟨q, hq⟩ := not_forall.1 hmin
      obtain ⟨hqt, hq2⟩ := Classical.not_imp.1 hq
      obtain ⟨hqp, hne⟩ := Classical.not_imp.1 hq2
      have hlt := free_lt_of_le_ne hqp hne
      obtain ⟨m, hm, hmq⟩ := ih q (by omega) hqt (Space.le_trans hqp hle)
      exact ⟨m, hm, Space.le_trans hmq hqp⟩

theorem top_le (p : Space n) : p.le top := by
  intro i b h
  simp [top] at h

/-- **C03 from the weak invariant.** If the dump of a real diagram passes `judgeWeak` and has no unexpanded node,
    its expanded successor-free nodes (`minimal_trap_spaces()`) are exactly the minimal trap spaces of the network -
    whatever mixture of strategies, shortcuts and skip nodes produced it. -/
theorem weak_complete_leaves (c : Ctx n) (d : Dump n) (hroot : c.root = perc c.N top) (hw : WeakSpec c d)
    (hall : ∀ i, i < d.nodes.length → (d.node i).expanded = true) :
    ∀ m, m ∈ d.leaves ↔ m ∈ minTrapsIn c.N c.root := by
  have hin : ∀ i, i < d.nodes.length → (d.node i).space.le c.root := by
    intro i hi
    obtain ⟨ht, hp⟩ := hw.node i hi
    have := perc_mono c.N ht (top_le (d.node i).space)
    rw [hp, ← hroot] at this
    exact this
  have hsucc : ∀ i, d.succ i = (d.outs i).map (·.2.1) := fun i => rfl
  intro m
  constructor
  · intro hm
    unfold Dump.leaves at hm
    obtain ⟨i, hi, rfl⟩ := List.mem_map.1 hm
    obtain ⟨hir, hcond⟩ := List.mem_filter.1 hi
    have hilt : i < d.nodes.length := List.mem_range.1 hir
    simp only [Bool.and_eq_true, List.isEmpty_iff] at hcond
    have houts : d.outs i = [] := by
      have := hcond.2
      rw [hsucc] at this
      simpa using this
    rw [Dump.space_eq_node]
    obtain ⟨ht, _⟩ := hw.node i hilt
    obtain ⟨m', hm', hle'⟩ := exists_min_inside c.N c.root _ _ (Nat.le_refl _) ht (hin i hilt)
    rcases hw.cover i hilt (hall i hilt) m' hm' hle' with h | ⟨e, he, _⟩
    · rw [← h]; exact hm'
    · rw [houts] at he; cases he
  · intro hm
    have hmspec := (mem_minTrapsIn c.N c.root m).1 hm
    -- walk down from the root to the node whose space is `m`
    have descend : ∀ (k : Nat) (i : Nat), i < d.nodes.length → free (d.node i).space ≤ k → m.le (d.node i).space →
        ∃ j, j < d.nodes.length ∧ (d.node j).space = m := by
      intro k
      induction k with
      | zero =>
        intro i hi hk hle
        rcases hw.cover i hi (hall i hi) m hm hle with h | ⟨e, he, hme⟩
        · exact ⟨i, hi, h.symm⟩
        · obtain ⟨h1, h2⟩ := hw.inside i hi (hall i hi) e he
          have := free_lt_of_le_ne h1 h2
          omega
      | succ k ih =>
        intro i hi hk hle
        rcases hw.cover i hi (hall i hi) m hm hle with h | ⟨e, he, hme⟩
        · exact ⟨i, hi, h.symm⟩
        · obtain ⟨h1, h2⟩ := hw.inside i hi (hall i hi) e he
          have hlt := free_lt_of_le_ne h1 h2
          have hj := hw.targets i hi e he
          rw [Dump.space_eq_node] at hlt hme
          exact ih e.2.1 hj (by omega) hme
    have h0 : 0 < d.nodes.length := hw.root.1
    have hroot0 : (d.node 0).space = c.root := by rw [← Dump.space_eq_node]; exact hw.root.2
    obtain ⟨j, hj, hjm⟩ := descend _ 0 h0 (Nat.le_refl _) (by rw [hroot0]; exact hmspec.1.2)
    -- that node has no successor: a successor would be a trap space strictly inside a minimal one
    have houts : d.outs j = [] := by
      cases hout : d.outs j with
      | nil => rfl
      | cons e rest =>
        exfalso
        have he : e ∈ d.outs j := by rw [hout]; exact List.mem_cons_self
        obtain ⟨h1, h2⟩ := hw.inside j hj (hall j hj) e he
        have hk := hw.targets j hj e he
        obtain ⟨ht, _⟩ := hw.node e.2.1 hk
        rw [Dump.space_eq_node, hjm] at h1 h2
        exact h2 (hmspec.2 _ ht (Space.le_trans h1 hmspec.1.2) h1)
    unfold Dump.leaves
    apply List.mem_map.2
    refine ⟨j, List.mem_filter.2 ⟨List.mem_range.2 hj, ?_⟩, by rw [Dump.space_eq_node, hjm]⟩
    have hexp := hall j hj
    have hex2 : (d.nodes[j]?.map (·.expanded)).getD false = true := by
      unfold Dump.node at hexp
      cases hx : d.nodes[j]? with
      | none => rw [hx] at hexp; simp at hexp
      | some nd => rw [hx] at hexp; simpa using hexp
    simp only [hex2, Bool.true_and, List.isEmpty_iff]
    rw [hsucc, houts]; rfl

end Balm.Impl
