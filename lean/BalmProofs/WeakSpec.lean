import BalmProofs.JudgeSpec
/-!
# Soundness of the weak-invariant judge (C03, C05, C15)

`judgeWeak` is evaluated on dumps of real diagrams that were built with shortcuts (source-variable valuations
of block expansion, skip nodes, attached sub-diagrams of SCC expansion).  An `OK` proves the clauses below for
the dumped diagram; they are the hypotheses under which `Skip.skip_completion` / `Leaves.leaf_iff_minimal`
make the successor-free nodes exactly the minimal trap spaces.
-/
namespace Balm.Impl

open Balm

variable {n : Nat}

structure WeakSpec (c : Ctx n) (d : Dump n) : Prop where
  root : d.nodes.length > 0 ∧ d.space 0 = c.root
  distinct : ((d.nodes.map (·.space)).eraseDups).length = d.nodes.length
  node : ∀ i, i < d.nodes.length → TrapSpace c.N (d.node i).space ∧ perc c.N (d.node i).space = (d.node i).space
  stub : ∀ i, i < d.nodes.length → (d.node i).expanded = false → d.outs i = []
  /-- successors are strictly inside the node -/
  inside : ∀ i, i < d.nodes.length → (d.node i).expanded = true → ∀ e ∈ d.outs i,
    (d.space e.2.1).le (d.node i).space ∧ d.space e.2.1 ≠ (d.node i).space
  /-- every minimal trap space inside an expanded node is the node itself or lies inside a successor -/
  cover : ∀ i, i < d.nodes.length → (d.node i).expanded = true → ∀ m ∈ minTrapsIn c.N c.root,
    m.le (d.node i).space → m = (d.node i).space ∨ ∃ e ∈ d.outs i, m.le (d.space e.2.1)
  depth : ∀ i, i < d.nodes.length → (d.node i).depth = longestTo d.pairs d.nodes.length i

/-- **verified checker for diagrams built with shortcuts** -/
theorem judgeWeak_sound (c : Ctx n) (d : Dump n) (h : judgeWeak c d = none) : WeakSpec c d := by
  unfold judgeWeak at h
  simp only at h
  rw [firstSome_none] at h
  have hroot := h (chkRoot c d) (by simp)
  have hdist := h (chkDistinct d) (by simp)
  have hnode : ∀ i, i < d.nodes.length → ∀ x ∈ [chkTrap c d i, chkPerc c d i, chkTargets d i,
      chkKindWeak (minTrapsIn c.N c.root) d i, chkDepth d true i], x = none := by
    intro i hi
    have := h _ (List.mem_append_right _ (List.mem_map.2 ⟨i, List.mem_range.2 hi, rfl⟩))
    exact (firstSome_none _).1 this
  unfold chkRoot at hroot
  unfold chkDistinct at hdist
  rw [check_none] at hroot hdist
  refine ⟨?_, by simpa using hdist, ?_, ?_, ?_, ?_, ?_⟩
  · simp only [Bool.and_eq_true, decide_eq_true_eq, beq_iff_eq] at hroot
    exact hroot
  · intro i hi
    have h1 := hnode i hi (chkTrap c d i) (by simp)
    have h2 := hnode i hi (chkPerc c d i) (by simp)
    unfold chkTrap at h1
    unfold chkPerc at h2
    rw [check_none] at h1 h2
    exact ⟨(isTrapB_iff _ _).1 h1, by simpa using h2⟩
  · intro i hi hexp
    have h5 := hnode i hi (chkKindWeak (minTrapsIn c.N c.root) d i) (by simp)
    unfold chkKindWeak at h5
    simp only [hexp, Bool.not_false, if_true] at h5
    rw [check_none] at h5
    simpa using h5
  · intro i hi hexp e he
    have h5 := hnode i hi (chkKindWeak (minTrapsIn c.N c.root) d i) (by simp)
    unfold chkKindWeak at h5
    simp only [hexp, Bool.not_true, Bool.false_eq_true, if_false] at h5
    rw [firstSome_none] at h5
    have h6 := h5 _ List.mem_cons_self
    rw [check_none, List.all_eq_true] at h6
    have := h6 e he
    simp only [Bool.and_eq_true, bne_iff_ne, ne_eq, Space.leB_iff] at this
    exact this
  · intro i hi hexp m hm hle
    have h5 := hnode i hi (chkKindWeak (minTrapsIn c.N c.root) d i) (by simp)
    unfold chkKindWeak at h5
    simp only [hexp, Bool.not_true, Bool.false_eq_true, if_false] at h5
    rw [firstSome_none] at h5
    have h6 := h5 _ (List.mem_cons_of_mem _ List.mem_cons_self)
    rw [check_none, List.all_eq_true] at h6
    have := h6 m (List.mem_filter.2 ⟨hm, (Space.leB_iff _ _).2 hle⟩)
    simp only [Bool.or_eq_true, beq_iff_eq, List.any_eq_true, Space.leB_iff] at this
    exact this
  · intro i hi
    have h6 := hnode i hi (chkDepth d true i) (by simp)
    unfold chkDepth at h6
    simp only [if_true] at h6
    rw [check_none] at h6
    simpa using h6

end Balm.Impl
