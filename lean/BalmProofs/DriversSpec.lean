import Balm.Impl.Control
import Mathlib.Data.List.Sublists
/-!
# Soundness of the executable `findDrivers` (C07, partial)

Every assignment returned by the model of `find_drivers` (the function the real output is compared
with literally) passes the acceptance test, only uses allowed pool variables, respects the size bound;
for the internal strategy it carries the target's own values.  Completeness and minimality are proved
for the abstract enumeration (`Drivers.findDrivers_spec`); instantiating it on this executable
definition is pending.
-/
namespace Balm.Impl

open Balm

variable {n : Nat}

theorem ofFn_get {α : Type} (f : Fin n → α) (i : Fin n) : (Vector.ofFn f)[i] = f i := by simp

theorem foldl_invariant {α β : Type} (P : β → Prop) (f : β → α → β) :
    ∀ (l : List α) (b : β), P b → (∀ b a, a ∈ l → P b → P (f b a)) → P (l.foldl f b)
  | [], b, hb, _ => hb
  | x :: xs, b, hb, hstep => by
    simp only [List.foldl_cons]
    exact foldl_invariant P f xs (f b x) (hstep b x List.mem_cons_self hb)
      (fun b a ha hp => hstep b a (List.mem_cons_of_mem _ ha) hp)

theorem combos_sublist {α : Type} : ∀ (l : List α) (k : Nat) (s : List α), s ∈ combos l k → s.Sublist l ∧ s.length = k
  | l, 0, s, h => by
    cases l <;> simp [combos] at h <;> subst h <;> simp
  | [], k+1, s, h => by simp [combos] at h
  | x :: xs, k+1, s, h => by
    simp only [combos, List.mem_append, List.mem_map] at h
    rcases h with ⟨t, ht, rfl⟩ | h
    · obtain ⟨h1, h2⟩ := combos_sublist xs k t ht
      exact ⟨h1.cons_cons x, by simp [h2]⟩
    · obtain ⟨h1, h2⟩ := combos_sublist xs (k+1) s h
      exact ⟨h1.cons x, h2⟩

/-- what every reported driver assignment satisfies -/
structure DriverOK (N : Net n) (assume target : Space n) (pool : List (Fin n)) (maxSize : Nat) (d : Space n) : Prop where
  works : drives N assume target d = true
  inPool : ∀ i, (d[i]).isSome = true → i ∈ pool
  size : (dom d).length ≤ maxSize

theorem dom_spaceOfAssign_sub (a : List (Fin n × Bool)) (i : Fin n) (h : ((spaceOfAssign a)[i]).isSome = true) :
    i ∈ a.map (·.1) := by
  simp only [spaceOfAssign, ofFn_get, Option.isSome_map] at h
  obtain ⟨x, hx⟩ := Option.isSome_iff_exists.1 h
  have hm := List.mem_of_find?_eq_some hx
  have hp := List.find?_some hx
  simp only [beq_iff_eq] at hp
  exact List.mem_map.2 ⟨x, hm, hp⟩

theorem assignments_fst : ∀ (vs : List (Fin n)) (a : List (Fin n × Bool)), a ∈ assignments vs → a.map (·.1) = vs
  | [], a, h => by simp [assignments] at h; subst h; rfl
  | v :: vs, a, h => by
    simp only [assignments, List.mem_flatMap, List.mem_map] at h
    obtain ⟨b, _, t, ht, rfl⟩ := h
    simp [assignments_fst vs t ht]

theorem length_dom_le (d : Space n) (set : List (Fin n)) (hnd : set.Nodup)
    (h : ∀ i, (d[i]).isSome = true → i ∈ set) : (dom d).length ≤ set.length := by
  have hsub : (dom d) ⊆ set := by
    intro i hi
    exact h i (by simpa [dom] using (List.mem_filter.1 hi).2)
  have hnd' : (dom d).Nodup := (List.nodup_finRange n).filter _
  exact (List.Nodup.subperm hnd' hsub).length_le

/-- **C07 (soundness of the model of `find_drivers`).** -/
theorem findDrivers_sound (N : Net n) (assume target : Space n) (internal : Bool) (bound : Option Nat)
    (forbidden : List (Fin n)) (d : Space n)
    (h : d ∈ findDrivers N assume target internal bound forbidden) :
    drives N assume target d = true ∧ (∀ i, (d[i]).isSome = true → i ∉ forbidden) ∧
      (dom d).length ≤ bound.getD (dom (Vector.ofFn fun i => if (assume[i]).isSome then none else target[i] : Space n)).length := by
  unfold findDrivers at h
  simp only at h
  generalize hinner : (Vector.ofFn fun i => if (assume[i]).isSome then none else target[i] : Space n) = inner at h ⊢
  generalize hpool : ((if internal then dom inner else List.finRange n).filter fun i => !forbidden.contains i) = pool at h
  generalize hmax : bound.getD (dom inner).length = maxSize at h ⊢
  have hpoolnd : pool.Nodup := by
    rw [← hpool]
    apply List.Nodup.filter
    split
    · exact (List.nodup_finRange n).filter _
    · exact List.nodup_finRange n
  have hpoolforb : ∀ i ∈ pool, i ∉ forbidden := by
    intro i hi
    rw [← hpool] at hi
    have := (List.mem_filter.1 hi).2
    simpa using this
  -- invariant of both folds
  let P : Space n → Prop := fun d => drives N assume target d = true ∧ (∀ i, (d[i]).isSome = true → i ∈ pool) ∧ (dom d).length ≤ maxSize
  have key : ∀ d ∈ (List.range (maxSize + 1)).foldl (fun (found : List (Space n)) size =>
      (combos pool size).foldl (fun (found : List (Space n)) set =>
        if found.any (fun d => (dom d).all set.contains) then found
        else if internal then
          let d : Space n := Vector.ofFn fun i => if set.contains i then inner[i] else none
          if drives N assume target d then found ++ [d] else found
        else
          (assignments set).foldl (fun found a =>
            let d := spaceOfAssign a
            if drives N assume target d then found ++ [d] else found) found) found) [], P d := by
    apply foldl_invariant (fun (found : List (Space n)) => ∀ d ∈ found, P d)
    · intro d hd; cases hd
    · intro found size hsize hfound
      apply foldl_invariant (fun (found : List (Space n)) => ∀ d ∈ found, P d)
      · exact hfound
      · intro found' set hset hfound'
        obtain ⟨hsub, hlen⟩ := combos_sublist pool size set hset
        have hsetnd : set.Nodup := hsub.nodup hpoolnd
        have hsz : size ≤ maxSize := by have := List.mem_range.1 hsize; omega
        split
        · exact hfound'
        · split
          · simp only
            split
            · intro d hd
              rcases List.mem_append.1 hd with hd | hd
              · exact hfound' d hd
              · simp only [List.mem_singleton] at hd
                subst hd
                rename_i hdr
                have hin : ∀ i, ((Vector.ofFn fun i => if set.contains i then inner[i] else none : Space n)[i]).isSome = true → i ∈ set := by
                  intro i hi
                  simp only [ofFn_get] at hi
                  by_cases hc : i ∈ set
                  · exact hc
                  · simp [hc] at hi
                refine ⟨hdr, fun i hi => hsub.subset (hin i hi), ?_⟩
                have := length_dom_le _ set hsetnd hin
                omega
            · exact hfound'
          · apply foldl_invariant (fun (found : List (Space n)) => ∀ d ∈ found, P d)
            · exact hfound'
            · intro f a ha hf
              simp only
              split
              · intro d hd
                rcases List.mem_append.1 hd with hd | hd
                · exact hf d hd
                · simp only [List.mem_singleton] at hd
                  subst hd
                  rename_i hdr
                  have hfst := assignments_fst set a ha
                  have hin : ∀ i, ((spaceOfAssign a)[i]).isSome = true → i ∈ set := by
                    intro i hi
                    have := dom_spaceOfAssign_sub a i hi
                    rwa [hfst] at this
                  refine ⟨hdr, fun i hi => hsub.subset (hin i hi), ?_⟩
                  have := length_dom_le _ set hsetnd hin
                  omega
              · exact hf
  obtain ⟨h1, h2, h3⟩ := key d h
  exact ⟨h1, fun i hi => hpoolforb i (h2 i hi), h3⟩

end Balm.Impl
