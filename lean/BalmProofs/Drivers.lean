import Mathlib.Data.Finset.Powerset
import Mathlib.Data.Finset.Card
import Mathlib.Order.WellFounded

namespace Balm.Drivers

variable {α : Type} [DecidableEq α]

/-- `S` works and no strict subset of it works -/
def MinWorking (works : Finset α → Prop) (S : Finset α) : Prop :=
  works S ∧ ∀ T, T ⊂ S → ¬ works T

/-- every working set contains a minimal working set -/
theorem exists_min_below (works : Finset α → Prop) (S : Finset α) (h : works S) :
    ∃ T, T ⊆ S ∧ MinWorking works T := by
  induction S using Finset.strongInduction with
  | H S ih =>
    by_cases hmin : ∀ T, T ⊂ S → ¬ works T
    · exact ⟨S, Finset.Subset.refl S, h, hmin⟩
    · push_neg at hmin
      obtain ⟨T, hTS, hT⟩ := hmin
      obtain ⟨U, hUT, hU⟩ := ih T hTS hT
      exact ⟨U, hUT.trans hTS.subset, hU⟩

variable (works : Finset α → Prop) [DecidablePred works]

/-- one candidate set of the inner loop of `find_drivers`:
    skipped if some already found driver set is included in it -/
def tryOne (acc : List (Finset α)) (S : Finset α) : List (Finset α) :=
  if acc.any (fun d => d ⊆ S) then acc else if works S then acc ++ [S] else acc

/-- all candidates of one size, in the (arbitrary) order `L` -/
def sizeStep (acc : List (Finset α)) (L : List (Finset α)) : List (Finset α) :=
  L.foldl (tryOne works) acc

/-- the accumulated list after all sizes `< k`: exactly the minimal working subsets of `pool` of size `< k` -/
def Done (pool : Finset α) (k : Nat) (acc : List (Finset α)) : Prop :=
  ∀ R, R ∈ acc ↔ R ⊆ pool ∧ R.card < k ∧ MinWorking works R

/-- processing the candidates of size `k` in any order `L` that enumerates them -/
theorem sizeStep_spec (pool : Finset α) (k : Nat) (acc : List (Finset α))
    (hacc : Done works pool k acc) :
    ∀ (L : List (Finset α)) (cur : List (Finset α)),
      (∀ S ∈ L, S ⊆ pool ∧ S.card = k) →
      -- `cur` = `acc` plus minimal working sets of size `k` already met
      (∀ R, R ∈ cur → R ∈ acc ∨ (R ⊆ pool ∧ R.card = k ∧ MinWorking works R)) →
      (∀ R, R ∈ acc → R ∈ cur) →
      ∀ R, R ∈ sizeStep works cur L ↔
        R ∈ cur ∨ (R ∈ L ∧ MinWorking works R) := by
  intro L
  induction L with
  | nil => intro cur _ _ _ R; simp [sizeStep]
  | cons S L ih =>
    intro cur hL hcur hsub R
    have hS := hL S (List.mem_cons_self)
    have hL' : ∀ S' ∈ L, S' ⊆ pool ∧ S'.card = k := fun S' h => hL S' (List.mem_cons_of_mem _ h)
    -- does some found set sit inside S ?
    have hskip_iff : (cur.any (fun d => d ⊆ S) = true) ↔ (S ∈ cur ∨ ∃ T, T ⊂ S ∧ works T) := by
      rw [List.any_eq_true]
      constructor
      · rintro ⟨d, hd, hdS⟩
        have hdS : d ⊆ S := by simpa using hdS
        rcases hcur d hd with hda | ⟨_, hdk, _⟩
        · have := (hacc d).1 hda
          right
          refine ⟨d, ⟨hdS, ?_⟩, this.2.2.1⟩
          intro hSd
          have := Finset.card_le_card hSd
          omega
        · -- same size and included: equal
          left
          have : d = S := Finset.eq_of_subset_of_card_le hdS (by omega)
          rw [← this]; exact hd
      · rintro (hSc | ⟨T, hTS, hT⟩)
        · exact ⟨S, hSc, by simp⟩
        · obtain ⟨U, hUT, hU⟩ := exists_min_below works T hT
          have hUS : U ⊂ S := lt_of_le_of_lt hUT hTS
          have hUk : U.card < k := by
            have := Finset.card_lt_card hUS; omega
          have hUacc : U ∈ acc := (hacc U).2 ⟨hUS.subset.trans hS.1, hUk, hU⟩
          exact ⟨U, hsub U hUacc, by simpa using hUS.subset⟩
    unfold sizeStep
    rw [List.foldl_cons]
    by_cases hsk : cur.any (fun d => d ⊆ S) = true
    · -- skipped
      have htry : tryOne works cur S = cur := by simp [tryOne, hsk]
      rw [htry]
      have := ih cur hL' hcur hsub R
      unfold sizeStep at this
      rw [this]
      constructor
      · rintro (h | ⟨h1, h2⟩)
        · exact Or.inl h
        · exact Or.inr ⟨List.mem_cons_of_mem _ h1, h2⟩
      · rintro (h | ⟨h1, h2⟩)
        · exact Or.inl h
        · rcases List.mem_cons.1 h1 with rfl | h1
          · -- `R = S` is minimal working but was skipped: it must already be in `cur`
            rcases hskip_iff.1 hsk with hc | ⟨T, hTS, hT⟩
            · exact Or.inl hc
            · exact absurd hT (h2.2 T hTS)
          · exact Or.inr ⟨h1, h2⟩
    · -- not skipped
      have hnot : ¬ (S ∈ cur ∨ ∃ T, T ⊂ S ∧ works T) := fun h => hsk (hskip_iff.2 h)
      by_cases hw : works S
      · have htry : tryOne works cur S = cur ++ [S] := by simp [tryOne, hsk, hw]
        rw [htry]
        have hmin : MinWorking works S := ⟨hw, fun T hT hwT => hnot (Or.inr ⟨T, hT, hwT⟩)⟩
        have := ih (cur ++ [S]) hL'
          (by
            intro R hR
            rcases List.mem_append.1 hR with h | h
            · exact hcur R h
            · simp at h; subst h; exact Or.inr ⟨hS.1, hS.2, hmin⟩)
          (fun R hR => List.mem_append_left _ (hsub R hR)) R
        unfold sizeStep at this
        rw [this]
        constructor
        · rintro (h | ⟨h1, h2⟩)
          · rcases List.mem_append.1 h with h | h
            · exact Or.inl h
            · simp at h; subst h; exact Or.inr ⟨List.mem_cons_self, hmin⟩
          · exact Or.inr ⟨List.mem_cons_of_mem _ h1, h2⟩
        · rintro (h | ⟨h1, h2⟩)
          · exact Or.inl (List.mem_append_left _ h)
          · rcases List.mem_cons.1 h1 with rfl | h1
            · exact Or.inl (List.mem_append_right _ (by simp))
            · exact Or.inr ⟨h1, h2⟩
      · have htry : tryOne works cur S = cur := by simp [tryOne, hsk, hw]
        rw [htry]
        have := ih cur hL' hcur hsub R
        unfold sizeStep at this
        rw [this]
        constructor
        · rintro (h | ⟨h1, h2⟩)
          · exact Or.inl h
          · exact Or.inr ⟨List.mem_cons_of_mem _ h1, h2⟩
        · rintro (h | ⟨h1, h2⟩)
          · exact Or.inl h
          · rcases List.mem_cons.1 h1 with rfl | h1
            · exact absurd h2.1 hw
            · exact Or.inr ⟨h1, h2⟩

/-- one whole size: from `Done k` to `Done (k+1)`, for ANY enumeration order of the size-`k` subsets -/
theorem done_succ (pool : Finset α) (k : Nat) (acc : List (Finset α)) (hacc : Done works pool k acc)
    (L : List (Finset α)) (hL : ∀ S, S ∈ L ↔ S ⊆ pool ∧ S.card = k) :
    Done works pool (k+1) (sizeStep works acc L) := by
  intro R
  rw [sizeStep_spec works pool k acc hacc L acc (fun S hS => (hL S).1 hS)
        (fun R h => Or.inl h) (fun R h => h) R]
  constructor
  · rintro (h | ⟨h1, h2⟩)
    · have := (hacc R).1 h; exact ⟨this.1, by omega, this.2.2⟩
    · have := (hL R).1 h1; exact ⟨this.1, by omega, h2⟩
  · rintro ⟨h1, h2, h3⟩
    by_cases hk : R.card < k
    · exact Or.inl ((hacc R).2 ⟨h1, hk, h3⟩)
    · exact Or.inr ⟨(hL R).2 ⟨h1, by omega⟩, h3⟩

/-- **C07 core (`findDrivers_spec`).** Enumerating sizes `0..K` in ascending order, each size in
    an arbitrary order, with the superset skip, yields exactly the minimal working subsets of the
    pool of size `≤ K` – in particular independently of the iteration order of the Python `set`. -/
theorem findDrivers_spec (pool : Finset α) (K : Nat) (enum : Nat → List (Finset α))
    (henum : ∀ k S, S ∈ enum k ↔ S ⊆ pool ∧ S.card = k) :
    Done works pool (K+1) ((List.range (K+1)).foldl (fun acc k => sizeStep works acc (enum k)) []) := by
  have : ∀ K, Done works pool K ((List.range K).foldl (fun acc k => sizeStep works acc (enum k)) []) := by
    intro K
    induction K with
    | zero => intro R; simp [Done]
    | succ K ih =>
      rw [List.range_succ, List.foldl_append]
      exact done_succ works pool K _ ih (enum K) (henum K)
  exact this (K+1)

end Balm.Drivers
