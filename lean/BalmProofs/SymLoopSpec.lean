import Mathlib.Data.List.Basic
import Mathlib.Data.List.Count
import Mathlib.Tactic
import Balm.Impl.SymLoop
import BalmProofs.ReachSpec
/-!
# Specification of the candidate loop of `compute_attractors_symbolic` (C01, C05, C12)

`symbolicSeeds_spec`: for every network, trap space `p`, family of stable motifs (trap spaces) and
list of pairwise distinct candidate states of `p` outside the motifs that *covers* the own attractors
of the node (every attractor inside `p` that meets no motif contains a candidate), the seeds returned
by the executable model `Impl.symbolicSeeds` - with and without the `seeds_only` shortcut - lie in
pairwise different own attractors, every own attractor contains one, and the returned sets are exactly
the attractors of the seeds.  `nodeSeeds_spec` is the same for the logic of `node_attractor_seeds`
around the loop (empty list / single candidate of a pseudo-minimal node taken as it is).
-/
namespace Balm.Impl

open Balm Classical

variable {n : Nat}

theorem countP_lt_of {α : Type} (p q : α → Bool) :
    ∀ (l : List α), (∀ x ∈ l, p x = true → q x = true) → (∃ a ∈ l, q a = true ∧ p a = false) →
      l.countP p < l.countP q
  | [], _, ⟨a, ha, _⟩ => by cases ha
  | x :: l, hm, ⟨a, ha, hq, hp⟩ => by
    have hm' : ∀ y ∈ l, p y = true → q y = true := fun y hy => hm y (List.mem_cons_of_mem _ hy)
    have hle : l.countP p ≤ l.countP q := List.countP_mono_left hm'
    rcases List.mem_cons.1 ha with rfl | hal
    · simp only [List.countP_cons, hq, hp]; simp; omega
    · have ih := countP_lt_of p q l hm' ⟨a, hal, hq, hp⟩
      have hx := hm x List.mem_cons_self
      simp only [List.countP_cons]
      by_cases hpx : p x = true
      · simp [hpx, hx hpx]; omega
      · have : p x = false := by simpa using hpx
        by_cases hqx : q x = true <;> simp [this, hqx] <;> omega

/-- in a finite network every state reaches a state from which everything reachable leads back -/
theorem exists_terminal (N : Net n) :
    ∀ (k : Nat) (s : State n), (allStates n).countP (fun t => decide (Reach N s t)) ≤ k →
      ∃ t, Reach N s t ∧ ∀ u, Reach N t u → Reach N u t := by
  intro k
  induction k with
  | zero =>
    intro s h
    have : 0 < (allStates n).countP (fun t => decide (Reach N s t)) :=
      List.countP_pos_iff.2 ⟨s, mem_allStates s, by simpa using Reach.refl s⟩
    omega
  | succ k ih =>
    intro s h
    by_cases ht : ∀ u, Reach N s u → Reach N u s
    · exact ⟨s, Reach.refl s, ht⟩
    · obtain ⟨u, hu⟩ := not_forall.1 ht
      obtain ⟨hsu, hus⟩ := Classical.not_imp.1 hu
      have hlt : (allStates n).countP (fun t => decide (Reach N u t)) <
          (allStates n).countP (fun t => decide (Reach N s t)) := by
        apply countP_lt_of
        · intro x _ hx
          have : Reach N u x := by simpa using hx
          simpa using Reach.trans hsu this
        · exact ⟨s, mem_allStates s, by simpa using Reach.refl s, by simpa using hus⟩
      obtain ⟨t, hut, htt⟩ := ih u (by omega)
      exact ⟨t, Reach.trans hsu hut, htt⟩

/-- every state reaches an attractor -/
theorem reaches_attr (N : Net n) (s : State n) : ∃ t A, Reach N s t ∧ IsAttr N A ∧ A t := by
  obtain ⟨t, hst, ht⟩ := exists_terminal N _ s (Nat.le_refl _)
  exact ⟨t, _, hst, reach_isAttr N t ht, (mem_reachSet N t t).2 (Reach.refl t)⟩

theorem attr_eq_of_meet (N : Net n) {A B : State n → Prop} (hA : IsAttr N A) (hB : IsAttr N B)
    {t : State n} (ha : A t) (hb : B t) : ∀ u, A u ↔ B u := by
  intro u
  rw [hA.2 t ha u, hB.2 t hb u]

theorem symTest_none (N : Net n) (c : State n) (avoid : List (State n)) :
    symTest N c avoid = none ↔ ∃ t, Reach N c t ∧ t ∈ avoid := by
  unfold symTest
  simp only
  split
  · rename_i h
    simp only [List.any_eq_true, List.contains_iff_mem, mem_reachSet] at h
    simpa using h
  · rename_i h
    simp only [List.any_eq_true, List.contains_iff_mem, mem_reachSet] at h
    simp only [reduceCtorEq, false_iff]
    exact h

theorem symTest_some (N : Net n) (c : State n) (avoid R : List (State n)) (h : symTest N c avoid = some R) :
    R = reachSet N c ∧ ∀ t, Reach N c t → t ∉ avoid := by
  have hn : symTest N c avoid ≠ none := by rw [h]; simp
  have hno : ¬ ∃ t, Reach N c t ∧ t ∈ avoid := fun hh => hn ((symTest_none N c avoid).2 hh)
  refine ⟨?_, fun t ht hta => hno ⟨t, ht, hta⟩⟩
  unfold symTest at h
  simp only at h
  split at h
  · cases h
  · simpa using h.symm

section Loop

variable (N : Net n) (p : Space n) (K : State n → Prop)

/-- own attractor of a node: inside the node's space, disjoint from the children's motifs -/
def OwnA (A : State n → Prop) : Prop :=
  IsAttr N A ∧ (∀ s, A s → p.Mem s) ∧ (∀ s, A s → ¬ K s)

structure LInv (rest avoid seeds : List (State n)) (sets : List (List (State n))) : Prop where
  restIn : ∀ c ∈ rest, p.Mem c ∧ ¬ K c
  nodup : rest.Nodup
  fresh : ∀ c ∈ rest, c ∉ seeds
  lower : ∀ t, (t ∈ rest ∨ K t ∨ t ∈ seeds) → t ∈ avoid
  upper : ∀ t ∈ avoid, t ∈ rest ∨ K t ∨ ∃ f ∈ seeds, Reach N f t
  inOwn : ∀ f ∈ seeds, ∃ A, OwnA N p K A ∧ A f
  distinct : seeds.Pairwise (fun f g => ∀ A, OwnA N p K A → A f → ¬ A g)
  cover : ∀ A, OwnA N p K A → (∃ f ∈ seeds, A f) ∨ (∃ c ∈ rest, A c)
  setsEq : sets = seeds.map (reachSet N)

/-- what the loop promises about its result -/
structure Post (out : SymOut n) : Prop where
  inOwn : ∀ f ∈ out.seeds, ∃ A, OwnA N p K A ∧ A f
  distinct : out.seeds.Pairwise (fun f g => ∀ A, OwnA N p K A → A f → ¬ A g)
  cover : ∀ A, OwnA N p K A → ∃ f ∈ out.seeds, A f
  setsEq : ∀ L, out.sets = some L → L = out.seeds.map (reachSet N)

variable {N p K}

theorem symLoop_post (hp : TrapSpace N p)
    (seedsOnly minimal : Bool) (hmin : minimal = true → ∀ t, ¬ K t) :
    ∀ (rest avoid seeds : List (State n)) (sets : List (List (State n))),
      LInv N p K rest avoid seeds sets →
      Post N p K (symLoop N seedsOnly minimal rest avoid seeds sets) := by
  intro rest
  induction rest with
  | nil =>
    intro avoid seeds sets I
    refine ⟨by simpa [symLoop] using I.inOwn, by simpa [symLoop] using I.distinct, ?_, ?_⟩
    · intro A hA
      rcases I.cover A hA with h | ⟨c, hc, _⟩
      · simpa [symLoop] using h
      · cases hc
    · intro L hL
      simp only [symLoop, Option.some.injEq] at hL
      subst hL
      simpa [symLoop] using I.setsEq
  | cons c rest ih =>
    intro avoid seeds sets I
    have hcp : p.Mem c := (I.restIn c List.mem_cons_self).1
    have hcK : ¬ K c := (I.restIn c List.mem_cons_self).2
    have hcrest : c ∉ rest := (List.nodup_cons.1 I.nodup).1
    have hrestnd : rest.Nodup := (List.nodup_cons.1 I.nodup).2
    have hcseeds : c ∉ seeds := I.fresh c List.mem_cons_self
    unfold symLoop
    by_cases hsc : (seedsOnly && minimal && rest.isEmpty && seeds.isEmpty) = true
    · -- the unchecked last candidate of a (pseudo-)minimal node
      simp only [hsc, if_true]
      simp only [Bool.and_eq_true, List.isEmpty_iff] at hsc
      obtain ⟨⟨⟨_, hm⟩, hr⟩, hs⟩ := hsc
      subst hr; subst hs
      have hnoK := hmin hm
      have hall : ∀ A, OwnA N p K A → A c := by
        intro A hA
        rcases I.cover A hA with ⟨f, hf, _⟩ | ⟨c', hc', hAc'⟩
        · cases hf
        · simp at hc'; subst hc'; exact hAc'
      obtain ⟨t, A, hct, hAattr, hAt⟩ := reaches_attr N c
      have hOwn : OwnA N p K A :=
        ⟨hAattr, fun s hs => hp.reach hcp (Reach.trans hct ((hAattr.2 t hAt s).1 hs)), fun s _ => hnoK s⟩
      refine ⟨?_, by simp, ?_, by simp⟩
      · intro f hf
        simp at hf; subst hf
        exact ⟨A, hOwn, hall A hOwn⟩
      · intro B hB
        exact ⟨c, by simp, hall B hB⟩
    · simp only [hsc]
      simp only [Bool.false_eq_true, if_false]
      -- the avoid set seen by the test of `c`
      have hav' : ∀ t, t ∈ avoid.filter (fun t => t != c) ↔ t ∈ avoid ∧ t ≠ c := by
        intro t; simp [List.mem_filter]
      have hrej_iff : (∃ t, Reach N c t ∧ t ∈ avoid.filter (fun t => t != c)) ↔
          ∃ t, Reach N c t ∧ (t ∈ rest ∨ K t ∨ ∃ f ∈ seeds, Reach N f t) := by
        constructor
        · rintro ⟨t, hct, ht⟩
          obtain ⟨hta, htc⟩ := (hav' t).1 ht
          rcases I.upper t hta with h | h | h
          · rcases List.mem_cons.1 h with h | h
            · exact absurd h htc
            · exact ⟨t, hct, Or.inl h⟩
          · exact ⟨t, hct, Or.inr (Or.inl h)⟩
          · exact ⟨t, hct, Or.inr (Or.inr h)⟩
        · rintro ⟨t, hct, h | h | ⟨f, hf, hft⟩⟩
          · refine ⟨t, hct, (hav' t).2 ⟨I.lower t (Or.inl (List.mem_cons_of_mem _ h)), ?_⟩⟩
            rintro rfl; exact hcrest h
          · refine ⟨t, hct, (hav' t).2 ⟨I.lower t (Or.inr (Or.inl h)), ?_⟩⟩
            rintro rfl; exact hcK h
          · obtain ⟨A, hA, hAf⟩ := I.inOwn f hf
            have hAt : A t := (hA.1.2 f hAf t).2 hft
            have htf : Reach N t f := (hA.1.2 t hAt f).1 hAf
            refine ⟨f, Reach.trans hct htf, (hav' f).2 ⟨I.lower f (Or.inr (Or.inr hf)), ?_⟩⟩
            rintro rfl; exact hcseeds hf
      cases htest : symTest N c (avoid.filter (fun t => t != c)) with
      | none =>
        simp only
        have hrej := hrej_iff.1 ((symTest_none N c _).1 htest)
        apply ih
        refine ⟨fun c' h => I.restIn c' (List.mem_cons_of_mem _ h), hrestnd,
          fun c' h => I.fresh c' (List.mem_cons_of_mem _ h), ?_, ?_, I.inOwn, I.distinct, ?_, I.setsEq⟩
        · rintro t (h | h | h)
          · exact (hav' t).2 ⟨I.lower t (Or.inl (List.mem_cons_of_mem _ h)), by rintro rfl; exact hcrest h⟩
          · exact (hav' t).2 ⟨I.lower t (Or.inr (Or.inl h)), by rintro rfl; exact hcK h⟩
          · exact (hav' t).2 ⟨I.lower t (Or.inr (Or.inr h)), by rintro rfl; exact hcseeds h⟩
        · intro t ht
          obtain ⟨hta, htc⟩ := (hav' t).1 ht
          rcases I.upper t hta with h | h | h
          · rcases List.mem_cons.1 h with h | h
            · exact absurd h htc
            · exact Or.inl h
          · exact Or.inr (Or.inl h)
          · exact Or.inr (Or.inr h)
        · intro A hA
          rcases I.cover A hA with h | ⟨c', hc', hAc'⟩
          · exact Or.inl h
          · rcases List.mem_cons.1 hc' with rfl | hmem
            · obtain ⟨t, hct, hav⟩ := hrej
              have hAt : A t := (hA.1.2 _ hAc' t).2 hct
              rcases hav with h1 | h2 | ⟨f, hf, hft⟩
              · exact Or.inr ⟨t, h1, hAt⟩
              · exact absurd h2 (hA.2.2 t hAt)
              · obtain ⟨B, hB, hBf⟩ := I.inOwn f hf
                have hBt : B t := (hB.1.2 _ hBf t).2 hft
                have := attr_eq_of_meet N hA.1 hB.1 hAt hBt
                exact Or.inl ⟨f, hf, (this f).2 hBf⟩
            · exact Or.inr ⟨c', hmem, hAc'⟩
      | some R =>
        simp only
        obtain ⟨hR, hnot⟩ := symTest_some N c _ R htest
        have hno : ∀ t, Reach N c t → ¬ (t ∈ rest ∨ K t ∨ ∃ f ∈ seeds, Reach N f t) := by
          intro t hct hh
          obtain ⟨t', hct', ht'⟩ := hrej_iff.2 ⟨t, hct, hh⟩
          exact hnot t' hct' ht'
        obtain ⟨t, A, hct, hAattr, hAt⟩ := reaches_attr N c
        have hAX : ∀ s, A s → p.Mem s := fun s hs =>
          hp.reach hcp (Reach.trans hct ((hAattr.2 t hAt s).1 hs))
        have hAK : ∀ s, A s → ¬ K s := fun s hs hk =>
          hno s (Reach.trans hct ((hAattr.2 t hAt s).1 hs)) (Or.inr (Or.inl hk))
        have hOwn : OwnA N p K A := ⟨hAattr, hAX, hAK⟩
        have hnotfound : ¬ ∃ f ∈ seeds, A f := by
          rintro ⟨f, hf, hAf⟩
          exact hno t hct (Or.inr (Or.inr ⟨f, hf, (hAattr.2 f hAf t).1 hAt⟩))
        have hAc : A c := by
          rcases I.cover A hOwn with h | ⟨c', hc', hAc'⟩
          · exact absurd h hnotfound
          · rcases List.mem_cons.1 hc' with rfl | hmem
            · exact hAc'
            · exact absurd (Or.inl hmem) (hno c' (Reach.trans hct ((hAattr.2 t hAt c').1 hAc')))
        apply ih
        refine ⟨fun c' h => I.restIn c' (List.mem_cons_of_mem _ h), hrestnd, ?_, ?_, ?_, ?_, ?_, ?_, ?_⟩
        · intro c' h hc'
          rcases List.mem_append.1 hc' with h' | h'
          · exact I.fresh c' (List.mem_cons_of_mem _ h) h'
          · simp at h'; subst h'; exact hcrest h
        · rintro t (h | h | h)
          · exact List.mem_append_left _
              ((hav' t).2 ⟨I.lower t (Or.inl (List.mem_cons_of_mem _ h)), by rintro rfl; exact hcrest h⟩)
          · exact List.mem_append_left _
              ((hav' t).2 ⟨I.lower t (Or.inr (Or.inl h)), by rintro rfl; exact hcK h⟩)
          · rcases List.mem_append.1 h with h' | h'
            · exact List.mem_append_left _
                ((hav' t).2 ⟨I.lower t (Or.inr (Or.inr h')), by rintro rfl; exact hcseeds h'⟩)
            · simp at h'; subst h'
              exact List.mem_append_right _ (by rw [hR]; exact (mem_reachSet N _ _).2 (Reach.refl _))
        · intro t ht
          rcases List.mem_append.1 ht with ht | ht
          · obtain ⟨hta, htc⟩ := (hav' t).1 ht
            rcases I.upper t hta with h | h | ⟨f, hf, hft⟩
            · rcases List.mem_cons.1 h with h | h
              · exact absurd h htc
              · exact Or.inl h
            · exact Or.inr (Or.inl h)
            · exact Or.inr (Or.inr ⟨f, List.mem_append_left _ hf, hft⟩)
          · rw [hR] at ht
            exact Or.inr (Or.inr ⟨c, by simp, (mem_reachSet N _ _).1 ht⟩)
        · intro f hf
          rcases List.mem_append.1 hf with hf | hf
          · exact I.inOwn f hf
          · simp at hf; subst hf; exact ⟨A, hOwn, hAc⟩
        · refine List.pairwise_append.2 ⟨I.distinct, by simp, ?_⟩
          intro g hgm c' hc' B hB hBg hBc
          simp at hc'; subst hc'
          have := attr_eq_of_meet N hAattr hB.1 hAc hBc
          exact hnotfound ⟨g, hgm, (this g).2 hBg⟩
        · intro B hB
          rcases I.cover B hB with ⟨f, hf, hBf⟩ | ⟨c', hc', hBc'⟩
          · exact Or.inl ⟨f, List.mem_append_left _ hf, hBf⟩
          · rcases List.mem_cons.1 hc' with rfl | hmem
            · exact Or.inl ⟨c', by simp, hBc'⟩
            · exact Or.inr ⟨c', hmem, hBc'⟩
        · rw [I.setsEq, hR]; simp

end Loop

/-- the region of the children's motifs inside `p`, as a predicate -/
def KOf (p : Space n) (motifs : List (Space n)) (s : State n) : Prop :=
  p.Mem s ∧ ∃ m ∈ motifs, m.Mem s

theorem mem_motifStates (p : Space n) (motifs : List (Space n)) (s : State n) :
    s ∈ motifStates p motifs ↔ KOf p motifs s := by
  unfold motifStates KOf
  simp only [List.mem_filter, mem_statesOf, List.any_eq_true, Space.memB_iff]

/-- **C01/C05/C12: the candidate loop of `compute_attractors_symbolic` is exact.** -/
theorem symbolicSeeds_spec (N : Net n) (p : Space n) (motifs : List (Space n)) (cands : List (State n))
    (seedsOnly : Bool)
    (hp : TrapSpace N p)
    (hin : ∀ c ∈ cands, p.Mem c ∧ ¬ KOf p motifs c) (hnd : cands.Nodup)
    (hcov : ∀ A, OwnA N p (KOf p motifs) A → ∃ c ∈ cands, A c) :
    Post N p (KOf p motifs) (symbolicSeeds N p motifs cands seedsOnly) := by
  unfold symbolicSeeds
  apply symLoop_post hp
  · intro h t ht
    obtain ⟨_, m, hmm, _⟩ := ht
    have : motifs = [] := by simpa using h
    subst this; cases hmm
  · refine ⟨hin, hnd, by simp, ?_, ?_, by simp, by simp, ?_, by simp⟩
    · rintro t (h | h | h)
      · exact List.mem_append_left _ h
      · exact List.mem_append_right _ ((mem_motifStates p motifs t).2 h)
      · cases h
    · intro t ht
      rcases List.mem_append.1 ht with h | h
      · exact Or.inl h
      · exact Or.inr (Or.inl ((mem_motifStates p motifs t).1 h))
    · intro A hA
      exact Or.inr (hcov A hA)

/-- **the seed logic of `node_attractor_seeds`** (empty candidate list, the single candidate of a
    pseudo-minimal node, or the loop) returns exactly one seed per own attractor -/
theorem nodeSeeds_spec (N : Net n) (p : Space n) (motifs : List (Space n)) (cands : List (State n))
    (hp : TrapSpace N p)
    (hin : ∀ c ∈ cands, p.Mem c ∧ ¬ KOf p motifs c) (hnd : cands.Nodup)
    (hcov : ∀ A, OwnA N p (KOf p motifs) A → ∃ c ∈ cands, A c) :
    Post N p (KOf p motifs) (nodeSeeds N p motifs cands) := by
  unfold nodeSeeds
  split
  · rename_i h
    simp only [Bool.or_eq_true, List.isEmpty_iff, Bool.and_eq_true, beq_iff_eq] at h
    rcases h with h | ⟨hmot, hlen⟩
    · subst h
      refine ⟨by simp, by simp, ?_, by simp⟩
      intro A hA
      obtain ⟨c, hc, _⟩ := hcov A hA
      cases hc
    · -- one candidate, no motif: identical to the loop's shortcut
      match cands, hlen with
      | [c], _ =>
        have := symbolicSeeds_spec N p motifs [c] true hp hin hnd hcov
        subst hmot
        simp only [symbolicSeeds, symLoop, List.isEmpty_nil, Bool.and_self, if_true] at this
        refine ⟨this.inOwn, this.distinct, this.cover, by simp⟩
  · exact symbolicSeeds_spec N p motifs cands true hp hin hnd hcov

/-- non-vacuity: the two-state oscillator `x' = !x` with candidates `[0, 1]` - the loop rejects the
    first candidate (it reaches the second) and accepts the second -/
example :
    let N : Net 1 := ⟨fun _ s => !s[0]⟩
    (symbolicSeeds N (Vector.replicate 1 none) [] [#v[false], #v[true]] false).seeds = [#v[true]] := by
  decide

end Balm.Impl
