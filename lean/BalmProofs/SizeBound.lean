import BalmProofs.PlainInv
/-!
# The diagram of a plain history never has more than 3^n nodes (C13)

Node spaces are pairwise distinct (strict invariant) and there are `3^n` spaces over `n` variables, so every state
reachable by plain expansion calls - and with it the number of levels of the BFS driver, the length of the DFS stack
and the number of expansions any driver can make - is bounded by `3^n`.  This is the `d ≤ 3^n` part of the work bound
`W(n, d, budget)` that the work meter of C13 enforces on the real code.
-/
namespace Balm.Props.C04

open Balm Balm.Impl Balm.SDm

variable {n : Nat}

theorem allSpaces_length : (allSpaces n).length = 3 ^ n := by
  unfold allSpaces
  rw [allVec_length]
  rfl

theorem size_le_of_strict (c : Ctx n) (d : Diag n) (h : StrictInv c d) : d.size ≤ 3 ^ n := by
  unfold Diag.size
  have hsub : d.core.nodes ⊆ allSpaces n := fun p _ => mem_allSpaces p
  have := (List.Nodup.subperm h.nodup hsub).length_le
  rw [allSpaces_length] at this
  exact this

/-- **C13 (size bound).** After every plain history the model's diagram has at most `3^n` nodes. -/
theorem plain_history_size (N : Net n) (L : Nat) (ops : List (PlainOp n)) :
    (ops.foldl (runOp (Ctx.mk' N L)) (initDiag (Ctx.mk' N L))).size ≤ 3 ^ n :=
  size_le_of_strict _ _ (plain_history_inv N L ops)

end Balm.Props.C04
