import BalmProofs.AttrTest
import BalmProofs.SymLoopSpec
/-!
# The saturation loop of `symbolic_attractor_test` refines `symTest` (C01, C12)

`AttrTest` models the real loop abstractly: a state `(reach_set, avoid)` that is only ever changed by "add the
successors under one variable" / "add the predecessors under one variable", in whatever order the saturation
bookkeeping, the variable promotion and the symbolic-size heuristic choose.  Instantiated with the asynchronous graph
of a network, its two exits give exactly the verdict of the specification-level `Impl.symTest` that the candidate loop
model uses:

* `exit_none_symTest`  – when the two sets meet (`return None`), `symTest` answers `none`;
* `exit_some_symTest`  – when a full pass changes nothing and the sets are disjoint (`return reach_set`), `symTest`
  answers `some R` with the same states as `reach_set`.

So the chain "abstract saturation loop ⇒ `symTest` ⇒ `symbolicSeeds_spec`" has no gap at the level of the models; what
ties the abstract loop to the Python is the SYMLOOP replay of the loop's verdicts and sets.
-/
namespace Balm.Impl

open Balm

variable {n : Nat}

/-- the asynchronous graph of `N` as a per-variable transition system -/
def asyncTS (N : Net n) : AttrTest.TS (State n) (Fin n) := ⟨fun v s t => t = step N s v⟩

theorem asyncTS_reach (N : Net n) (s t : State n) : (asyncTS N).Reach s t ↔ Reach N s t := by
  unfold AttrTest.TS.Reach
  constructor
  · intro h
    induction h with
    | refl => exact Reach.refl s
    | tail _ hst ih =>
      obtain ⟨v, hv⟩ := hst
      simp only [asyncTS] at hv
      subst hv
      exact Reach.tail v ih
  · intro h
    induction h with
    | refl => exact Relation.ReflTransGen.refl
    | tail i _ ih => exact Relation.ReflTransGen.tail ih ⟨i, rfl⟩

variable {N : Net n}

/-- exit `return None` of the real loop: the specification answers `none` -/
theorem exit_none_symTest {pivot : State n} {avoid0 : Finset (State n)} {st : Finset (State n) × Finset (State n)}
    (h : AttrTest.Good (asyncTS N) pivot avoid0 st) (hmeet : (st.1 ∩ st.2).Nonempty)
    (avoid : List (State n)) (hav : ∀ t, t ∈ avoid ↔ t ∈ avoid0) :
    symTest N pivot avoid = none := by
  obtain ⟨t, ht, hr⟩ := AttrTest.exit_none h hmeet
  exact (symTest_none N pivot avoid).2 ⟨t, (asyncTS_reach N pivot t).1 hr, (hav t).2 ht⟩

/-- exit `return reach_set` of the real loop: the specification answers with the same set of states -/
theorem exit_some_symTest (ops : AttrTest.Ops (asyncTS N)) {pivot : State n} {avoid0 : Finset (State n)}
    {st : Finset (State n) × Finset (State n)}
    (h : AttrTest.Good (asyncTS N) pivot avoid0 st) (hdisj : st.1 ∩ st.2 = ∅)
    (hclosed : ∀ v, ops.postOut v st.1 = ∅)
    (avoid : List (State n)) (hav : ∀ t, t ∈ avoid ↔ t ∈ avoid0) :
    ∃ R, symTest N pivot avoid = some R ∧ ∀ t, t ∈ R ↔ t ∈ st.1 := by
  obtain ⟨hset, hno⟩ := AttrTest.exit_some ops h hdisj hclosed
  have hnn : symTest N pivot avoid ≠ none := by
    intro hnone
    obtain ⟨t, hr, hta⟩ := (symTest_none N pivot avoid).1 hnone
    exact hno t ((hav t).1 hta) ((asyncTS_reach N pivot t).2 hr)
  cases hs : symTest N pivot avoid with
  | none => exact absurd hs hnn
  | some R =>
    obtain ⟨hR, _⟩ := symTest_some N pivot avoid R hs
    refine ⟨R, rfl, fun t => ?_⟩
    rw [hR, mem_reachSet, hset t, asyncTS_reach]

end Balm.Impl
