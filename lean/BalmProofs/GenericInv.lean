import BalmProofs.PlainInv
/-!
# Every plain driver preserves every predicate that single-node expansion preserves

The plain drivers of the model (BFS, DFS, target-directed, minimal-space without skipping, block without source
shortcuts, attractor-seed) change the diagram through `expandNode` only.  The proofs below are the invariant proofs of
`Props/C04.lean` with the strict invariant replaced by an arbitrary predicate `P` (generated from them, checked by Lean
like everything else).  `plain_history_grows` instantiates `P` with "the diagram `d₀` is an initial part of this one":
no plain operation ever removes or renumbers a node, removes an edge, or un-expands a node - what an earlier call
returned stays valid while the diagram is expanded further (C04, C15).
-/
namespace Balm.Props.C04

open Balm Balm.Impl Balm.SDm

variable {n : Nat}

theorem bfsLevel_inv_gen (c : Ctx n) (P : Diag n → Prop) (hP : ∀ d i, P d → P (expandNode c d i).1) (sz : Option Nat) :
    ∀ (cur : List Nat) (d : Diag n) (seen next : List Nat), P d →
      P (bfsLevel c sz cur d seen next).1 := by
  intro cur
  induction cur with
  | nil => intro d seen next h; simpa [bfsLevel] using h
  | cons node rest ih =>
    intro d seen next h
    unfold bfsLevel
    split
    · exact h
    · have h' := hP d node h
      cases hx : expandNode c d node with
      | mk d' okk =>
        rw [hx] at h'
        simp only
        split
        · exact h'
        · exact ih _ _ _ h'

theorem bfsLoop_inv_gen (c : Ctx n) (P : Diag n → Prop) (hP : ∀ d i, P d → P (expandNode c d i).1) (lv sz : Option Nat) :
    ∀ (fuel : Nat) (d : Diag n) (seen cur : List Nat) (level : Nat), P d →
      P (bfsLoop c lv sz fuel d seen cur level).1 := by
  intro fuel
  induction fuel with
  | zero => intro d seen cur level h; simpa [bfsLoop] using h
  | succ fuel ih =>
    intro d seen cur level h
    unfold bfsLoop
    split
    · exact h
    · have h' := bfsLevel_inv_gen c P hP sz cur d seen [] h
      cases hx : bfsLevel c sz cur d seen [] with
      | mk d' r =>
        obtain ⟨seen', next, early⟩ := r
        rw [hx] at h'
        simp only
        cases early with
        | some o => exact h'
        | none =>
          simp only
          split
          · exact h'
          · exact ih _ _ _ _ h'

/-- **BFS from any node with any limits preserves the strict invariant.** -/
theorem expandBfs_inv_gen (c : Ctx n) (P : Diag n → Prop) (hP : ∀ d i, P d → P (expandNode c d i).1) (d : Diag n) (start : Nat) (lv sz : Option Nat) (h : P d) :
    P (expandBfs c d start lv sz).1 :=
  bfsLoop_inv_gen c P hP lv sz _ d _ _ _ h





/-- the DFS driver only changes the diagram through single-node expansion -/
theorem dfsLoop_inv_gen (c : Ctx n) (P : Diag n → Prop) (hP : ∀ d i, P d → P (expandNode c d i).1) (stackLimit sz : Option Nat) :
    ∀ (fuel : Nat) (d : Diag n) (seen : List Nat) (stack : List (Nat × Option (List Nat))) (complete : Bool),
      P d → P (dfsLoop c stackLimit sz fuel d seen stack complete).1 := by
  intro fuel
  induction fuel with
  | zero => intro d seen stack complete h; simpa [dfsLoop] using h
  | succ fuel ih =>
    intro d seen stack complete h
    cases stack with
    | nil => simpa [dfsLoop] using h
    | cons top rest =>
      obtain ⟨node, succ?⟩ := top
      -- the continuation after the successors are known
      have hstep : ∀ (d' : Diag n) (succ : List Nat), P d' →
          P (match dropSeen seen succ with
            | [] => dfsLoop c stackLimit sz fuel d' seen rest complete
            | s :: restSucc =>
              if hit stackLimit rest.length then dfsLoop c stackLimit sz fuel d' seen rest false
              else dfsLoop c stackLimit sz fuel d' (s :: seen) ((s, none) :: (node, some restSucc) :: rest) complete).1 := by
        intro d' succ hd'
        split
        · exact ih _ _ _ _ hd'
        · split
          · exact ih _ _ _ _ hd'
          · exact ih _ _ _ _ hd'
      cases succ? with
      | some succ =>
        simp only [dfsLoop]
        exact hstep d succ h
      | none =>
        simp only [dfsLoop]
        split
        · exact h
        · have h' := hP d node h
          cases hx : expandNode c d node with
          | mk d' okk =>
            rw [hx] at h'
            simp only
            split
            · exact h'
            · exact hstep d' _ h'

/-- **DFS from any node with any limits preserves the strict invariant.** -/
theorem expandDfs_inv_gen (c : Ctx n) (P : Diag n → Prop) (hP : ∀ d i, P d → P (expandNode c d i).1) (d : Diag n) (start : Nat) (st sz : Option Nat) (h : P d) :
    P (expandDfs c d start st sz).1 :=
  dfsLoop_inv_gen c P hP st sz _ d _ _ _ h

theorem targetLevel_inv_gen (c : Ctx n) (P : Diag n → Prop) (hP : ∀ d i, P d → P (expandNode c d i).1) (target : Space n) (sz : Option Nat) :
    ∀ (cur : List Nat) (d : Diag n) (seen next : List Nat), P d →
      P (targetLevel c target sz cur d seen next).1 := by
  intro cur
  induction cur with
  | nil => intro d seen next h; simpa [targetLevel] using h
  | cons node rest ih =>
    intro d seen next h
    unfold targetLevel
    simp only
    split
    · exact ih _ _ _ h
    · split
      · exact ih _ _ _ h
      · split
        · exact h
        · have h' := hP d node h
          cases hx : expandNode c d node with
          | mk d' okk =>
            rw [hx] at h'
            simp only
            split
            · exact h'
            · exact ih _ _ _ h'

theorem targetLoop_inv_gen (c : Ctx n) (P : Diag n → Prop) (hP : ∀ d i, P d → P (expandNode c d i).1) (target : Space n) (sz : Option Nat) :
    ∀ (fuel : Nat) (d : Diag n) (seen cur : List Nat), P d →
      P (targetLoop c target sz fuel d seen cur).1 := by
  intro fuel
  induction fuel with
  | zero => intro d seen cur h; simpa [targetLoop] using h
  | succ fuel ih =>
    intro d seen cur h
    unfold targetLoop
    split
    · exact h
    · have h' := targetLevel_inv_gen c P hP target sz cur d seen [] h
      cases hx : targetLevel c target sz cur d seen [] with
      | mk d' r =>
        obtain ⟨seen', next, early⟩ := r
        rw [hx] at h'
        simp only
        cases early with
        | some o => exact h'
        | none => exact ih _ _ _ h'

/-- **Target-directed expansion preserves the strict invariant.** -/
theorem expandToTarget_inv_gen (c : Ctx n) (P : Diag n → Prop) (hP : ∀ d i, P d → P (expandNode c d i).1) (d : Diag n) (target : Space n) (sz : Option Nat) (h : P d) :
    P (expandToTarget c d target sz).1 :=
  targetLoop_inv_gen c P hP target sz _ d _ _ h





/-- without `skip_ignored` the inner loop of the minimal-space driver does not touch the diagram -/
theorem minDrop_noskip_gen (c : Ctx n) (P : Diag n → Prop) (hP : ∀ d i, P d → P (expandNode c d i).1) (allMins : List (Space n)) (has : Bool) (seen : List Nat) :
    ∀ (succ : List Nat) (d : Diag n), (minDrop c false allMins has seen succ d).2 = d := by
  intro succ
  induction succ with
  | nil => intro d; simp [minDrop]
  | cons x xs ih =>
    intro d
    unfold minDrop
    split
    · exact ih d
    · split
      · simpa using ih d
      · rfl

/-- the minimal-space driver (no skipping) only changes the diagram through single-node expansion -/
theorem minLoop_inv_gen (c : Ctx n) (P : Diag n → Prop) (hP : ∀ d i, P d → P (expandNode c d i).1) (sz : Option Nat) (allMins : List (Space n)) :
    ∀ (fuel : Nat) (d : Diag n) (seen : List Nat) (mins : List (Space n))
      (stack : List (Nat × Option (List Nat))),
      P d → P (minLoop c sz false allMins fuel d seen mins stack).1 := by
  intro fuel
  induction fuel with
  | zero => intro d seen mins stack h; simpa [minLoop] using h
  | succ fuel ih =>
    intro d seen mins stack h
    cases stack with
    | nil => simpa [minLoop] using h
    | cons top rest =>
      obtain ⟨node, succ?⟩ := top
      have hstep : ∀ (d' : Diag n) (succ : List Nat), P d' →
          P (
            match minDrop c false allMins (mins.any fun m => m.leB (d'.space node)) seen succ d' with
            | (succ', d'') =>
              match succ' with
              | [] =>
                minLoop c sz false allMins fuel d'' seen
                  (if (d''.isExp node && (d''.succs node).isEmpty) = true then removeFirst (d''.space node) mins else mins) rest
              | s :: rest' =>
                minLoop c sz false allMins fuel d'' (s :: seen) mins ((s, none) :: (node, some rest') :: rest)).1 := by
        intro d' succ hd'
        have hkeep := minDrop_noskip_gen c P hP allMins (mins.any fun m => m.leB (d'.space node)) seen succ d'
        cases hx : minDrop c false allMins (mins.any fun m => m.leB (d'.space node)) seen succ d' with
        | mk succ' d'' =>
          rw [hx] at hkeep
          simp only at hkeep
          subst hkeep
          simp only
          split
          · exact ih _ _ _ _ hd'
          · exact ih _ _ _ _ hd'
      cases succ? with
      | some succ =>
        simp only [minLoop]
        exact hstep d succ h
      | none =>
        simp only [minLoop]
        split
        · exact h
        · have h' := hP d node h
          cases hx : expandNode c d node with
          | mk d' okk =>
            rw [hx] at h'
            simp only
            split
            · exact h'
            · exact hstep d' _ h'

/-- **Minimal-space expansion without skipping preserves the strict invariant**, for every answer of
    the `min` solver it is given. -/
theorem expandMinimal_inv_gen (c : Ctx n) (P : Diag n → Prop) (hP : ∀ d i, P d → P (expandNode c d i).1) (d : Diag n) (start : Nat) (sz : Option Nat) (allMins : List (Space n))
    (h : P d) : P (expandMinimalWith c d start sz false allMins).1 :=
  minLoop_inv_gen c P hP sz allMins _ d _ _ _ h

theorem blockLevel_inv_gen (c : Ctx n) (P : Diag n → Prop) (hP : ∀ d i, P d → P (expandNode c d i).1) (sz : Option Nat) (before : List Nat) :
    ∀ (cur : List Nat) (d : Diag n) (next : List Nat), P d →
      P (blockLevel c sz before cur d next).1 := by
  intro cur
  induction cur with
  | nil => intro d next h; simpa [blockLevel] using h
  | cons node rest ih =>
    intro d next h
    unfold blockLevel
    split
    · split
      · exact ih _ _ h
      · exact ih _ _ h
    · split
      · exact h
      · have h' := hP d node h
        cases hx : expandNode c d node with
        | mk d' okk =>
          rw [hx] at h'
          simp only
          split
          · exact h'
          · split
            · exact ih _ _ h'
            · exact ih _ _ h'
            · exact ih _ _ h'

theorem blockLoop_inv_gen (c : Ctx n) (P : Diag n → Prop) (hP : ∀ d i, P d → P (expandNode c d i).1) (sz : Option Nat) :
    ∀ (fuel : Nat) (d : Diag n) (cur before : List Nat), P d →
      P (blockLoop c sz fuel d cur before).1 := by
  intro fuel
  induction fuel with
  | zero => intro d cur before h; simpa [blockLoop] using h
  | succ fuel ih =>
    intro d cur before h
    unfold blockLoop
    split
    · exact h
    · have h' := blockLevel_inv_gen c P hP sz before (sortNat cur) d [] h
      cases hx : blockLevel c sz before (sortNat cur) d [] with
      | mk d' r =>
        obtain ⟨next, early⟩ := r
        rw [hx] at h'
        simp only
        cases early with
        | some o => exact h'
        | none => exact ih _ _ _ h'

/-- block expansion (no source shortcuts, no motif-avoidant check) preserves the strict invariant -/
theorem expandBlock_inv_gen (c : Ctx n) (P : Diag n → Prop) (hP : ∀ d i, P d → P (expandNode c d i).1) (d : Diag n) (sz : Option Nat) (h : P d) :
    P (expandBlock c d sz).1 :=
  blockLoop_inv_gen c P hP sz _ d _ _ h

theorem seedLoop_inv_gen (c : Ctx n) (P : Diag n → Prop) (hP : ∀ d i, P d → P (expandNode c d i).1) (sz : Option Nat) :
    ∀ (fuel : Nat) (d : Diag n) (seen : List Nat) (stack : List (Nat × Option (List Nat))) (found : List Bool),
      P d → P (seedLoop c sz fuel d seen stack found).1 := by
  intro fuel
  induction fuel with
  | zero => intro d seen stack found h; simpa [seedLoop] using h
  | succ fuel ih =>
    intro d seen stack found h
    cases stack with
    | nil => simpa [seedLoop] using h
    | cons top stack =>
      obtain ⟨node, succ?⟩ := top
      have hstep : ∀ (d : Diag n) (succ : List Nat), P d →
          P (match seedScan d seen succ found with
            | ([], found') => seedLoop c sz fuel d seen stack found'
            | (s :: rest, found') => seedLoop c sz fuel d (s :: seen) ((s, none) :: (node, some rest) :: stack) found').1 := by
        intro d succ hd
        cases hx : seedScan d seen succ found with
        | mk succ' found' =>
          cases succ' with
          | nil => exact ih _ _ _ _ hd
          | cons s rest => exact ih _ _ _ _ hd
      cases succ? with
      | some succ =>
        simp only [seedLoop]
        have := hstep d succ h
        cases hx : seedScan d seen succ found with
        | mk succ' found' =>
          rw [hx] at this
          cases succ' with
          | nil => simpa using this
          | cons s rest => simpa using this
      | none =>
        simp only [seedLoop]
        split
        · exact h
        · have h' := hP d node h
          cases hx : expandNode c d node with
          | mk d' okk =>
            rw [hx] at h'
            simp only
            split
            · exact h'
            · have := hstep d' (sortNat (d'.succs node)) h'
              cases hy : seedScan d' seen (sortNat (d'.succs node)) found with
              | mk succ' found' =>
                rw [hy] at this
                cases succ' with
                | nil => simpa using this
                | cons s rest => simpa using this

/-- attractor-seed expansion preserves the strict invariant, whatever the solvers answer -/
theorem expandASeeds_inv_gen (c : Ctx n) (P : Diag n → Prop) (hP : ∀ d i, P d → P (expandNode c d i).1) (d : Diag n) (sz : Option Nat) (allMins : List (Space n)) (found : List Bool)
    (h : P d) : P (expandASeeds c d sz allMins found).1 := by
  unfold expandASeeds
  have h1 := expandMinimal_inv_gen c P hP d 0 sz allMins h
  cases hx : expandMinimalWith c d 0 sz false allMins with
  | mk d1 o1 =>
    rw [hx] at h1
    simp only
    cases o1 with
    | err => exact h1
    | ok b => exact seedLoop_inv_gen c P hP sz _ d1 _ _ _ h1


/-- every plain operation preserves every predicate that single-node expansion preserves -/
theorem runOp_pres (c : Ctx n) (P : Diag n → Prop) (hP : ∀ d i, P d → P (expandNode c d i).1)
    (d : Diag n) (op : PlainOp n) (h : P d) : P (runOp c d op) := by
  cases op with
  | one i => exact hP d i h
  | bfs s lv sz => exact expandBfs_inv_gen c P hP d s lv sz h
  | dfs s st sz => exact expandDfs_inv_gen c P hP d s st sz h
  | target t sz => exact expandToTarget_inv_gen c P hP d t sz h
  | minimal s sz ans => exact expandMinimal_inv_gen c P hP d s sz ans h
  | block sz => exact expandBlock_inv_gen c P hP d sz h
  | aseeds sz ms found => exact expandASeeds_inv_gen c P hP d sz ms found h

/-- `d₀` is an initial part of `d`: same nodes under the same ids, same edges in the same order, and whatever was
    expanded stays expanded -/
structure Grows (d₀ d : Diag n) : Prop where
  nodes : d₀.core.nodes <+: d.core.nodes
  edges : d₀.core.edges <+: d.core.edges
  exp : ∀ i, d₀.isExp i = true → d.isExp i = true

theorem Grows.refl (d : Diag n) : Grows d d := ⟨List.prefix_refl _, List.prefix_refl _, fun _ h => h⟩

theorem Grows.trans {a b c : Diag n} (h1 : Grows a b) (h2 : Grows b c) : Grows a c :=
  ⟨h1.nodes.trans h2.nodes, h1.edges.trans h2.edges, fun i h => h2.exp i (h1.exp i h)⟩

/-- growth of the core state: nodes, edges and flags are extended at the end only -/
structure SGrows (s s' : SD (Space n)) : Prop where
  nodes : s.nodes <+: s'.nodes
  edges : s.edges <+: s'.edges
  exp : s.exp <+: s'.exp

theorem SGrows.refl (s : SD (Space n)) : SGrows s s := ⟨List.prefix_refl _, List.prefix_refl _, List.prefix_refl _⟩

theorem SGrows.trans {a b c : SD (Space n)} (h1 : SGrows a b) (h2 : SGrows b c) : SGrows a c :=
  ⟨h1.nodes.trans h2.nodes, h1.edges.trans h2.edges, h1.exp.trans h2.exp⟩

theorem addMotif_sgrows (E : Env (Space n)) (i : Nat) (s : SD (Space n)) (m : Space n) : SGrows s (addMotif E i s m) := by
  unfold addMotif ensureNode
  simp only
  split
  · exact ⟨List.prefix_refl _, List.prefix_append _ _, List.prefix_refl _⟩
  · exact ⟨List.prefix_append _ _, List.prefix_append _ _, List.prefix_append _ _⟩

theorem foldl_addMotif_sgrows (E : Env (Space n)) (i : Nat) :
    ∀ (ms : List (Space n)) (s : SD (Space n)), SGrows s (ms.foldl (addMotif E i) s)
  | [], s => SGrows.refl s
  | m :: ms, s => (addMotif_sgrows E i s m).trans (foldl_addMotif_sgrows E i ms _)

theorem getD_of_prefix {l l' : List Bool} (h : l <+: l') (j : Nat) (hj : l[j]?.getD false = true) :
    l'[j]?.getD false = true := by
  obtain ⟨t, rfl⟩ := h
  by_cases hlt : j < l.length
  · rw [List.getElem?_append_left hlt]; exact hj
  · have : l[j]? = none := List.getElem?_eq_none (by omega)
    rw [this] at hj; cases hj

theorem getD_set_true (l : List Bool) (i j : Nat) (hj : l[j]?.getD false = true) :
    (l.set i true)[j]?.getD false = true := by
  rw [List.getElem?_set]
  split
  · split
    · rfl
    · rename_i h1 h2
      subst h1
      have : l[i]? = none := List.getElem?_eq_none (by omega)
      rw [this] at hj; cases hj
  · exact hj

/-- single-node expansion only adds -/
theorem expandOne_grows (c : Ctx n) (d : Diag n) (i : Nat) :
    Grows d { d with core := expandOne c.env d.core i } := by
  unfold expandOne
  cases hn : d.core.nodes[i]? with
  | none => exact Grows.refl d
  | some p =>
    cases he : d.core.exp[i]? with
    | none => exact Grows.refl d
    | some b =>
      cases b with
      | true => exact Grows.refl d
      | false =>
        simp only
        have hg := foldl_addMotif_sgrows c.env i (c.env.maxT p) d.core
        refine ⟨hg.nodes, hg.edges, fun j hj => ?_⟩
        unfold Diag.isExp at hj ⊢
        exact getD_set_true _ i j (getD_of_prefix hg.exp j hj)

/-- single-node expansion only adds -/
theorem expandNode_grows (c : Ctx n) (d : Diag n) (i : Nat) : Grows d (expandNode c d i).1 := by
  unfold expandNode expandOneLimited
  simp only
  split
  · split
    · exact Grows.refl d
    · exact expandOne_grows c d i
  · exact Grows.refl d

/-- **C04/C15: plain histories only add.**  Whatever plain operations follow, the diagram at any earlier moment is
    an initial part of the later one: node ids, spaces, edges with their motifs and the `expanded` flags of that moment
    are still there. -/
theorem plain_history_grows (c : Ctx n) (ops : List (PlainOp n)) (d : Diag n) :
    Grows d (ops.foldl (runOp c) d) := by
  induction ops generalizing d with
  | nil => exact Grows.refl d
  | cons op ops ih =>
    simp only [List.foldl_cons]
    have h1 : Grows d (runOp c d op) :=
      runOp_pres c (Grows d) (fun d' i h => h.trans (expandNode_grows c d' i)) d op (Grows.refl d)
    exact h1.trans (ih _)

end Balm.Props.C04
