import Balm.Impl.CandModel
/-!
# The candidate branching model returns a *complete* fixed-point set (C08)

For every solver `solve` that meets its specification w.r.t. a fixed-point function `fp` (answers are
duplicate-free sub-lists of `fp R`, at most `max L 1` long, and complete when shorter than that – the
three facts the driver validates for every recorded answer), every configuration (threshold and limit
values, 0 included), every NFVS and every dictionary order: whenever `candidatesModel` returns
`ok C` through one of its solver branches, `C` is the complete fixed-point set of the reduced
transition graph of *some* retained map.  By the NFVS theorem (E6) such a set meets every attractor
of the node that is not inside a successor – the covering clause of C08.  The two shortcuts that do
not call the solver (the node is a single state; empty NFVS in a node with successors) are
identified as such.
-/
namespace Balm.Impl

open Balm

variable {n : Nat}

structure SolverOK (fp : Space n → List (State n)) (solve : Space n → Nat → List (State n)) : Prop where
  sub : ∀ R L x, x ∈ solve R L → x ∈ fp R
  len_le : ∀ R L, (solve R L).length ≤ max L 1
  complete_of_lt : ∀ R L, (solve R L).length < max L 1 → ∀ x ∈ fp R, x ∈ solve R L

def CompleteFor (fp : Space n → List (State n)) (C : List (State n)) (R : Space n) : Prop := ∀ x, x ∈ C ↔ x ∈ fp R

theorem complete_of_short {fp : Space n → List (State n)} {solve : Space n → Nat → List (State n)}
    (h : SolverOK fp solve) (R : Space n) (L : Nat) (hlt : (solve R L).length < max L 1) :
    CompleteFor fp (solve R L) R :=
  fun x => ⟨h.sub R L x, h.complete_of_lt R L hlt x⟩

def ValidSt (fp : Space n → List (State n)) (st : CandSt n) : Prop := CompleteFor fp st.cands st.retained

/-- a pass of the greedy flip loop keeps the pair (retained map, complete candidate list) valid and
    never lengthens the list -/
theorem greedyPass_valid {fp : Space n → List (State n)} {solve : Space n → Nat → List (State n)}
    (h : SolverOK fp solve) (avoidEmpty : Bool) :
    ∀ (keys : List (Fin n)) (st : CandSt n) (done : Bool), ValidSt fp st →
      ValidSt fp (greedyPass solve avoidEmpty keys st done).1 ∧
        (greedyPass solve avoidEmpty keys st done).1.cands.length ≤ st.cands.length := by
  intro keys
  induction keys with
  | nil => intro st done hv; exact ⟨hv, Nat.le_refl _⟩
  | cons v vs ih =>
    intro st done hv
    unfold greedyPass
    split
    · exact ⟨hv, Nat.le_refl _⟩
    · split
      · exact ⟨hv, Nat.le_refl _⟩
      · rename_i hne _
        simp only
        split
        · rename_i hlt
          have hpos : 0 < st.cands.length := by
            cases hc : st.cands with
            | nil => simp [hc] at hne
            | cons _ _ => simp
          have hvalid : ValidSt fp { retained := flipVar st.retained v, cands := solve (flipVar st.retained v) st.cands.length,
                                      calls := st.calls ++ [(flipVar st.retained v, st.cands.length)] } :=
            complete_of_short h _ _ (by
              have : max st.cands.length 1 = st.cands.length := by omega
              rw [this]; exact hlt)
          obtain ⟨i1, i2⟩ := ih _ false hvalid
          exact ⟨i1, by simp only at i2; omega⟩
        · have hvalid : ValidSt fp { st with calls := st.calls ++ [(flipVar st.retained v, st.cands.length)] } := hv
          obtain ⟨i1, i2⟩ := ih _ done hvalid
          exact ⟨i1, i2⟩

theorem greedyLoop_valid {fp : Space n → List (State n)} {solve : Space n → Nat → List (State n)}
    (h : SolverOK fp solve) (avoidEmpty : Bool) (keys : List (Fin n)) :
    ∀ (fuel : Nat) (st : CandSt n), ValidSt fp st →
      ValidSt fp (greedyLoop solve avoidEmpty keys fuel st) ∧
        (greedyLoop solve avoidEmpty keys fuel st).cands.length ≤ st.cands.length := by
  intro fuel
  induction fuel with
  | zero => intro st hv; exact ⟨hv, Nat.le_refl _⟩
  | succ fuel ih =>
    intro st hv
    simp only [greedyLoop]
    obtain ⟨p1, p2⟩ := greedyPass_valid h avoidEmpty keys st true hv
    cases hx : greedyPass solve avoidEmpty keys st true with
    | mk st' r =>
      obtain ⟨done, early⟩ := r
      rw [hx] at p1 p2
      simp only at p1 p2 ⊢
      split
      · exact ⟨p1, p2⟩
      · obtain ⟨q1, q2⟩ := ih st' p1
        exact ⟨q1, by omega⟩

/-- invariant of the regeneration loop: valid and below the candidate limit -/
def Small (fp : Space n → List (State n)) (limitC : Nat) (st : CandSt n) : Prop :=
  ValidSt fp st ∧ st.cands.length < limitC

theorem regenVar_small {fp : Space n → List (State n)} {solve : Space n → Nat → List (State n)}
    (h : SolverOK fp solve) (cfg : CandCfg) (limitC : Nat) (hl : 1 ≤ limitC) (avoidEmpty : Bool)
    (keysOf : Space n → List (Fin n)) (st st' : CandSt n) (v : Fin n)
    (hpre : st.cands = [] ∨ Small fp limitC st)
    (hres : regenVar solve cfg limitC avoidEmpty keysOf st v = some st') : Small fp limitC st' := by
  have hC : st.cands.length < limitC := by
    rcases hpre with h0 | hs
    · rw [h0]; simp; omega
    · exact hs.2
  have hmaxL : max limitC 1 = limitC := by omega
  unfold regenVar at hres
  simp only at hres
  split at hres
  · rename_i hle
    cases hres
    have hlt : (solve (st.retained.set v (some false)) limitC).length < max limitC 1 := by omega
    exact ⟨complete_of_short h _ _ hlt, by simp only; omega⟩
  · rename_i hgt
    have hzpos : 1 ≤ (solve (st.retained.set v (some false)) limitC).length := by omega
    have hmaxZ : max (solve (st.retained.set v (some false)) limitC).length 1 = (solve (st.retained.set v (some false)) limitC).length := by omega
    have hzle := h.len_le (st.retained.set v (some false)) limitC
    rw [hmaxL] at hzle
    split at hres
    · cases hres
    · rename_i hnoerr
      have hnoerr' : ¬ ((solve (st.retained.set v (some false)) limitC).length ≥ limitC ∧
          (solve (st.retained.set v (some true)) (solve (st.retained.set v (some false)) limitC).length).length ≥ limitC) := by
        intro ⟨a, b⟩
        apply hnoerr
        simp [a, b]
      split at hres
      · rename_i hole
        cases hres
        refine ⟨complete_of_short h _ _ (by rw [hmaxZ]; omega), by simp only; omega⟩
      · rename_i hogt
        -- the chosen pair before the optional greedy pass
        have key : Small fp limitC (pickSt (st.retained.set v (some false)) (st.retained.set v (some true))
            (solve (st.retained.set v (some false)) limitC)
            (solve (st.retained.set v (some true)) (solve (st.retained.set v (some false)) limitC).length)
            (st.calls ++ [(st.retained.set v (some false), limitC)] ++
                  [(st.retained.set v (some true), (solve (st.retained.set v (some false)) limitC).length)])) := by
          unfold pickSt
          split
          · rename_i hzo
            have hzlt : (solve (st.retained.set v (some false)) limitC).length < limitC := by
              apply Classical.byContradiction
              intro hc
              apply hnoerr'
              constructor <;> omega
            exact ⟨complete_of_short h _ _ (by rw [hmaxL]; exact hzlt), hzlt⟩
          · rename_i hzo
            refine ⟨complete_of_short h _ _ (by rw [hmaxZ]; omega), by simp only; omega⟩
        split at hres
        · cases hres
          have hs := key
          obtain ⟨g1, g2⟩ := greedyLoop_valid h avoidEmpty (keysOf _) _ _ hs.1
          exact ⟨g1, by have := hs.2; omega⟩
        · cases hres
          exact key

theorem regenLoop_small {fp : Space n → List (State n)} {solve : Space n → Nat → List (State n)}
    (h : SolverOK fp solve) (cfg : CandCfg) (limitC : Nat) (hl : 1 ≤ limitC) (avoidEmpty : Bool)
    (keysOf : Space n → List (Fin n)) :
    ∀ (vs : List (Fin n)) (st st' : CandSt n), vs ≠ [] → (st.cands = [] ∨ Small fp limitC st) →
      regenLoop solve cfg limitC avoidEmpty keysOf vs st = some st' → Small fp limitC st'
  | [], _, _, hne, _, _ => absurd rfl hne
  | v :: vs, st, st', _, hpre, hres => by
    simp only [regenLoop] at hres
    cases hstep : regenVar solve cfg limitC avoidEmpty keysOf st v with
    | none => simp [hstep] at hres
    | some st1 =>
      simp only [hstep] at hres
      have hv := regenVar_small h cfg limitC hl avoidEmpty keysOf st st1 v hpre hstep
      cases vs with
      | nil => simp [regenLoop] at hres; subst hres; exact hv
      | cons w ws => exact regenLoop_small h cfg limitC hl avoidEmpty keysOf (w :: ws) st1 st' (by simp) (Or.inr hv) hres

/-- **C08 (`candidates_complete`).** Whatever the configuration values, the NFVS, the dictionary
    orders and the solver's enumeration order: a candidate list returned by the branching logic is
    either one of the two solver-free shortcuts or the complete fixed-point set of the reduced
    transition graph for some retained map. -/
theorem candidates_complete {fp : Space n → List (State n)} {solve : Space n → Nat → List (State n)}
    (h : SolverOK fp solve) (cfg : CandCfg) (node : Space n) (avoidEmpty : Bool) (nfvs : List (Fin n))
    (retained0 : Space n) (keys0 : List (Fin n)) (greedy : Bool) (C : List (State n)) (calls : List (Call n))
    (hres : candidatesModel solve cfg node avoidEmpty nfvs retained0 keys0 greedy = (.ok C, calls)) :
    (∃ s, fullState node = some s ∧ C = [s]) ∨ (nfvs = [] ∧ avoidEmpty = false ∧ C = []) ∨
      ∃ R, CompleteFor fp C R := by
  unfold candidatesModel at hres
  cases hfs : fullState node with
  | some s =>
    simp only [hfs] at hres
    cases hres
    exact Or.inl ⟨s, rfl, rfl⟩
  | none =>
    simp only [hfs] at hres
    split at hres
    · rename_i hsc
      cases hres
      simp only [Bool.and_eq_true, List.isEmpty_iff, Bool.not_eq_true'] at hsc
      exact Or.inr (Or.inl ⟨hsc.1, hsc.2, rfl⟩)
    · right; right
      have hl : 1 ≤ max 1 cfg.limit := by omega
      have hmaxL : max (max 1 cfg.limit) 1 = max 1 cfg.limit := by omega
      split at hres
      · -- no greedy minification
        split at hres
        · cases hres
        · rename_i hlt
          cases hres
          exact ⟨retained0, complete_of_short h _ _ (by rw [hmaxL]; omega)⟩
      · split at hres
        · rename_i hsmall
          have hv0 : ValidSt fp { retained := retained0, cands := solve retained0 cfg.threshold,
                                   calls := [(retained0, cfg.threshold)] } :=
            complete_of_short h _ _ (by omega)
          split at hres
          · cases hres
            exact ⟨_, (greedyLoop_valid h avoidEmpty keys0 _ _ hv0).1⟩
          · cases hres
            exact ⟨retained0, hv0⟩
        · split at hres
          · split at hres
            · cases hres
            · rename_i hlt
              cases hres
              exact ⟨top, complete_of_short h _ _ (by rw [hmaxL]; omega)⟩
          · rename_i hne
            cases hreg : regenLoop solve cfg (max 1 cfg.limit) avoidEmpty (fun r => nfvs.filter fun v => (r[v]).isSome) nfvs
                { retained := top, cands := [], calls := [(retained0, cfg.threshold)] } with
            | none => simp only [hreg] at hres; cases hres
            | some st =>
              simp only [hreg] at hres
              cases hres
              have hnn : nfvs ≠ [] := by
                intro e; apply hne; simp [e]
              exact ⟨st.retained, (regenLoop_small h cfg _ hl avoidEmpty _ nfvs _ st hnn (Or.inl rfl) hreg).1⟩

end Balm.Impl

namespace Balm.Impl
variable {n : Nat}
/-- non-vacuity: the reference solver (first `max L 1` fixed points) meets `SolverOK` -/
theorem solverOK_take (fp : Space n → List (State n)) : SolverOK fp (fun R L => (fp R).take (max L 1)) where
  sub := fun _ _ _ hx => List.mem_of_mem_take hx
  len_le := fun R L => by simp only [List.length_take]; omega
  complete_of_lt := fun R L hlt x hx => by
    simp only [List.length_take] at hlt
    have : (fp R).length ≤ max L 1 := by omega
    rw [List.take_of_length_le this]; exact hx
end Balm.Impl
