import BalmProofs.SymLoopSpec
/-!
# A checked certificate per replayed call of the candidate loop

`symHypB N p motifs cands` evaluates the hypotheses of `symbolicSeeds_spec` on one concrete call: the node's
space is a trap space, the candidates are pairwise distinct states of it outside the motifs, and every
attractor of the network that lies inside the space and meets no motif contains a candidate.  When it
answers `true`, the result of the model on that call is exact (`symbolicSeeds_checked`); the harness asks
for it with every replayed call of an ordinary node (stream SYMLOOP), so that "real output = model output"
and "model output = one seed per own attractor" hold for the very same call.
-/
namespace Balm.Impl

open Balm

variable {n : Nat}

theorem inK_iff (p : Space n) (motifs : List (Space n)) (s : State n) : inK p motifs s = true ↔ KOf p motifs s := by
  simp only [inK, KOf, Bool.and_eq_true, List.any_eq_true, Space.memB_iff]

theorem nodupB_iff : ∀ l : List (State n), nodupB l = true ↔ l.Nodup
  | [] => by simp [nodupB]
  | x :: xs => by simp [nodupB, nodupB_iff xs]

theorem symHypB_spec (N : Net n) (p : Space n) (motifs : List (Space n)) (cands : List (State n))
    (h : symHypB N p motifs cands = true) :
    TrapSpace N p ∧ (∀ c ∈ cands, p.Mem c ∧ ¬ KOf p motifs c) ∧ cands.Nodup ∧
      ∀ A, OwnA N p (KOf p motifs) A → ∃ c ∈ cands, A c := by
  simp only [symHypB, Bool.and_eq_true, List.all_eq_true, nodupB_iff, Bool.or_eq_true,
    Bool.not_eq_true', List.any_eq_true, List.contains_iff_mem] at h
  obtain ⟨⟨⟨htrap, hin⟩, hnd⟩, hcov⟩ := h
  refine ⟨(isTrapB_iff N p).1 htrap, ?_, hnd, ?_⟩
  · intro c hc
    have := hin c hc
    simp only [Bool.and_eq_true, Bool.not_eq_true', Space.memB_iff] at this
    refine ⟨this.1, fun hk => ?_⟩
    have := (inK_iff p motifs c).2 hk
    simp_all
  · intro A hA
    obtain ⟨L, hL, hAL⟩ := attractors_complete N A hA.1
    rcases hcov L hL with hno | ⟨c, hc, hcL⟩
    · exfalso
      rw [List.all_eq_false] at hno
      obtain ⟨s, hs, hbad⟩ := hno
      have hAs : A s := (hAL s).2 hs
      have h1 : p.memB s = true := (Space.memB_iff p s).2 (hA.2.1 s hAs)
      have h2 : inK p motifs s = false := by
        cases hk : inK p motifs s with
        | false => rfl
        | true => exact absurd ((inK_iff p motifs s).1 hk) (hA.2.2 s hAs)
      simp [h1, h2] at hbad
    · exact ⟨c, hc, (hAL c).2 hcL⟩

/-- **per-call certificate**: when the executable hypothesis check passes, the model's answer for this call has
    exactly one seed in every own attractor of the node, and the sets are the attractors of the seeds -/
theorem symbolicSeeds_checked (N : Net n) (p : Space n) (motifs : List (Space n)) (cands : List (State n))
    (seedsOnly : Bool) (h : symHypB N p motifs cands = true) :
    Post N p (KOf p motifs) (symbolicSeeds N p motifs cands seedsOnly) := by
  obtain ⟨h1, h2, h3, h4⟩ := symHypB_spec N p motifs cands h
  exact symbolicSeeds_spec N p motifs cands seedsOnly h1 h2 h3 h4

theorem nodeSeeds_checked (N : Net n) (p : Space n) (motifs : List (Space n)) (cands : List (State n))
    (h : symHypB N p motifs cands = true) :
    Post N p (KOf p motifs) (nodeSeeds N p motifs cands) := by
  obtain ⟨h1, h2, h3, h4⟩ := symHypB_spec N p motifs cands h
  exact nodeSeeds_spec N p motifs cands h1 h2 h3 h4

end Balm.Impl
