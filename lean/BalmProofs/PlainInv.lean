import BalmProofs.JudgeExact
import BalmProofs.JudgeSpec
import Balm.Impl.Diagram
import Balm.Impl.Block
import Balm.Impl.ASeeds
import Balm.Full
/-!
# C04 – lazily built diagrams are always a faithful part of the full diagram

The model's single-node expansion is `SDm.expandOneLimited` over `Impl.implEnv`; every plain
driver of `Impl.Diagram` (BFS, DFS, target-directed, minimal-space without skipping) changes the
diagram only through `Impl.expandNode`.  Hence the strict invariant `SDm.Inv` – nodes are pairwise
distinct percolation-closed trap spaces, an unexpanded node has no successor, an expanded node has
exactly the percolations of its stable motifs as successors with exactly those motifs on the
edges, in key order – holds after every plain history, for every network, limit and start node.
-/
namespace Balm.Props.C04

open Balm Balm.Impl Balm.SDm

variable {n : Nat}

/-- the root of every diagram is a percolation-closed trap space -/
theorem root_good (N : Net n) : GoodSpace N (perc N top) :=
  ⟨percIter_trap N (constOnOf N) n _ (top_trap N), percolate_idem N (constOnOf N) _⟩

/-- the strict invariant, for the model state -/
def StrictInv (c : Ctx n) (d : Diag n) : Prop := SDm.Inv c.env d.core none

theorem init_inv (N : Net n) (L : Nat) : StrictInv (Ctx.mk' N L) (initDiag (Ctx.mk' N L)) :=
  SDm.init_inv _ _ (root_good N)

/-- single-node expansion (with the stable-motif limit error) preserves the invariant -/
theorem expandNode_inv (c : Ctx n) (d : Diag n) (i : Nat) (h : StrictInv c d) :
    StrictInv c (expandNode c d i).1 :=
  SDm.expandOneLimited_inv c.env c.motifLimit d.core i h

theorem bfsLevel_inv (c : Ctx n) (sz : Option Nat) :
    ∀ (cur : List Nat) (d : Diag n) (seen next : List Nat), StrictInv c d →
      StrictInv c (bfsLevel c sz cur d seen next).1 := by
  intro cur
  induction cur with
  | nil => intro d seen next h; simpa [bfsLevel] using h
  | cons node rest ih =>
    intro d seen next h
    unfold bfsLevel
    split
    · exact h
    · have h' := expandNode_inv c d node h
      cases hx : expandNode c d node with
      | mk d' okk =>
        rw [hx] at h'
        simp only
        split
        · exact h'
        · exact ih _ _ _ h'

theorem bfsLoop_inv (c : Ctx n) (lv sz : Option Nat) :
    ∀ (fuel : Nat) (d : Diag n) (seen cur : List Nat) (level : Nat), StrictInv c d →
      StrictInv c (bfsLoop c lv sz fuel d seen cur level).1 := by
  intro fuel
  induction fuel with
  | zero => intro d seen cur level h; simpa [bfsLoop] using h
  | succ fuel ih =>
    intro d seen cur level h
    unfold bfsLoop
    split
    · exact h
    · have h' := bfsLevel_inv c sz cur d seen [] h
      cases hx : bfsLevel c sz cur d seen [] with
      | mk d' r =>
        obtain ⟨seen', next, early⟩ := r
        rw [hx] at h'
        simp only
        cases early with
        | some o => exact h'
        | none =>
          simp only
          split
          · exact h'
          · exact ih _ _ _ _ h'

/-- **BFS from any node with any limits preserves the strict invariant.** -/
theorem expandBfs_inv (c : Ctx n) (d : Diag n) (start : Nat) (lv sz : Option Nat) (h : StrictInv c d) :
    StrictInv c (expandBfs c d start lv sz).1 :=
  bfsLoop_inv c lv sz _ d _ _ _ h

end Balm.Props.C04

namespace Balm.Props.C04

open Balm Balm.Impl Balm.SDm

variable {n : Nat}

/-- the DFS driver only changes the diagram through single-node expansion -/
theorem dfsLoop_inv (c : Ctx n) (stackLimit sz : Option Nat) :
    ∀ (fuel : Nat) (d : Diag n) (seen : List Nat) (stack : List (Nat × Option (List Nat))) (complete : Bool),
      StrictInv c d → StrictInv c (dfsLoop c stackLimit sz fuel d seen stack complete).1 := by
  intro fuel
  induction fuel with
  | zero => intro d seen stack complete h; simpa [dfsLoop] using h
  | succ fuel ih =>
    intro d seen stack complete h
    cases stack with
    | nil => simpa [dfsLoop] using h
    | cons top rest =>
      obtain ⟨node, succ?⟩ := top
      -- the continuation after the successors are known
      have hstep : ∀ (d' : Diag n) (succ : List Nat), StrictInv c d' →
          StrictInv c (match dropSeen seen succ with
            | [] => dfsLoop c stackLimit sz fuel d' seen rest complete
            | s :: restSucc =>
              if hit stackLimit rest.length then dfsLoop c stackLimit sz fuel d' seen rest false
              else dfsLoop c stackLimit sz fuel d' (s :: seen) ((s, none) :: (node, some restSucc) :: rest) complete).1 := by
        intro d' succ hd'
        split
        · exact ih _ _ _ _ hd'
        · split
          · exact ih _ _ _ _ hd'
          · exact ih _ _ _ _ hd'
      cases succ? with
      | some succ =>
        simp only [dfsLoop]
        exact hstep d succ h
      | none =>
        simp only [dfsLoop]
        split
        · exact h
        · have h' := expandNode_inv c d node h
          cases hx : expandNode c d node with
          | mk d' okk =>
            rw [hx] at h'
            simp only
            split
            · exact h'
            · exact hstep d' _ h'

/-- **DFS from any node with any limits preserves the strict invariant.** -/
theorem expandDfs_inv (c : Ctx n) (d : Diag n) (start : Nat) (st sz : Option Nat) (h : StrictInv c d) :
    StrictInv c (expandDfs c d start st sz).1 :=
  dfsLoop_inv c st sz _ d _ _ _ h

theorem targetLevel_inv (c : Ctx n) (target : Space n) (sz : Option Nat) :
    ∀ (cur : List Nat) (d : Diag n) (seen next : List Nat), StrictInv c d →
      StrictInv c (targetLevel c target sz cur d seen next).1 := by
  intro cur
  induction cur with
  | nil => intro d seen next h; simpa [targetLevel] using h
  | cons node rest ih =>
    intro d seen next h
    unfold targetLevel
    simp only
    split
    · exact ih _ _ _ h
    · split
      · exact ih _ _ _ h
      · split
        · exact h
        · have h' := expandNode_inv c d node h
          cases hx : expandNode c d node with
          | mk d' okk =>
            rw [hx] at h'
            simp only
            split
            · exact h'
            · exact ih _ _ _ h'

theorem targetLoop_inv (c : Ctx n) (target : Space n) (sz : Option Nat) :
    ∀ (fuel : Nat) (d : Diag n) (seen cur : List Nat), StrictInv c d →
      StrictInv c (targetLoop c target sz fuel d seen cur).1 := by
  intro fuel
  induction fuel with
  | zero => intro d seen cur h; simpa [targetLoop] using h
  | succ fuel ih =>
    intro d seen cur h
    unfold targetLoop
    split
    · exact h
    · have h' := targetLevel_inv c target sz cur d seen [] h
      cases hx : targetLevel c target sz cur d seen [] with
      | mk d' r =>
        obtain ⟨seen', next, early⟩ := r
        rw [hx] at h'
        simp only
        cases early with
        | some o => exact h'
        | none => exact ih _ _ _ h'

/-- **Target-directed expansion preserves the strict invariant.** -/
theorem expandToTarget_inv (c : Ctx n) (d : Diag n) (target : Space n) (sz : Option Nat) (h : StrictInv c d) :
    StrictInv c (expandToTarget c d target sz).1 :=
  targetLoop_inv c target sz _ d _ _ h

end Balm.Props.C04

namespace Balm.Props.C04

open Balm Balm.Impl Balm.SDm

variable {n : Nat}

/-- without `skip_ignored` the inner loop of the minimal-space driver does not touch the diagram -/
theorem minDrop_noskip (c : Ctx n) (allMins : List (Space n)) (has : Bool) (seen : List Nat) :
    ∀ (succ : List Nat) (d : Diag n), (minDrop c false allMins has seen succ d).2 = d := by
  intro succ
  induction succ with
  | nil => intro d; simp [minDrop]
  | cons x xs ih =>
    intro d
    unfold minDrop
    split
    · exact ih d
    · split
      · simpa using ih d
      · rfl

/-- the minimal-space driver (no skipping) only changes the diagram through single-node expansion -/
theorem minLoop_inv (c : Ctx n) (sz : Option Nat) (allMins : List (Space n)) :
    ∀ (fuel : Nat) (d : Diag n) (seen : List Nat) (mins : List (Space n))
      (stack : List (Nat × Option (List Nat))),
      StrictInv c d → StrictInv c (minLoop c sz false allMins fuel d seen mins stack).1 := by
  intro fuel
  induction fuel with
  | zero => intro d seen mins stack h; simpa [minLoop] using h
  | succ fuel ih =>
    intro d seen mins stack h
    cases stack with
    | nil => simpa [minLoop] using h
    | cons top rest =>
      obtain ⟨node, succ?⟩ := top
      have hstep : ∀ (d' : Diag n) (succ : List Nat), StrictInv c d' →
          StrictInv c (
            match minDrop c false allMins (mins.any fun m => m.leB (d'.space node)) seen succ d' with
            | (succ', d'') =>
              match succ' with
              | [] =>
                minLoop c sz false allMins fuel d'' seen
                  (if (d''.isExp node && (d''.succs node).isEmpty) = true then removeFirst (d''.space node) mins else mins) rest
              | s :: rest' =>
                minLoop c sz false allMins fuel d'' (s :: seen) mins ((s, none) :: (node, some rest') :: rest)).1 := by
        intro d' succ hd'
        have hkeep := minDrop_noskip c allMins (mins.any fun m => m.leB (d'.space node)) seen succ d'
        cases hx : minDrop c false allMins (mins.any fun m => m.leB (d'.space node)) seen succ d' with
        | mk succ' d'' =>
          rw [hx] at hkeep
          simp only at hkeep
          subst hkeep
          simp only
          split
          · exact ih _ _ _ _ hd'
          · exact ih _ _ _ _ hd'
      cases succ? with
      | some succ =>
        simp only [minLoop]
        exact hstep d succ h
      | none =>
        simp only [minLoop]
        split
        · exact h
        · have h' := expandNode_inv c d node h
          cases hx : expandNode c d node with
          | mk d' okk =>
            rw [hx] at h'
            simp only
            split
            · exact h'
            · exact hstep d' _ h'

/-- **Minimal-space expansion without skipping preserves the strict invariant**, for every answer of
    the `min` solver it is given. -/
theorem expandMinimal_inv (c : Ctx n) (d : Diag n) (start : Nat) (sz : Option Nat) (allMins : List (Space n))
    (h : StrictInv c d) : StrictInv c (expandMinimalWith c d start sz false allMins).1 :=
  minLoop_inv c sz allMins _ d _ _ _ h

theorem blockLevel_inv (c : Ctx n) (sz : Option Nat) (before : List Nat) :
    ∀ (cur : List Nat) (d : Diag n) (next : List Nat), StrictInv c d →
      StrictInv c (blockLevel c sz before cur d next).1 := by
  intro cur
  induction cur with
  | nil => intro d next h; simpa [blockLevel] using h
  | cons node rest ih =>
    intro d next h
    unfold blockLevel
    split
    · split
      · exact ih _ _ h
      · exact ih _ _ h
    · split
      · exact h
      · have h' := expandNode_inv c d node h
        cases hx : expandNode c d node with
        | mk d' okk =>
          rw [hx] at h'
          simp only
          split
          · exact h'
          · split
            · exact ih _ _ h'
            · exact ih _ _ h'
            · exact ih _ _ h'

theorem blockLoop_inv (c : Ctx n) (sz : Option Nat) :
    ∀ (fuel : Nat) (d : Diag n) (cur before : List Nat), StrictInv c d →
      StrictInv c (blockLoop c sz fuel d cur before).1 := by
  intro fuel
  induction fuel with
  | zero => intro d cur before h; simpa [blockLoop] using h
  | succ fuel ih =>
    intro d cur before h
    unfold blockLoop
    split
    · exact h
    · have h' := blockLevel_inv c sz before (sortNat cur) d [] h
      cases hx : blockLevel c sz before (sortNat cur) d [] with
      | mk d' r =>
        obtain ⟨next, early⟩ := r
        rw [hx] at h'
        simp only
        cases early with
        | some o => exact h'
        | none => exact ih _ _ _ h'

/-- block expansion (no source shortcuts, no motif-avoidant check) preserves the strict invariant -/
theorem expandBlock_inv (c : Ctx n) (d : Diag n) (sz : Option Nat) (h : StrictInv c d) :
    StrictInv c (expandBlock c d sz).1 :=
  blockLoop_inv c sz _ d _ _ h

theorem seedLoop_inv (c : Ctx n) (sz : Option Nat) :
    ∀ (fuel : Nat) (d : Diag n) (seen : List Nat) (stack : List (Nat × Option (List Nat))) (found : List Bool),
      StrictInv c d → StrictInv c (seedLoop c sz fuel d seen stack found).1 := by
  intro fuel
  induction fuel with
  | zero => intro d seen stack found h; simpa [seedLoop] using h
  | succ fuel ih =>
    intro d seen stack found h
    cases stack with
    | nil => simpa [seedLoop] using h
    | cons top stack =>
      obtain ⟨node, succ?⟩ := top
      have hstep : ∀ (d : Diag n) (succ : List Nat), StrictInv c d →
          StrictInv c (match seedScan d seen succ found with
            | ([], found') => seedLoop c sz fuel d seen stack found'
            | (s :: rest, found') => seedLoop c sz fuel d (s :: seen) ((s, none) :: (node, some rest) :: stack) found').1 := by
        intro d succ hd
        cases hx : seedScan d seen succ found with
        | mk succ' found' =>
          cases succ' with
          | nil => exact ih _ _ _ _ hd
          | cons s rest => exact ih _ _ _ _ hd
      cases succ? with
      | some succ =>
        simp only [seedLoop]
        have := hstep d succ h
        cases hx : seedScan d seen succ found with
        | mk succ' found' =>
          rw [hx] at this
          cases succ' with
          | nil => simpa using this
          | cons s rest => simpa using this
      | none =>
        simp only [seedLoop]
        split
        · exact h
        · have h' := expandNode_inv c d node h
          cases hx : expandNode c d node with
          | mk d' okk =>
            rw [hx] at h'
            simp only
            split
            · exact h'
            · have := hstep d' (sortNat (d'.succs node)) h'
              cases hy : seedScan d' seen (sortNat (d'.succs node)) found with
              | mk succ' found' =>
                rw [hy] at this
                cases succ' with
                | nil => simpa using this
                | cons s rest => simpa using this

/-- attractor-seed expansion preserves the strict invariant, whatever the solvers answer -/
theorem expandASeeds_inv (c : Ctx n) (d : Diag n) (sz : Option Nat) (allMins : List (Space n)) (found : List Bool)
    (h : StrictInv c d) : StrictInv c (expandASeeds c d sz allMins found).1 := by
  unfold expandASeeds
  have h1 := expandMinimal_inv c d 0 sz allMins h
  cases hx : expandMinimalWith c d 0 sz false allMins with
  | mk d1 o1 =>
    rw [hx] at h1
    simp only
    cases o1 with
    | err => exact h1
    | ok b => exact seedLoop_inv c sz _ d1 _ _ _ h1

/-- the plain operations of the model -/
inductive PlainOp (n : Nat) where
  | one (i : Nat)
  | bfs (start : Nat) (lv sz : Option Nat)
  | dfs (start : Nat) (st sz : Option Nat)
  | target (t : Space n) (sz : Option Nat)
  | minimal (start : Nat) (sz : Option Nat) (solverAnswer : List (Space n))
  | block (sz : Option Nat)
  | aseeds (sz : Option Nat) (minAnswer : List (Space n)) (solverVerdicts : List Bool)

def runOp (c : Ctx n) (d : Diag n) : PlainOp n → Diag n
  | .one i => (expandNode c d i).1
  | .bfs s lv sz => (expandBfs c d s lv sz).1
  | .dfs s st sz => (expandDfs c d s st sz).1
  | .target t sz => (expandToTarget c d t sz).1
  | .minimal s sz ans => (expandMinimalWith c d s sz false ans).1
  | .block sz => (expandBlock c d sz).1
  | .aseeds sz ms found => (expandASeeds c d sz ms found).1

/-- **C04 for the executable model.** For every network, every stable-motif limit and every history
    of plain operations – single-node expansion, BFS, DFS, target-directed, minimal-space, attractor-seed
    and block expansion (without source shortcuts) with arbitrary start nodes, limits, targets and solver answers – the strict invariant
    holds in the resulting diagram (hence at every moment of the history). -/
theorem plain_history_inv (N : Net n) (L : Nat) (ops : List (PlainOp n)) :
    StrictInv (Ctx.mk' N L) (ops.foldl (runOp (Ctx.mk' N L)) (initDiag (Ctx.mk' N L))) := by
  have : ∀ (ops : List (PlainOp n)) (d : Diag n), StrictInv (Ctx.mk' N L) d →
      StrictInv (Ctx.mk' N L) (ops.foldl (runOp (Ctx.mk' N L)) d) := by
    intro ops
    induction ops with
    | nil => intro d h; exact h
    | cons op ops ih =>
      intro d h
      apply ih
      cases op with
      | one i => exact expandNode_inv _ d i h
      | bfs s lv sz => exact expandBfs_inv _ d s lv sz h
      | dfs s st sz => exact expandDfs_inv _ d s st sz h
      | target t sz => exact expandToTarget_inv _ d t sz h
      | minimal s sz ans => exact expandMinimal_inv _ d s sz ans h
      | block sz => exact expandBlock_inv _ d sz h
      | aseeds sz ms found => exact expandASeeds_inv _ d sz ms found h
  exact this ops _ (init_inv N L)

end Balm.Props.C04
