import BalmProofs.WeakSpec
/-!
# The verified judges are exact: they raise no alarm on a diagram that satisfies the specification

`judgeWeak_sound` / `judgeLeaves_sound` say that an `OK` proves the specification; the converses below say that a dump
which satisfies the specification always gets an `OK`.  Together: the judge's verdict *is* the specification
(`judgeWeak_iff`, `judgeLeaves_iff`) - a failure reported by these judges is a failure of the stated clauses, never an
artefact of the checker.
-/
namespace Balm.Impl

open Balm

variable {n : Nat}

/-- the two clauses `judgeWeak` checks beyond `WeakSpec`'s use in `weak_complete_leaves`: no self-loop -/
def NoSelfLoop (d : Dump n) : Prop := ∀ i, i < d.nodes.length → ∀ e ∈ d.outs i, e.2.1 ≠ i

theorem judgeWeak_complete (c : Ctx n) (d : Dump n) (hw : WeakSpec c d) (hs : NoSelfLoop d) : judgeWeak c d = none := by
  unfold judgeWeak
  simp only
  rw [firstSome_none]
  intro x hx
  rcases List.mem_append.1 hx with hx | hx
  · simp only [List.mem_cons, List.not_mem_nil, or_false] at hx
    rcases hx with rfl | rfl
    · unfold chkRoot
      rw [check_none]
      simp only [Bool.and_eq_true, decide_eq_true_eq, beq_iff_eq]
      exact hw.root
    · unfold chkDistinct
      rw [check_none]
      simpa using hw.distinct
  · obtain ⟨i, hi, rfl⟩ := List.mem_map.1 hx
    have hilt : i < d.nodes.length := List.mem_range.1 hi
    rw [firstSome_none]
    intro y hy
    simp only [List.mem_cons, List.not_mem_nil, or_false] at hy
    rcases hy with rfl | rfl | rfl | rfl | rfl
    · unfold chkTrap
      rw [check_none]
      exact (isTrapB_iff _ _).2 (hw.node i hilt).1
    · unfold chkPerc
      rw [check_none]
      simpa using (hw.node i hilt).2
    · unfold chkTargets
      rw [check_none, List.all_eq_true]
      intro e he
      simp only [Bool.and_eq_true, decide_eq_true_eq, bne_iff_ne, ne_eq]
      exact ⟨hw.targets i hilt e he, hs i hilt e he⟩
    · unfold chkKindWeak
      cases hexp : (d.node i).expanded with
      | false =>
        simp only [hexp, Bool.not_false, if_true]
        rw [check_none]
        simpa using hw.stub i hilt hexp
      | true =>
        simp only [hexp, Bool.not_true, Bool.false_eq_true, if_false]
        rw [firstSome_none]
        intro z hz
        simp only [List.mem_cons, List.not_mem_nil, or_false] at hz
        rcases hz with rfl | rfl
        · rw [check_none, List.all_eq_true]
          intro e he
          obtain ⟨h1, h2⟩ := hw.inside i hilt hexp e he
          simp only [Bool.and_eq_true, bne_iff_ne, ne_eq, Space.leB_iff]
          exact ⟨h1, h2⟩
        · rw [check_none, List.all_eq_true]
          intro m hm
          obtain ⟨hm1, hm2⟩ := List.mem_filter.1 hm
          have := hw.cover i hilt hexp m hm1 ((Space.leB_iff _ _).1 hm2)
          simp only [Bool.or_eq_true, beq_iff_eq, List.any_eq_true, Space.leB_iff]
          exact this
    · unfold chkDepth
      simp only [if_true]
      rw [check_none]
      simpa using hw.depth i hilt

theorem judgeWeak_noSelfLoop (c : Ctx n) (d : Dump n) (h : judgeWeak c d = none) : NoSelfLoop d := by
  unfold judgeWeak at h
  simp only at h
  rw [firstSome_none] at h
  intro i hi e he
  have := h _ (List.mem_append_right _ (List.mem_map.2 ⟨i, List.mem_range.2 hi, rfl⟩))
  rw [firstSome_none] at this
  have h4 := this (chkTargets d i) (by simp)
  unfold chkTargets at h4
  rw [check_none, List.all_eq_true] at h4
  have := h4 e he
  simp only [Bool.and_eq_true, decide_eq_true_eq, bne_iff_ne, ne_eq] at this
  exact this.2

/-- **the weak-invariant judge is exact** -/
theorem judgeWeak_iff (c : Ctx n) (d : Dump n) : judgeWeak c d = none ↔ WeakSpec c d ∧ NoSelfLoop d :=
  ⟨fun h => ⟨judgeWeak_sound c d h, judgeWeak_noSelfLoop c d h⟩, fun h => judgeWeak_complete c d h.1 h.2⟩

/-- **the leaves judge is exact** -/
theorem judgeLeaves_iff (c : Ctx n) (d : Dump n) :
    judgeLeaves c d = none ↔
      (d.leaves.eraseDups.length = d.leaves.length) ∧ ∀ m, m ∈ d.leaves ↔ m ∈ minTrapsIn c.N c.root := by
  constructor
  · exact judgeLeaves_sound c d
  · rintro ⟨h1, h2⟩
    unfold judgeLeaves
    simp only
    rw [firstSome_none]
    intro x hx
    simp only [List.mem_cons, List.not_mem_nil, or_false] at hx
    rcases hx with rfl | rfl | rfl
    · rw [check_none]; simpa using h1
    · rw [check_none, List.all_eq_true]
      intro m hm
      simpa using (h2 m).1 hm
    · rw [check_none, List.all_eq_true]
      intro m hm
      simpa using (h2 m).2 hm

end Balm.Impl

namespace Balm.Impl

open Balm

variable {n : Nat}

/-- the clauses `judgeStrict` checks in addition to `StrictSpec`: edges lead to existing other nodes and carry a
    motif; a skip node's successors are strictly inside it and contain every minimal trap space inside it -/
structure StrictExtra (c : Ctx n) (d : Dump n) : Prop where
  targets : ∀ i, i < d.nodes.length → ∀ e ∈ d.outs i, e.2.1 < d.nodes.length ∧ e.2.1 ≠ i
  motifs : ∀ i, i < d.nodes.length → ∀ e ∈ d.outs i, e.2.2 ≠ []
  skipInside : ∀ i, i < d.nodes.length → (d.node i).expanded = true → (d.node i).skipped = true → ∀ e ∈ d.outs i,
    (d.space e.2.1).le (d.node i).space ∧ d.space e.2.1 ≠ (d.node i).space
  skipCover : ∀ i, i < d.nodes.length → (d.node i).expanded = true → (d.node i).skipped = true →
    ∀ m ∈ minTrapsIn c.N c.root, m.le (d.node i).space → m = (d.node i).space ∨ ∃ e ∈ d.outs i, m.le (d.space e.2.1)

theorem judgeStrict_extra (c : Ctx n) (d : Dump n) (h : judgeStrict c d true = none) : StrictExtra c d := by
  unfold judgeStrict at h
  simp only at h
  rw [firstSome_none] at h
  have hnode : ∀ i, i < d.nodes.length → ∀ x ∈ nodeChecks c (minTrapsIn c.N c.root) d true i, x = none := by
    intro i hi
    have := h _ (List.mem_append_right _ (List.mem_map.2 ⟨i, List.mem_range.2 hi, rfl⟩))
    exact (firstSome_none _).1 this
  refine ⟨?_, ?_, ?_, ?_⟩
  · intro i hi e he
    have h4 := hnode i hi (chkTargets d i) (by simp [nodeChecks])
    unfold chkTargets at h4
    rw [check_none, List.all_eq_true] at h4
    have := h4 e he
    simpa using this
  · intro i hi e he
    have h4 := hnode i hi (chkMotifs d i) (by simp [nodeChecks])
    unfold chkMotifs at h4
    rw [check_none, List.all_eq_true] at h4
    have := h4 e he
    simpa using this
  · intro i hi hexp hskip e he
    have h5 := hnode i hi (chkKind c (minTrapsIn c.N c.root) d i) (by simp [nodeChecks])
    unfold chkKind at h5
    simp only [hexp, hskip, Bool.not_true, Bool.false_eq_true, if_false, if_true] at h5
    rw [firstSome_none] at h5
    have h6 := h5 _ List.mem_cons_self
    rw [check_none, List.all_eq_true] at h6
    have := h6 e he
    simp only [Bool.and_eq_true, bne_iff_ne, ne_eq, Space.leB_iff] at this
    exact this
  · intro i hi hexp hskip m hm hle
    have h5 := hnode i hi (chkKind c (minTrapsIn c.N c.root) d i) (by simp [nodeChecks])
    unfold chkKind at h5
    simp only [hexp, hskip, Bool.not_true, Bool.false_eq_true, if_false, if_true] at h5
    rw [firstSome_none] at h5
    have h6 := h5 _ (List.mem_cons_of_mem _ List.mem_cons_self)
    rw [check_none, List.all_eq_true] at h6
    have := h6 m (List.mem_filter.2 ⟨hm, (Space.leB_iff _ _).2 hle⟩)
    simp only [Bool.or_eq_true, beq_iff_eq, List.any_eq_true, Space.leB_iff] at this
    exact this

theorem judgeStrict_complete (c : Ctx n) (d : Dump n) (hs : StrictSpec c d) (hx : StrictExtra c d) :
    judgeStrict c d true = none := by
  unfold judgeStrict
  simp only
  rw [firstSome_none]
  intro x hxm
  rcases List.mem_append.1 hxm with hxm | hxm
  · simp only [List.mem_cons, List.not_mem_nil, or_false] at hxm
    rcases hxm with rfl | rfl
    · unfold chkRoot
      rw [check_none]
      simp only [Bool.and_eq_true, decide_eq_true_eq, beq_iff_eq]
      exact hs.root
    · unfold chkDistinct
      rw [check_none]
      simpa using hs.distinct
  · obtain ⟨i, hi, rfl⟩ := List.mem_map.1 hxm
    have hilt : i < d.nodes.length := List.mem_range.1 hi
    rw [firstSome_none]
    intro y hy
    simp only [nodeChecks, List.mem_cons, List.not_mem_nil, or_false] at hy
    rcases hy with rfl | rfl | rfl | rfl | rfl | rfl
    · unfold chkTrap
      rw [check_none]
      exact (isTrapB_iff _ _).2 (hs.node i hilt).1
    · unfold chkPerc
      rw [check_none]
      simpa using (hs.node i hilt).2
    · unfold chkTargets
      rw [check_none, List.all_eq_true]
      intro e he
      simpa using hx.targets i hilt e he
    · unfold chkMotifs
      rw [check_none, List.all_eq_true]
      intro e he
      simpa using hx.motifs i hilt e he
    · unfold chkKind
      cases hexp : (d.node i).expanded with
      | false =>
        simp only [hexp, Bool.not_false, if_true]
        rw [check_none]
        simpa using hs.stub i hilt hexp
      | true =>
        cases hskip : (d.node i).skipped with
        | true =>
          simp only [hexp, hskip, Bool.not_true, Bool.false_eq_true, if_false, if_true]
          rw [firstSome_none]
          intro z hz
          simp only [List.mem_cons, List.not_mem_nil, or_false] at hz
          rcases hz with rfl | rfl
          · rw [check_none, List.all_eq_true]
            intro e he
            obtain ⟨h1, h2⟩ := hx.skipInside i hilt hexp hskip e he
            simp only [Bool.and_eq_true, bne_iff_ne, ne_eq, Space.leB_iff]
            exact ⟨h1, h2⟩
          · rw [check_none, List.all_eq_true]
            intro m hm
            obtain ⟨hm1, hm2⟩ := List.mem_filter.1 hm
            have := hx.skipCover i hilt hexp hskip m hm1 ((Space.leB_iff _ _).1 hm2)
            simp only [Bool.or_eq_true, beq_iff_eq, List.any_eq_true, Space.leB_iff]
            exact this
        | false =>
          simp only [hexp, hskip, Bool.not_true, Bool.false_eq_true, if_false]
          rw [check_none]
          exact List.isPerm_iff.2 (hs.full i hilt hexp hskip)
    · unfold chkDepth
      simp only [if_true]
      rw [check_none]
      simpa using hs.depth i hilt

/-- **the strict-invariant judge is exact**: its `OK` is equivalent to the specification -/
theorem judgeStrict_iff (c : Ctx n) (d : Dump n) :
    judgeStrict c d true = none ↔ StrictSpec c d ∧ StrictExtra c d :=
  ⟨fun h => ⟨judgeStrict_sound c d h, judgeStrict_extra c d h⟩, fun h => judgeStrict_complete c d h.1 h.2⟩

end Balm.Impl
