import Mathlib.Data.List.Perm.Subperm
import Mathlib.Data.List.Nodup
import Mathlib.Data.List.Range

namespace Balm.Bfs

/-- pigeonhole: a duplicate-free list of ids below `B` has at most `B` elements -/
theorem length_le_of_nodup_lt {l : List Nat} {B : Nat} (hn : l.Nodup) (hb : ∀ x ∈ l, x < B) :
    l.length ≤ B := by
  have hsub : l ⊆ List.range B := fun x hx => List.mem_range.2 (hb x hx)
  have := (List.subperm_of_subset hn hsub).length_le
  simpa using this

variable {S : Type}

/-- `for s in successors: if s not in seen: seen.add(s); next_level.append(s)` -/
def inner : List Nat → List Nat × List Nat → List Nat × List Nat
  | [], acc => acc
  | y :: ss, (seen, next) =>
    if y ∈ seen then inner ss (seen, next) else inner ss (y :: seen, next ++ [y])

/-- visiting one node: expand it (may create nodes) and append its unseen successors -/
def visit (expand : S → Nat → S × List Nat) (st : S × (List Nat × List Nat)) (x : Nat) :
    S × (List Nat × List Nat) :=
  ((expand st.1 x).1, inner (expand st.1 x).2 st.2)

/-- one BFS level (`for node in current_level`) -/
def level (expand : S → Nat → S × List Nat) (s : S) (seen cur : List Nat) : S × (List Nat × List Nat) :=
  cur.foldl (visit expand) (s, (seen, []))

/-- the outer `while len(current_level) > 0` loop, with fuel -/
def loop (expand : S → Nat → S × List Nat) : Nat → S → List Nat → List Nat → Option (S × List Nat)
  | _, s, seen, [] => some (s, seen)
  | 0, _, _, _ :: _ => none
  | f+1, s, seen, x :: cur =>
    loop expand f (level expand s seen (x :: cur)).1 (level expand s seen (x :: cur)).2.1
      (level expand s seen (x :: cur)).2.2

/-- bookkeeping invariant of `(seen, next)` relative to the `seen` list at the start of the level -/
structure Ok (B base : Nat) (acc : List Nat × List Nat) : Prop where
  nodup : acc.1.Nodup
  lt : ∀ y ∈ acc.1, y < B
  len : acc.1.length = base + acc.2.length

theorem inner_ok (B base : Nat) : ∀ (ss : List Nat) (acc : List Nat × List Nat),
    (∀ y ∈ ss, y < B) → Ok B base acc → Ok B base (inner ss acc)
  | [], acc, _, h => by simpa [inner] using h
  | y :: ss, (seen, next), hss, h => by
    have hss' : ∀ z ∈ ss, z < B := fun z hz => hss z (List.mem_cons_of_mem _ hz)
    by_cases hy : y ∈ seen
    · simp only [inner, hy, if_true]; exact inner_ok B base ss _ hss' h
    · simp only [inner, hy, if_false]
      apply inner_ok B base ss _ hss'
      refine ⟨List.nodup_cons.2 ⟨hy, h.nodup⟩, ?_, ?_⟩
      · intro z hz
        rcases List.mem_cons.1 hz with rfl | hz
        · exact hss z List.mem_cons_self
        · exact h.lt z hz
      · have := h.len
        simp only [List.length_cons, List.length_append, List.length_nil] at this ⊢
        omega

theorem fold_ok (expand : S → Nat → S × List Nat) (B base : Nat)
    (hexp : ∀ s x, ∀ y ∈ (expand s x).2, y < B) :
    ∀ (cur : List Nat) (st : S × (List Nat × List Nat)), Ok B base st.2 →
      Ok B base (cur.foldl (visit expand) st).2
  | [], st, h => by simpa using h
  | x :: cur, st, h => by
    simp only [List.foldl_cons]
    apply fold_ok expand B base hexp cur
    exact inner_ok B base _ _ (hexp st.1 x) h

/-- **C13 core for the BFS driver.** With ids bounded by `B` (the number of percolated trap spaces
    is at most 3^n), `B - |seen| + 1` rounds of fuel always suffice: the loop terminates. -/
theorem loop_terminates (expand : S → Nat → S × List Nat) (B : Nat)
    (hexp : ∀ s x, ∀ y ∈ (expand s x).2, y < B) :
    ∀ (fuel : Nat) (s : S) (seen cur : List Nat), seen.Nodup → (∀ y ∈ seen, y < B) →
      B + 1 ≤ fuel + seen.length → (loop expand fuel s seen cur).isSome := by
  intro fuel
  induction fuel with
  | zero =>
    intro s seen cur hn hb hf
    cases cur with
    | nil => simp [loop]
    | cons x cur =>
      have := length_le_of_nodup_lt hn hb
      omega
  | succ f ih =>
    intro s seen cur hn hb hf
    cases cur with
    | nil => simp [loop]
    | cons x cur =>
      simp only [loop]
      have hg : Ok B seen.length (level expand s seen (x :: cur)).2 :=
        fold_ok expand B seen.length hexp (x :: cur) (s, (seen, [])) ⟨hn, hb, by simp⟩
      cases hnext : (level expand s seen (x :: cur)).2.2 with
      | nil => simp [loop]
      | cons y next =>
        apply ih _ _ _ hg.nodup hg.lt
        have := hg.len
        rw [hnext] at this
        simp only [List.length_cons] at this
        omega

end Balm.Bfs
