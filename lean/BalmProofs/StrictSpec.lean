import Balm.Impl.Strict
import Balm.PEnvC
import Mathlib.Data.List.Nodup
import Mathlib.Data.Fintype.Card
import Mathlib.Data.Fintype.Fin
/-!
# Specification and order-independence of `percolate_space_strict` (C11, C19)

`percStrict N sp order` – the model of the hand-written loop, for an arbitrary iteration order of the
candidate set – computes the *least* extension `r` of the given space that is closed under "a
non-constant update function that is constant `b` on `r`, and whose variable is not given the
opposite value, fixes its variable to `b`"; it reports `v ↦ b` exactly for the variables whose function
is constant `b` on that `r` and which are not given `¬b` (conflicts are dropped, never overwritten,
and given variables whose function agrees are reported – as the code does).  Since the least closed
extension is unique, the result does not depend on the iteration order.
-/
namespace Balm.Impl

open Balm

variable {n : Nat}

theorem constOnB_mono (f : State n → Bool) {p q : Space n} (h : p.Ext q) {b : Bool}
    (hp : constOnB f p = some b) : constOnB f q = some b := by
  rw [constOnB_spec] at hp ⊢
  intro s hs
  exact hp s (Space.Mem.of_ext h hs)

/-- the given space does not fix `v` to the opposite of `b` -/
def Compat (sp : Space n) (v : Fin n) (b : Bool) : Prop := sp[v] = none ∨ sp[v] = some b

/-- closed under strict propagation -/
def ClosedS (N : Net n) (sp r : Space n) : Prop :=
  ∀ v, isConstFn N v = false → ∀ b, constOnB (N.f v) r = some b → Compat sp v b → r[v] = some b

structure SInv (N : Net n) (sp : Space n) (st : StrictSt n) : Prop where
  ext : sp.Ext st.restriction
  least : ∀ q, sp.Ext q → ClosedS N sp q → st.restriction.Ext q
  res : ∀ v b, st.result[v] = some b →
    isConstFn N v = false ∧ st.restriction[v] = some b ∧ constOnB (N.f v) st.restriction = some b ∧ Compat sp v b
  candsK : ∀ v ∈ st.cands, isConstFn N v = false
  candsFree : ∀ v ∈ st.cands, st.restriction[v] = sp[v] ∧ st.result[v] = none
  done : ∀ v, isConstFn N v = false → v ∉ st.cands →
    (∃ b, st.result[v] = some b) ∨ (∃ g b, sp[v] = some g ∧ constOnB (N.f v) st.restriction = some b ∧ g ≠ b)

theorem set_get_ne {α : Type} (r : Vector α n) (v w : Fin n) (x : α) (h : w ≠ v) : (r.set v x)[w] = r[w] := by
  have : v.val ≠ w.val := fun hh => h (Fin.ext hh.symm)
  simp [Vector.getElem_set_ne, this]

theorem set_get_self {α : Type} (r : Vector α n) (v : Fin n) (x : α) : (r.set v x)[v] = x := by simp

theorem ext_set {r : Space n} {v : Fin n} {b : Bool} (h : r[v] = none ∨ r[v] = some b) : r.Ext (r.set v (some b)) := by
  intro i c hi
  by_cases hiv : i = v
  · subst hiv
    rcases h with h | h
    · rw [h] at hi; cases hi
    · rw [h] at hi; cases hi; exact set_get_self _ _ _
  · rw [set_get_ne _ _ _ _ hiv]; exact hi

/-- writing `v ↦ b` (a candidate whose function is constant `b` and which is not given `¬b`) -/
theorem write_inv (N : Net n) (sp : Space n) (st : StrictSt n) (v : Fin n) (b : Bool) (c : Bool)
    (h : SInv N sp st) (hv : v ∈ st.cands) (hc : constOnB (N.f v) st.restriction = some b)
    (hcompat : st.restriction[v] = none ∨ st.restriction[v] = some b) :
    SInv N sp { restriction := st.restriction.set v (some b), result := st.result.set v (some b),
                cands := st.cands.filter (· != v), changed := c } := by
  have hfree := h.candsFree v hv
  have hK := h.candsK v hv
  have hcsp : Compat sp v b := by unfold Compat; rw [← hfree.1]; exact hcompat
  have hext' : st.restriction.Ext (st.restriction.set v (some b)) := ext_set hcompat
  refine ⟨Space.Ext.trans h.ext hext', ?_, ?_, ?_, ?_, ?_⟩
  · intro q hq hcl
    have hrq := h.least q hq hcl
    intro i d hi
    by_cases hiv : i = v
    · subst hiv
      rw [set_get_self] at hi
      cases hi
      exact hcl i hK b (constOnB_mono _ hrq hc) hcsp
    · rw [set_get_ne _ _ _ _ hiv] at hi
      exact hrq i d hi
  · intro w d hw
    by_cases hwv : w = v
    · subst hwv
      rw [set_get_self] at hw
      cases hw
      exact ⟨hK, set_get_self _ _ _, constOnB_mono _ hext' hc, hcsp⟩
    · rw [set_get_ne _ _ _ _ hwv] at hw
      obtain ⟨h1, h2, h3, h4⟩ := h.res w d hw
      exact ⟨h1, by rw [set_get_ne _ _ _ _ hwv]; exact h2, constOnB_mono _ hext' h3, h4⟩
  · intro w hw
    exact h.candsK w (List.mem_filter.1 hw).1
  · intro w hw
    obtain ⟨hw1, hw2⟩ := List.mem_filter.1 hw
    have hwv : w ≠ v := by simpa using hw2
    have := h.candsFree w hw1
    exact ⟨by rw [set_get_ne _ _ _ _ hwv]; exact this.1, by rw [set_get_ne _ _ _ _ hwv]; exact this.2⟩
  · intro w hwK hwn
    by_cases hwv : w = v
    · subst hwv
      exact Or.inl ⟨b, set_get_self _ _ _⟩
    · have hwn' : w ∉ st.cands := by
        intro hmem
        exact hwn (List.mem_filter.2 ⟨hmem, by simpa using hwv⟩)
      rcases h.done w hwK hwn' with ⟨d, hd⟩ | ⟨g, d, h1, h2, h3⟩
      · exact Or.inl ⟨d, by rw [set_get_ne _ _ _ _ hwv]; exact hd⟩
      · exact Or.inr ⟨g, d, h1, constOnB_mono _ hext' h2, h3⟩

/-- one candidate: the invariant is preserved; the candidate list only loses `v` -/
theorem strictStep_inv (N : Net n) (sp : Space n) (st : StrictSt n) (v : Fin n) (h : SInv N sp st)
    (hv : v ∈ st.cands) : SInv N sp (strictStep N st v) := by
  unfold strictStep
  cases hc : constOnB (N.f v) st.restriction with
  | none => exact h
  | some b =>
    simp only
    cases hr : st.restriction[v] with
    | none => exact write_inv N sp st v b true h hv hc (Or.inl hr)
    | some g =>
      simp only
      by_cases hgb : g = b
      · subst hgb
        simp only [bne_self_eq_false, Bool.false_eq_true, if_false]
        exact write_inv N sp st v g true h hv hc (Or.inr hr)
      · have : (g != b) = true := by simpa using hgb
        simp only [this, if_true]
        refine ⟨h.ext, h.least, h.res, ?_, ?_, ?_⟩
        · intro w hw; exact h.candsK w (List.mem_filter.1 hw).1
        · intro w hw; exact h.candsFree w (List.mem_filter.1 hw).1
        · intro w hwK hwn
          by_cases hwv : w = v
          · subst hwv
            have hfree := h.candsFree w hv
            exact Or.inr ⟨g, b, by rw [← hfree.1]; exact hr, hc, hgb⟩
          · have hwn' : w ∉ st.cands := by
              intro hmem
              exact hwn (List.mem_filter.2 ⟨hmem, by simpa using hwv⟩)
            exact h.done w hwK hwn'

theorem strictStep_cands (N : Net n) (st : StrictSt n) (v : Fin n) :
    (strictStep N st v).cands = st.cands ∨ (strictStep N st v).cands = st.cands.filter (· != v) := by
  unfold strictStep
  cases constOnB (N.f v) st.restriction with
  | none => exact Or.inl rfl
  | some b =>
    simp only
    cases st.restriction[v] with
    | none => exact Or.inr rfl
    | some g =>
      simp only
      split
      · exact Or.inr rfl
      · exact Or.inr rfl

theorem strictStep_mem (N : Net n) (st : StrictSt n) (v w : Fin n) (hw : w ∈ st.cands) (hwv : w ≠ v) :
    w ∈ (strictStep N st v).cands := by
  rcases strictStep_cands N st v with h | h
  · rw [h]; exact hw
  · rw [h]; exact List.mem_filter.2 ⟨hw, by simpa using hwv⟩

/-- if the step did not set `changed`, it did not touch restriction and result -/
theorem strictStep_unchanged (N : Net n) (st : StrictSt n) (v : Fin n) (hch : (strictStep N st v).changed = false) :
    (strictStep N st v).restriction = st.restriction ∧ (strictStep N st v).result = st.result ∧ st.changed = false ∧
      (v ∈ (strictStep N st v).cands → constOnB (N.f v) st.restriction = none) := by
  cases hc : constOnB (N.f v) st.restriction with
  | none =>
    have e : strictStep N st v = st := by unfold strictStep; rw [hc]
    rw [e] at hch ⊢
    exact ⟨rfl, rfl, hch, fun _ => rfl⟩
  | some b =>
    cases hr : st.restriction[v] with
    | none =>
      have e : (strictStep N st v).changed = true := by unfold strictStep; rw [hc]; simp only; rw [hr]
      rw [e] at hch; cases hch
    | some g =>
      by_cases hgb : (g != b) = true
      · have e : strictStep N st v = { st with cands := st.cands.filter (· != v) } := by
          unfold strictStep; rw [hc]; simp only; rw [hr]; simp only [hgb, if_true]
        rw [e] at hch ⊢
        refine ⟨rfl, rfl, hch, ?_⟩
        intro hmem
        have := (List.mem_filter.1 hmem).2
        simp at this
      · have e : (strictStep N st v).changed = true := by
          unfold strictStep; rw [hc]; simp only; rw [hr]; simp only [hgb]; rfl
        rw [e] at hch; cases hch

/-- a pass over a duplicate-free list of current candidates -/
theorem fold_inv (N : Net n) (sp : Space n) :
    ∀ (L : List (Fin n)) (st : StrictSt n), L.Nodup → (∀ v ∈ L, v ∈ st.cands) → SInv N sp st →
      SInv N sp (L.foldl (strictStep N) st) := by
  intro L
  induction L with
  | nil => intro st _ _ h; exact h
  | cons v L ih =>
    intro st hnd hsub h
    simp only [List.foldl_cons]
    have hv := hsub v List.mem_cons_self
    have hnd' := (List.nodup_cons.1 hnd)
    apply ih _ hnd'.2 _ (strictStep_inv N sp st v h hv)
    intro w hw
    have hwv : w ≠ v := fun e => hnd'.1 (e ▸ hw)
    exact strictStep_mem N st v w (hsub w (List.mem_cons_of_mem _ hw)) hwv

/-- a pass that sets no `changed` flag leaves restriction/result alone, and every remaining candidate
    was undetermined -/
theorem fold_unchanged (N : Net n) :
    ∀ (L : List (Fin n)) (st : StrictSt n), (L.foldl (strictStep N) st).changed = false →
      (L.foldl (strictStep N) st).restriction = st.restriction ∧ (L.foldl (strictStep N) st).result = st.result ∧
      st.changed = false ∧
      ∀ v ∈ L, v ∈ (L.foldl (strictStep N) st).cands → constOnB (N.f v) st.restriction = none := by
  intro L
  induction L with
  | nil => intro st h; exact ⟨rfl, rfl, h, fun v hv => by cases hv⟩
  | cons v L ih =>
    intro st h
    simp only [List.foldl_cons] at h ⊢
    obtain ⟨h1, h2, h3, h4⟩ := ih (strictStep N st v) h
    obtain ⟨g1, g2, g3, g4⟩ := strictStep_unchanged N st v h3
    refine ⟨h1.trans g1, h2.trans g2, g3, ?_⟩
    intro w hw hmem
    rcases List.mem_cons.1 hw with rfl | hw
    · -- `w` survived the whole pass, in particular its own step
      apply g4
      -- candidates only shrink: membership at the end implies membership after the first step
      have shrink : ∀ (L : List (Fin n)) (st : StrictSt n) (x : Fin n),
          x ∈ (L.foldl (strictStep N) st).cands → x ∈ st.cands := by
        intro L
        induction L with
        | nil => intro st x hx; exact hx
        | cons y L ihL =>
          intro st x hx
          simp only [List.foldl_cons] at hx
          have := ihL _ x hx
          rcases strictStep_cands N st y with e | e
          · rw [e] at this; exact this
          · rw [e] at this; exact (List.mem_filter.1 this).1
      exact shrink L _ w hmem
    · have := h4 w hw hmem
      rw [g1] at this
      exact this

theorem pass_cands_sub (N : Net n) (st : StrictSt n) : ∀ x ∈ (strictPass N st).cands, x ∈ st.cands := by
  unfold strictPass
  have shrink : ∀ (L : List (Fin n)) (st : StrictSt n) (x : Fin n),
      x ∈ (L.foldl (strictStep N) st).cands → x ∈ st.cands := by
    intro L
    induction L with
    | nil => intro st x hx; exact hx
    | cons y L ihL =>
      intro st x hx
      simp only [List.foldl_cons] at hx
      have := ihL _ x hx
      rcases strictStep_cands N st y with e | e
      · rw [e] at this; exact this
      · rw [e] at this; exact (List.mem_filter.1 this).1
  intro x hx
  exact shrink st.cands { st with changed := false } x hx

/-- the specification of the final state: closed, least, and the result is read off it -/
structure Final (N : Net n) (sp : Space n) (st : StrictSt n) : Prop where
  ext : sp.Ext st.restriction
  closed : ClosedS N sp st.restriction
  least : ∀ q, sp.Ext q → ClosedS N sp q → st.restriction.Ext q
  result : ∀ v b, st.result[v] = some b ↔
    (isConstFn N v = false ∧ constOnB (N.f v) st.restriction = some b ∧ Compat sp v b)

theorem final_of_unchanged (N : Net n) (sp : Space n) (st : StrictSt n) (h : SInv N sp st) (hnd : st.cands.Nodup)
    (hch : (strictPass N st).changed = false) : Final N sp (strictPass N st) := by
  have hI : SInv N sp (strictPass N st) := by
    unfold strictPass
    exact fold_inv N sp st.cands { st with changed := false } hnd (fun v hv => hv)
      ⟨h.ext, h.least, h.res, h.candsK, h.candsFree, h.done⟩
  unfold strictPass at hch
  obtain ⟨h1, h2, _, h4⟩ := fold_unchanged N st.cands { st with changed := false } hch
  have hund : ∀ v ∈ (strictPass N st).cands, constOnB (N.f v) (strictPass N st).restriction = none := by
    intro v hv
    have hv0 := pass_cands_sub N st v hv
    have := h4 v hv0 hv
    unfold strictPass
    rw [h1]
    exact this
  have hclosed : ClosedS N sp (strictPass N st).restriction := by
    intro v hK b hc hcompat
    by_cases hv : v ∈ (strictPass N st).cands
    · rw [hund v hv] at hc; cases hc
    · rcases hI.done v hK hv with ⟨d, hd⟩ | ⟨g, d, g1, g2, g3⟩
      · obtain ⟨_, r2, r3, _⟩ := hI.res v d hd
        rw [hc] at r3; cases r3
        exact r2
      · rw [hc] at g2; cases g2
        rcases hcompat with e | e
        · rw [e] at g1; cases g1
        · rw [e] at g1; cases g1; exact absurd rfl g3
  refine ⟨hI.ext, hclosed, hI.least, ?_⟩
  intro v b
  constructor
  · intro hres
    obtain ⟨r1, _, r3, r4⟩ := hI.res v b hres
    exact ⟨r1, r3, r4⟩
  · rintro ⟨hK, hc, hcompat⟩
    by_cases hv : v ∈ (strictPass N st).cands
    · rw [hund v hv] at hc; cases hc
    · rcases hI.done v hK hv with ⟨d, hd⟩ | ⟨g, d, g1, g2, g3⟩
      · obtain ⟨_, _, r3, _⟩ := hI.res v d hd
        rw [hc] at r3; cases r3
        exact hd
      · rw [hc] at g2; cases g2
        rcases hcompat with e | e
        · rw [e] at g1; cases g1
        · rw [e] at g1; cases g1; exact absurd rfl g3

/-- a pass that changed something removed a candidate -/
theorem pass_shrinks (N : Net n) (st : StrictSt n) (hnd : st.cands.Nodup)
    (hch : (strictPass N st).changed = true) : (strictPass N st).cands.length < st.cands.length := by
  unfold strictPass at hch ⊢
  -- general statement over the fold
  have key : ∀ (L : List (Fin n)) (s : StrictSt n), (∀ v ∈ L, v ∈ s.cands) → L.Nodup →
      (L.foldl (strictStep N) s).cands.length ≤ s.cands.length ∧
      ((L.foldl (strictStep N) s).changed = true → s.changed = false →
        (L.foldl (strictStep N) s).cands.length < s.cands.length) := by
    intro L
    induction L with
    | nil => intro s _ _; exact ⟨Nat.le_refl _, fun h1 h2 => by simp only [List.foldl_nil] at h1; rw [h1] at h2; cases h2⟩
    | cons v L ih =>
      intro s hsub hndL
      simp only [List.foldl_cons]
      have hv := hsub v List.mem_cons_self
      have hnd' := List.nodup_cons.1 hndL
      have hsub' : ∀ w ∈ L, w ∈ (strictStep N s v).cands := by
        intro w hw
        exact strictStep_mem N s v w (hsub w (List.mem_cons_of_mem _ hw)) (fun e => hnd'.1 (e ▸ hw))
      obtain ⟨i1, i2⟩ := ih (strictStep N s v) hsub' hnd'.2
      have hle : (strictStep N s v).cands.length ≤ s.cands.length := by
        rcases strictStep_cands N s v with e | e
        · rw [e]
        · rw [e]; exact List.length_filter_le _ _
      refine ⟨Nat.le_trans i1 hle, ?_⟩
      intro hfin hs
      by_cases hmid : (strictStep N s v).changed = true
      · -- the step itself wrote: it removed `v`
        have hlt : (strictStep N s v).cands.length < s.cands.length := by
          have hrem : (strictStep N s v).cands = s.cands.filter (· != v) := by
            unfold strictStep at hmid ⊢
            cases hc : constOnB (N.f v) s.restriction with
            | none => simp only [hc] at hmid; rw [hs] at hmid; cases hmid
            | some b =>
              simp only [hc] at hmid ⊢
              cases hr : s.restriction[v] with
              | none => rfl
              | some g =>
                simp only [hr] at hmid ⊢
                split <;> rfl
          rw [hrem]
          apply List.length_filter_lt_length_iff_exists.2
          exact ⟨v, hv, by simp⟩
        exact Nat.lt_of_le_of_lt i1 hlt
      · have hmid' : (strictStep N s v).changed = false := by
          cases hx : (strictStep N s v).changed with
          | true => exact absurd hx hmid
          | false => rfl
        exact Nat.lt_of_lt_of_le (i2 hfin hmid') hle
  exact (key st.cands { st with changed := false } (fun v hv => hv) hnd).2 hch rfl

theorem pass_nodup (N : Net n) (st : StrictSt n) (hnd : st.cands.Nodup) : (strictPass N st).cands.Nodup := by
  unfold strictPass
  have : ∀ (L : List (Fin n)) (s : StrictSt n), s.cands.Nodup → (L.foldl (strictStep N) s).cands.Nodup := by
    intro L
    induction L with
    | nil => intro s h; exact h
    | cons v L ih =>
      intro s h
      simp only [List.foldl_cons]
      apply ih
      rcases strictStep_cands N s v with e | e
      · rw [e]; exact h
      · rw [e]; exact h.filter _
  exact this st.cands _ hnd

theorem pass_inv (N : Net n) (sp : Space n) (st : StrictSt n) (h : SInv N sp st) (hnd : st.cands.Nodup) :
    SInv N sp (strictPass N st) := by
  unfold strictPass
  exact fold_inv N sp st.cands { st with changed := false } hnd (fun v hv => hv)
    ⟨h.ext, h.least, h.res, h.candsK, h.candsFree, h.done⟩

theorem loop_final (N : Net n) (sp : Space n) :
    ∀ (fuel : Nat) (st : StrictSt n), SInv N sp st → st.cands.Nodup → st.cands.length < fuel →
      Final N sp (strictLoop N fuel st) := by
  intro fuel
  induction fuel with
  | zero => intro st _ _ hlt; omega
  | succ fuel ih =>
    intro st h hnd hlt
    simp only [strictLoop]
    by_cases hch : (strictPass N st).changed = true
    · simp only [hch, if_true]
      apply ih _ (pass_inv N sp st h hnd) (pass_nodup N st hnd)
      have := pass_shrinks N st hnd hch
      omega
    · have hch' : (strictPass N st).changed = false := by
        cases hx : (strictPass N st).changed with
        | true => exact absurd hx hch
        | false => rfl
      simp only [hch', Bool.false_eq_true, if_false]
      exact final_of_unchanged N sp st h hnd hch'

theorem nodup_fin_length_le (l : List (Fin n)) (h : l.Nodup) : l.length ≤ n := by
  have := h.length_le_card
  simpa using this

/-- **C11 (`percStrict_spec`).** For every iteration order of the candidate set (a duplicate-free
    list of all variables), the loop ends in the least closed extension `r` of the given space, and
    reports exactly the variables with a non-constant update function that is constant on `r` and not
    given the opposite value. -/
theorem percStrict_spec (N : Net n) (sp : Space n) (order : List (Fin n)) (hnd : order.Nodup)
    (hall : ∀ v, v ∈ order) :
    ∃ r : Space n, sp.Ext r ∧ ClosedS N sp r ∧ (∀ q, sp.Ext q → ClosedS N sp q → r.Ext q) ∧
      ∀ v b, (percStrict N sp order)[v] = some b ↔
        (isConstFn N v = false ∧ constOnB (N.f v) r = some b ∧ Compat sp v b) := by
  have h0 : SInv N sp { restriction := sp, result := top, cands := order.filter fun v => !isConstFn N v, changed := true } := by
    refine ⟨Space.Ext.refl sp, fun q hq _ => hq, ?_, ?_, ?_, ?_⟩
    · intro v b hv; simp [top] at hv
    · intro v hv
      have := (List.mem_filter.1 hv).2
      simpa using this
    · intro v _; exact ⟨rfl, by simp [top]⟩
    · intro v hK hv
      exfalso
      apply hv
      exact List.mem_filter.2 ⟨hall v, by simp [hK]⟩
  have hnd0 : (order.filter fun v => !isConstFn N v).Nodup := hnd.filter _
  have hlen : (order.filter fun v => !isConstFn N v).length < n + 1 := by
    have := nodup_fin_length_le _ hnd0
    omega
  have hF := loop_final N sp (n + 1) _ h0 hnd0 hlen
  exact ⟨_, hF.ext, hF.closed, hF.least, hF.result⟩

/-- **C11/C19 (`percStrict_order_independent`).** The result of strict percolation does not depend on
    the order in which the candidate set is iterated. -/
theorem percStrict_order_independent (N : Net n) (sp : Space n) (o1 o2 : List (Fin n))
    (h1 : o1.Nodup) (h2 : o2.Nodup) (a1 : ∀ v, v ∈ o1) (a2 : ∀ v, v ∈ o2) :
    percStrict N sp o1 = percStrict N sp o2 := by
  obtain ⟨r1, e1, c1, l1, s1⟩ := percStrict_spec N sp o1 h1 a1
  obtain ⟨r2, e2, c2, l2, s2⟩ := percStrict_spec N sp o2 h2 a2
  have hr : r1 = r2 := Space.le_antisymm (l2 r1 e1 c1) (l1 r2 e2 c2)
  subst hr
  apply Vector.ext
  intro i hi
  have key : ∀ b, (percStrict N sp o1)[(⟨i, hi⟩ : Fin n)] = some b ↔ (percStrict N sp o2)[(⟨i, hi⟩ : Fin n)] = some b := by
    intro b; rw [s1, s2]
  show (percStrict N sp o1)[(⟨i, hi⟩ : Fin n)] = (percStrict N sp o2)[(⟨i, hi⟩ : Fin n)]
  cases hx : (percStrict N sp o1)[(⟨i, hi⟩ : Fin n)] with
  | some b => exact ((key b).1 hx).symm
  | none =>
    cases hy : (percStrict N sp o2)[(⟨i, hi⟩ : Fin n)] with
    | none => rfl
    | some b => rw [(key b).2 hy] at hx; cases hx

end Balm.Impl
