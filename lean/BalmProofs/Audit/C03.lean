import BalmProofs.Props.C03
#print axioms Balm.concrete_leaf_iff_minimal
#print axioms Balm.Partition.leaf_iff_minimal
#print axioms Balm.Skip.skip_completion
#print axioms Balm.Props.C04.plain_history_inv
#print axioms Balm.Impl.mem_minTrapsIn
#print axioms Balm.Impl.judgeLeaves_sound
