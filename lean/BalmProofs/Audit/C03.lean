import BalmProofs.Props.C03
#print axioms Balm.concrete_leaf_iff_minimal
#print axioms Balm.Partition.leaf_iff_minimal
#print axioms Balm.Skip.skip_completion
#print axioms Balm.Props.C04.plain_history_inv
#print axioms Balm.Impl.mem_minTrapsIn
#print axioms Balm.Impl.judgeLeaves_sound
#print axioms Balm.Skip.attach_weak
#print axioms Balm.Impl.source_valuations_cover
#print axioms Balm.Impl.valuation_trap
#print axioms Balm.Props.C04.expandASeeds_inv
#print axioms Balm.Impl.judgeWeak_sound
#print axioms Balm.Impl.weak_complete_leaves
#print axioms Balm.Impl.exists_min_inside
#print axioms Balm.Impl.judgeWeak_iff
#print axioms Balm.Impl.judgeLeaves_iff
