import BalmProofs.Props.C09
#print axioms Balm.siphon_iff_trapspace
#print axioms Balm.faithful_of_covers
