import BalmProofs.Props.C09
#print axioms Balm.siphon_iff_trapspace
#print axioms Balm.faithful_of_covers
#print axioms Balm.Impl.mem_solveRef_min
#print axioms Balm.Impl.mem_solveRef_fix
#print axioms Balm.Impl.mem_reducedFixedPoints
#print axioms Balm.Impl.trapProgram_models_min
#print axioms Balm.Impl.models_are_trapspaces
#print axioms Balm.Impl.fp_models_iff
