import BalmProofs.Props.C09
#print axioms Balm.siphon_iff_trapspace
#print axioms Balm.faithful_of_covers
#print axioms Balm.Impl.mem_solveRef_min
#print axioms Balm.Impl.mem_solveRef_fix
#print axioms Balm.Impl.mem_reducedFixedPoints
