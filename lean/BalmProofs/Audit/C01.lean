import BalmProofs.Props.C01
#print axioms Balm.Filter.filt_spec
#print axioms Balm.concrete_exists_unique_own
#print axioms Balm.attr_in_percIter
#print axioms Balm.least_spec
#print axioms Balm.least_fixes_inputs
#print axioms Balm.AttrTest.exit_none
#print axioms Balm.AttrTest.exit_some
#print axioms Balm.AttrTest.muts_good
#print axioms Balm.Impl.mem_reachSet
#print axioms Balm.Impl.attractors_sound
#print axioms Balm.Impl.attractors_complete
#print axioms Balm.Impl.mem_ownAttrs
#print axioms Balm.Impl.symbolicSeeds_spec
#print axioms Balm.Impl.nodeSeeds_spec
#print axioms Balm.Impl.reaches_attr
