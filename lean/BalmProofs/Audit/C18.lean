import BalmProofs.Props.C18
#print axioms Balm.input_const_along
#print axioms Balm.single_trap
#print axioms Balm.least_fixes_inputs
