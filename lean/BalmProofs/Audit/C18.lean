import BalmProofs.Props.C18
#print axioms Balm.input_const_along
#print axioms Balm.single_trap
#print axioms Balm.least_fixes_inputs
#print axioms Balm.TSys.reach_prod
#print axioms Balm.TSys.attr_prod_of
#print axioms Balm.TSys.attr_prod_iff
#print axioms Balm.TSys.isAttr_tsOf
#print axioms Balm.attr_prodNet
#print axioms Balm.attr_prodNet_split
