import BalmProofs.Props.C14
#print axioms Balm.Cache.history_fresh
#print axioms Balm.Cache.step_fresh
#print axioms Balm.Cache.unrepaired_skip_is_stale
#print axioms Balm.Impl.mem_ownAttrs
#print axioms Balm.Impl.attractors_sound
#print axioms Balm.Impl.attractors_complete
#print axioms Balm.Skip.attach_weak
#print axioms Balm.Impl.source_valuations_cover
#print axioms Balm.Impl.valuation_trap
