import BalmProofs.Props.C04
#print axioms Balm.Props.C04.init_inv
#print axioms Balm.Props.C04.expandNode_inv
#print axioms Balm.Props.C04.expandBfs_inv
#print axioms Balm.Props.C04.expandDfs_inv
#print axioms Balm.Props.C04.expandToTarget_inv
#print axioms Balm.Props.C04.expandMinimal_inv
#print axioms Balm.Props.C04.plain_history_inv
#print axioms Balm.concrete_plain_history_inv
#print axioms Balm.Impl.judgeStrict_sound
#print axioms Balm.Props.C04.expandBlock_inv
#print axioms Balm.Props.C04.expandASeeds_inv
#print axioms Balm.Impl.judgeStrict_iff
#print axioms Balm.Props.C04.plain_history_grows
#print axioms Balm.Props.C04.runOp_pres
#print axioms Balm.Props.C04.expandNode_grows
