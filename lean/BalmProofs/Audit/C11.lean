import BalmProofs.Props.C11
#print axioms Balm.percStep_ext
#print axioms Balm.percIter_least
#print axioms Balm.percolate_idem
#print axioms Balm.percolate_fixed
#print axioms Balm.percIter_trap
#print axioms Balm.constOnB_spec
#print axioms Balm.perc_mono
#print axioms Balm.attr_in_percIter
#print axioms Balm.Impl.percStrict_spec
#print axioms Balm.Impl.percStrict_order_independent
