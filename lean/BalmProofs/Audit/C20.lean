import BalmProofs.Props.C20
#print axioms Balm.Depth.depth_is_longest
#print axioms Balm.Depth.relax_to_local
#print axioms Balm.KeyBits.key_injective
#print axioms Balm.Impl.judgeStrict_sound
#print axioms Balm.Depth.updateDepth_local
#print axioms Balm.Impl.isSubgraph_eq_spec
#print axioms Balm.Impl.Dump.find_some
#print axioms Balm.Impl.Dump.find_none
#print axioms Balm.Impl.judgeStrict_iff
