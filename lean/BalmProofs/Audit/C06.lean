import BalmProofs.Props.C06
#print axioms Balm.ldoi_sound
#print axioms Balm.trap_override
#print axioms Balm.attr_const
#print axioms Balm.Impl.inAttrB_iff
#print axioms Balm.Impl.mem_reachSet
#print axioms Balm.Impl.judgeForces_sound
#print axioms Balm.Impl.findDrivers_forces
#print axioms Balm.Impl.findDrivers_free
#print axioms Balm.Impl.findDrivers_sound
