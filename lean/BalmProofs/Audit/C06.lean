import BalmProofs.Props.C06
#print axioms Balm.ldoi_sound
#print axioms Balm.trap_override
#print axioms Balm.attr_const
