import BalmProofs.Props.C07
#print axioms Balm.Drivers.findDrivers_spec
#print axioms Balm.Drivers.exists_min_below
#print axioms Balm.Impl.findDrivers_sound
#print axioms Balm.Impl.findDrivers_complete
#print axioms Balm.Impl.findDrivers_minimal
#print axioms Balm.Impl.findDrivers_eq_gen
#print axioms Balm.Impl.Gen.result_complete
#print axioms Balm.Impl.Gen.result_minimal
#print axioms Balm.Impl.findDrivers_free
