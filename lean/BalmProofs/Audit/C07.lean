import BalmProofs.Props.C07
#print axioms Balm.Drivers.findDrivers_spec
#print axioms Balm.Drivers.exists_min_below
#print axioms Balm.Impl.findDrivers_sound
