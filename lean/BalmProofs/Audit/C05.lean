import BalmProofs.Props.C05
#print axioms Balm.Skip.skip_completion
#print axioms Balm.Skip.own_iff_leaf
#print axioms Balm.Impl.mem_reachSet
#print axioms Balm.Impl.attractors_sound
#print axioms Balm.Impl.attractors_complete
#print axioms Balm.Impl.mem_ownAttrs
#print axioms Balm.Impl.exclusion_sound
#print axioms Balm.Impl.ordBelow_own
#print axioms Balm.Impl.symbolicSeeds_spec
#print axioms Balm.Impl.nodeSeeds_spec
#print axioms Balm.Impl.reaches_attr
#print axioms Balm.Impl.judgeWeak_sound
#print axioms Balm.Impl.weak_complete_leaves
#print axioms Balm.Impl.exists_min_inside
#print axioms Balm.Impl.judgeWeak_iff
#print axioms Balm.Impl.ownA_iff_succ
#print axioms Balm.Impl.own_motif_iff_succ
