import BalmProofs.Props.C05
#print axioms Balm.Skip.skip_completion
#print axioms Balm.Skip.own_iff_leaf
