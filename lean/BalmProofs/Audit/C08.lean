import BalmProofs.Props.C08
#print axioms Balm.Cand.regenTop_complete
#print axioms Balm.Cand.complete_solve
#print axioms Balm.Cand.original_tie_unsound
