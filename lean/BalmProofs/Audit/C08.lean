import BalmProofs.Props.C08
#print axioms Balm.Cand.regenTop_complete
#print axioms Balm.Cand.complete_solve
#print axioms Balm.Cand.original_tie_unsound
#print axioms Balm.Impl.mem_reachSet
#print axioms Balm.Impl.attractors_sound
#print axioms Balm.Impl.attractors_complete
#print axioms Balm.Impl.mem_ownAttrs
#print axioms Balm.Impl.candidates_complete
#print axioms Balm.Impl.greedyLoop_valid
#print axioms Balm.Impl.regenLoop_small
#print axioms Balm.Impl.solverOK_take
#print axioms Balm.Impl.checkNfvs_sound
#print axioms Balm.Impl.symbolicSeeds_checked
#print axioms Balm.Impl.nodeSeeds_checked
#print axioms Balm.Impl.symHypB_spec
