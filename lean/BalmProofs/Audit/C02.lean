import BalmProofs.Props.C02
#print axioms Balm.KeyBits.key_injective
#print axioms Balm.keyL_inj
#print axioms Balm.SDm.expandOne_inv
#print axioms Balm.SDm.nodes_iff_reachable
#print axioms Balm.concrete_leaf_iff_minimal
#print axioms Balm.Props.C04.expandBfs_inv
#print axioms Balm.Props.C04.expandDfs_inv
#print axioms Balm.Props.C04.plain_history_inv
#print axioms Balm.Impl.judgeStrict_sound
#print axioms Balm.Impl.mem_minTrapsIn
#print axioms Balm.Impl.judgeStrict_iff
#print axioms Balm.Props.C04.all_ops_perc_closed
#print axioms Balm.Props.C04.init_percClosed
