import BalmProofs.Props.C10
#print axioms Balm.dnf_correct
#print axioms Balm.faithful_of_covers
#print axioms Balm.Impl.faithfulOnB_sound
