import BalmProofs.Props.C13
#print axioms Balm.Bfs.loop_terminates
#print axioms Balm.AttrTerm.loop_terminates
#print axioms Balm.percIter_fixed
#print axioms Balm.Props.C04.plain_history_size
#print axioms Balm.Props.C04.size_le_of_strict
#print axioms Balm.Impl.mem_reachSet
#print axioms Balm.Impl.exists_terminal
