import BalmProofs.Props.C13
#print axioms Balm.Bfs.loop_terminates
#print axioms Balm.AttrTerm.loop_terminates
#print axioms Balm.percIter_fixed
