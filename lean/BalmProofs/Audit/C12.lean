import BalmProofs.Props.C12
#print axioms Balm.AttrTest.exit_some
#print axioms Balm.AttrTest.exit_none
#print axioms Balm.Impl.mem_reachSet
#print axioms Balm.Impl.attractors_sound
#print axioms Balm.Impl.attractors_complete
#print axioms Balm.Impl.symbolicSeeds_spec
#print axioms Balm.Impl.nodeSeeds_spec
#print axioms Balm.Impl.reaches_attr
#print axioms Balm.Impl.symbolicSeeds_checked
#print axioms Balm.Impl.nodeSeeds_checked
#print axioms Balm.Impl.symHypB_spec
#print axioms Balm.Impl.fallback_eq_own
#print axioms Balm.Impl.mem_fallbackRegion
#print axioms Balm.Impl.exit_none_symTest
#print axioms Balm.Impl.exit_some_symTest
#print axioms Balm.Impl.asyncTS_reach
