import BalmProofs.Props.C12
#print axioms Balm.AttrTest.exit_some
#print axioms Balm.AttrTest.exit_none
