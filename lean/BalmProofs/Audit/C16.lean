import BalmProofs.Props.C16
#print axioms Balm.Cache.step_rel
#print axioms Balm.Cache.rel_reclaim
#print axioms Balm.Cache.reclaim_transparent
#print axioms Balm.Cache.relNode_obs
#print axioms Balm.Impl.exclusion_sound
#print axioms Balm.Impl.ordBelow_own
