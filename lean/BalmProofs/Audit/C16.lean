import BalmProofs.Props.C16
#print axioms Balm.Cache.step_rel
#print axioms Balm.Cache.rel_reclaim
#print axioms Balm.Cache.reclaim_transparent
#print axioms Balm.Cache.relNode_obs
#print axioms Balm.Impl.exclusion_sound
#print axioms Balm.Impl.ordBelow_own
#print axioms Balm.Props.C04.all_ops_grow
#print axioms Balm.Props.C04.expandScc_pres
#print axioms Balm.Props.C04.expandBlockX_pres
