import BalmProofs.Props.C19
#print axioms Balm.KeyBits.key_injective
#print axioms Balm.Drivers.findDrivers_spec
#print axioms Balm.Impl.percStrict_order_independent
