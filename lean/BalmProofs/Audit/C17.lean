import BalmProofs.Props.C17
#print axioms Balm.Net.ofExprs_congr
#print axioms Balm.KeyBits.key_injective
#print axioms Balm.BExpr.eval_congr
#print axioms Balm.TSys.Iso.reach
#print axioms Balm.TSys.Iso.attr
#print axioms Balm.TSys.isAttr_tsOf
#print axioms Balm.attr_perm
#print axioms Balm.attr_flip
#print axioms Balm.ofExprs_flipExprs
