import BalmProofs.Props.C15
#print axioms Balm.SDm.expandOneLimited_inv
#print axioms Balm.SDm.plain_history_inv
#print axioms Balm.Props.C04.plain_history_inv
#print axioms Balm.Props.C04.expandBfs_inv
#print axioms Balm.Props.C04.expandDfs_inv
#print axioms Balm.Props.C04.expandToTarget_inv
#print axioms Balm.Props.C04.expandMinimal_inv
#print axioms Balm.Impl.judgeStrict_sound
#print axioms Balm.Props.C04.expandBlock_inv
#print axioms Balm.Props.C04.expandASeeds_inv
#print axioms Balm.Impl.judgeTrueComplete_sound
#print axioms Balm.Impl.judgeFalseHasStub_sound
#print axioms Balm.Impl.judgeWeak_sound
#print axioms Balm.Impl.judgeStrict_iff
#print axioms Balm.Impl.judgeWeak_iff
