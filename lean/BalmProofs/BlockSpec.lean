import Balm.Impl.Block
import BalmProofs.JudgeSpec
/-!
# The source shortcut of block expansion is a legitimate way to give a node successors (C03, C14)

`expand_block(optimize_source_nodes=True)` gives a node whose percolated network has source variables
(identity update functions) the `2^k` valuations of those variables as successors instead of its
stable motifs.  `valuation_trap`: each valuation is a trap space inside the node; `source_valuations_cover`:
every minimal trap space inside the node lies inside one of them (a minimal trap space fixes every
source variable).  These are the hypotheses of `Skip.attach_weak`, so the weak invariant - and with it
`skip_completion` and "the leaves are exactly the minimal trap spaces" - survives the shortcut.
-/
namespace Balm.Impl

open Balm

variable {n : Nat}

theorem mem_sourcesIn (N : Net n) (p : Space n) (i : Fin n) :
    i ∈ sourcesIn N p ↔ p[i] = none ∧ ∀ s, p.Mem s → N.f i s = s[i] := by
  simp only [sourcesIn, List.mem_filter, List.mem_finRange, true_and, Bool.and_eq_true, Option.isNone_iff_eq_none,
    List.all_eq_true, mem_statesOf, beq_iff_eq]

theorem sourcesIn_nodup (N : Net n) (p : Space n) : (sourcesIn N p).Nodup :=
  List.Nodup.filter _ (List.nodup_finRange n)

theorem vset_get_self (p : Space n) (v : Fin n) (x : Option Bool) : (p.set v x)[v] = x := by
  simp only [Fin.getElem_fin]
  rw [Vector.getElem_set_self]

theorem vset_get_ne (p : Space n) (v j : Fin n) (x : Option Bool) (h : j ≠ v) : (p.set v x)[j] = p[j] := by
  simp only [Fin.getElem_fin]
  rw [Vector.getElem_set_ne]
  exact fun e' => h (Fin.ext e'.symm)

theorem space_ext_get (p q : Space n) (h : ∀ j : Fin n, q[j] = p[j]) : q = p := by
  apply Vector.ext
  intro i hi
  exact h ⟨i, hi⟩

/-- the valuations of distinct free variables `vs` on top of `p`: exactly the spaces that agree with
    `p` elsewhere and fix every variable of `vs` -/
theorem mem_valuations : ∀ (vs : List (Fin n)) (p : Space n), vs.Nodup → (∀ v ∈ vs, p[v] = none) →
    ∀ q, q ∈ valuations p vs ↔ (∀ j, j ∉ vs → q[j] = p[j]) ∧ (∀ v ∈ vs, (q[v]).isSome = true)
  | [], p, _, _, q => by
    simp only [valuations, List.mem_singleton, List.not_mem_nil, not_false_eq_true, true_implies,
      false_implies, implies_true, and_true]
    constructor
    · rintro rfl j; rfl
    · intro h; exact space_ext_get p q h
  | v :: vs, p, hnd, hfree, q => by
    have hv : v ∉ vs := (List.nodup_cons.1 hnd).1
    have hnd' : vs.Nodup := (List.nodup_cons.1 hnd).2
    have hfree' : ∀ (b : Bool), ∀ w ∈ vs, (p.set v (some b))[w] = none := by
      intro b w hw
      have hwv : w ≠ v := fun e => hv (e ▸ hw)
      rw [vset_get_ne p v w _ hwv]
      exact hfree w (List.mem_cons_of_mem _ hw)
    simp only [valuations, List.mem_append]
    rw [mem_valuations vs _ hnd' (hfree' false), mem_valuations vs _ hnd' (hfree' true)]
    constructor
    · rintro (⟨h1, h2⟩ | ⟨h1, h2⟩)
      · refine ⟨fun j hj => ?_, fun w hw => ?_⟩
        · have hjv : j ≠ v := fun e => hj (e ▸ List.mem_cons_self)
          have hjvs : j ∉ vs := fun e => hj (List.mem_cons_of_mem _ e)
          rw [h1 j hjvs, vset_get_ne p v j _ hjv]
        · rcases List.mem_cons.1 hw with rfl | hw
          · rw [h1 w hv, vset_get_self]; rfl
          · exact h2 w hw
      · refine ⟨fun j hj => ?_, fun w hw => ?_⟩
        · have hjv : j ≠ v := fun e => hj (e ▸ List.mem_cons_self)
          have hjvs : j ∉ vs := fun e => hj (List.mem_cons_of_mem _ e)
          rw [h1 j hjvs, vset_get_ne p v j _ hjv]
        · rcases List.mem_cons.1 hw with rfl | hw
          · rw [h1 w hv, vset_get_self]; rfl
          · exact h2 w hw
    · rintro ⟨h1, h2⟩
      have hvq := h2 v List.mem_cons_self
      cases hq : q[v] with
      | none => rw [hq] at hvq; cases hvq
      | some b =>
        have key : (∀ j, j ∉ vs → q[j] = (p.set v (some b))[j]) ∧ ∀ w ∈ vs, (q[w]).isSome = true := by
          refine ⟨fun j hj => ?_, fun w hw => h2 w (List.mem_cons_of_mem _ hw)⟩
          by_cases e : j = v
          · subst e; rw [vset_get_self]; exact hq
          · rw [vset_get_ne p v j _ e]
            exact h1 j (fun hm => by
              rcases List.mem_cons.1 hm with hm | hm
              · exact e hm
              · exact hj hm)
        cases b
        · exact Or.inl key
        · exact Or.inr key

/-- **`valuation_trap`.** Every valuation of the source variables of a trap space is a trap space inside it. -/
theorem valuation_trap (N : Net n) (p : Space n) (hp : TrapSpace N p) (q : Space n)
    (hq : q ∈ valuations p (sourcesIn N p)) : TrapSpace N q ∧ q.le p := by
  have hfree : ∀ v ∈ sourcesIn N p, p[v] = none := fun v hv => ((mem_sourcesIn N p v).1 hv).1
  obtain ⟨h1, h2⟩ := (mem_valuations _ p (sourcesIn_nodup N p) hfree q).1 hq
  have hle : q.le p := by
    intro j c hj
    have hjs : j ∉ sourcesIn N p := fun e => by rw [hfree j e] at hj; cases hj
    rw [h1 j hjs]; exact hj
  refine ⟨?_, hle⟩
  intro s hs i
  have hsp : p.Mem s := Space.Mem.of_ext hle hs
  have hstep := hp s hsp i
  intro j c hj
  by_cases hjs : j ∈ sourcesIn N p
  · -- a source variable keeps its value along every step
    have hid := ((mem_sourcesIn N p j).1 hjs).2 s hsp
    rw [step_get]
    by_cases e : j = i
    · subst e; simp only [if_true]; rw [hid]; exact hs j c hj
    · simp only [e, if_false]; exact hs j c hj
  · rw [h1 j hjs] at hj
    exact hstep j c hj

/-- a minimal trap space inside `p` fixes every source variable of `p` -/
theorem min_fixes_sources (N : Net n) (p m : Space n) (hm : TrapSpace N m) (hle : m.le p)
    (hmin : ∀ q, TrapSpace N q → q.le m → q = m) (i : Fin n) (hi : i ∈ sourcesIn N p) : (m[i]).isSome = true := by
  obtain ⟨_, hid⟩ := (mem_sourcesIn N p i).1 hi
  cases hmi : m[i] with
  | some b => rfl
  | none =>
    exfalso
    have hq : TrapSpace N (m.set i (some false)) := by
      intro s hs k
      have hsm : m.Mem s := by
        intro j c hj
        have hji : j ≠ i := fun e => by rw [e, hmi] at hj; cases hj
        exact hs j c (by rw [vset_get_ne m i j _ hji]; exact hj)
      have hstep := hm s hsm k
      intro j c hj
      by_cases e : j = i
      · subst e
        rw [vset_get_self] at hj
        have hc : c = false := by cases hj; rfl
        have hsj : s[j] = false := hs j false (vset_get_self m j _)
        rw [step_get]
        by_cases e2 : j = k
        · subst e2; simp only [if_true]; rw [hid s (Space.Mem.of_ext hle hsm), hsj, hc]
        · simp only [e2, if_false]; rw [hsj, hc]
      · rw [vset_get_ne m i j _ e] at hj
        exact hstep j c hj
    have hqle : Space.le (m.set i (some false)) m := by
      intro j c hj
      have hji : j ≠ i := fun e => by rw [e, hmi] at hj; cases hj
      rw [vset_get_ne m i j _ hji]; exact hj
    have := hmin _ hq hqle
    have h2 : (m.set i (some false))[i] = m[i] := by rw [this]
    rw [vset_get_self, hmi] at h2
    cases h2

/-- **`source_valuations_cover`.** Every minimal trap space inside a node lies inside one of the
    valuations of the node's source variables. -/
theorem source_valuations_cover (N : Net n) (p m : Space n) (hm : TrapSpace N m) (hle : m.le p)
    (hmin : ∀ q, TrapSpace N q → q.le m → q = m) : ∃ q ∈ valuations p (sourcesIn N p), m.le q := by
  have hfree : ∀ v ∈ sourcesIn N p, p[v] = none := fun v hv => ((mem_sourcesIn N p v).1 hv).1
  let q : Space n := Vector.ofFn fun j => if j ∈ sourcesIn N p then m[j] else p[j]
  have hqget : ∀ j : Fin n, q[j] = if j ∈ sourcesIn N p then m[j] else p[j] := by
    intro j; simp [q]
  refine ⟨q, (mem_valuations _ p (sourcesIn_nodup N p) hfree q).2 ⟨?_, ?_⟩, ?_⟩
  · intro j hj; rw [hqget, if_neg hj]
  · intro v hv; rw [hqget, if_pos hv]; exact min_fixes_sources N p m hm hle hmin v hv
  · intro j c hj
    rw [hqget] at hj
    split at hj
    · exact hj
    · exact hle j c hj

end Balm.Impl
