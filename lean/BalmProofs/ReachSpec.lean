import Balm.Impl.Attr
import Mathlib.Data.List.Nodup
import Mathlib.Data.List.Perm.Subperm
import Mathlib.Data.List.Dedup
/-!
# Specification of the executable reachability closure and of `attractors`

`mem_reachSet : t ∈ reachSet N s ↔ Reach N s t` – the work-list closure the judges run is exactly
asynchronous reachability, for every network (fuel `2^n` suffices because the closure never holds a
state twice).  On top of it: `inAttrB_iff` (the executable "lies in an attractor" test) and
`attractors_spec` (every listed set is an attractor in the sense of `IsAttr`; every attractor is
listed).
-/
namespace Balm.Impl

open Balm

variable {n : Nat}

/-! ### counting states -/

theorem flatMap_map_length {α β γ : Type} (l : List β) (alphabet : List α) (f : β → α → γ) :
    (l.flatMap fun v => alphabet.map fun a => f v a).length = l.length * alphabet.length := by
  induction l with
  | nil => simp
  | cons x xs ih =>
    simp only [List.flatMap_cons, List.length_append, List.length_map, ih, List.length_cons]
    rw [Nat.add_mul, Nat.one_mul, Nat.add_comm]

theorem allVec_length {α : Type} (alphabet : List α) : ∀ k, (allVec alphabet k).length = alphabet.length ^ k
  | 0 => by simp [allVec]
  | k+1 => by
    have := flatMap_map_length (allVec alphabet k) alphabet (fun v a => v.push a)
    simp only [allVec]
    rw [this, allVec_length alphabet k, Nat.pow_succ]

theorem allStates_length : (allStates n).length = 2 ^ n := by
  unfold allStates
  rw [allVec_length]
  rfl

theorem nodup_length_le (l : List (State n)) (h : l.Nodup) : l.length ≤ 2 ^ n := by
  rw [← allStates_length (n := n)]
  exact (List.Nodup.subperm h (fun s _ => mem_allStates s)).length_le

/-! ### `addNew` -/

theorem addNew_spec (seen ts : List (State n)) :
    (addNew seen ts).Nodup ∧ (∀ t ∈ addNew seen ts, t ∉ seen ∧ t ∈ ts) ∧
    (∀ t ∈ ts, t ∈ seen ∨ t ∈ addNew seen ts) := by
  unfold addNew
  -- generalise the accumulator
  have key : ∀ (ts : List (State n)) (acc : List (State n)),
      acc.Nodup → (∀ t ∈ acc, t ∉ seen) →
      let r := ts.foldl (fun acc t => if seen.contains t || acc.contains t then acc else acc ++ [t]) acc
      r.Nodup ∧ (∀ t ∈ r, t ∉ seen ∧ (t ∈ acc ∨ t ∈ ts)) ∧ (∀ t ∈ acc, t ∈ r) ∧ (∀ t ∈ ts, t ∈ seen ∨ t ∈ r) := by
    intro ts
    induction ts with
    | nil =>
      intro acc hn hs
      exact ⟨hn, fun t ht => ⟨hs t ht, Or.inl ht⟩, fun t ht => ht, fun t ht => by cases ht⟩
    | cons x xs ih =>
      intro acc hn hs
      simp only [List.foldl_cons]
      by_cases hc : (seen.contains x || acc.contains x) = true
      · simp only [hc, if_true]
        obtain ⟨h1, h2, h3, h4⟩ := ih acc hn hs
        refine ⟨h1, ?_, h3, ?_⟩
        · intro t ht
          obtain ⟨ha, hb⟩ := h2 t ht
          exact ⟨ha, hb.imp id (List.mem_cons_of_mem _)⟩
        · intro t ht
          rcases List.mem_cons.1 ht with rfl | ht
          · simp only [Bool.or_eq_true, List.contains_iff_mem] at hc
            rcases hc with hc | hc
            · exact Or.inl hc
            · exact Or.inr (h3 _ hc)
          · exact h4 t ht
      · simp only [hc]
        simp only [Bool.or_eq_true, List.contains_iff_mem, not_or] at hc
        have hn' : (acc ++ [x]).Nodup := by
          rw [List.nodup_append]
          refine ⟨hn, by simp, ?_⟩
          intro a ha b hb
          simp at hb
          subst hb
          intro hab
          subst hab
          exact hc.2 ha
        have hs' : ∀ t ∈ acc ++ [x], t ∉ seen := by
          intro t ht
          rcases List.mem_append.1 ht with ht | ht
          · exact hs t ht
          · simp at ht; subst ht; exact hc.1
        obtain ⟨h1, h2, h3, h4⟩ := ih (acc ++ [x]) hn' hs'
        refine ⟨h1, ?_, ?_, ?_⟩
        · intro t ht
          obtain ⟨ha, hb⟩ := h2 t ht
          refine ⟨ha, ?_⟩
          rcases hb with hb | hb
          · rcases List.mem_append.1 hb with hb | hb
            · exact Or.inl hb
            · simp at hb; subst hb; exact Or.inr List.mem_cons_self
          · exact Or.inr (List.mem_cons_of_mem _ hb)
        · intro t ht; exact h3 t (List.mem_append_left _ ht)
        · intro t ht
          rcases List.mem_cons.1 ht with rfl | ht
          · exact Or.inr (h3 _ (by simp))
          · exact h4 t ht
  obtain ⟨h1, h2, _, h4⟩ := key ts [] List.nodup_nil (by intro t ht; cases ht)
  refine ⟨h1, ?_, h4⟩
  intro t ht
  obtain ⟨ha, hb⟩ := h2 t ht
  rcases hb with hb | hb
  · cases hb
  · exact ⟨ha, hb⟩

/-! ### the loop -/

structure LoopInv (N : Net n) (s0 : State n) (frontier seen : List (State n)) : Prop where
  start : s0 ∈ seen
  sub : ∀ u ∈ frontier, u ∈ seen
  nodup : seen.Nodup
  sound : ∀ u ∈ seen, Reach N s0 u
  closed : ∀ u ∈ seen, u ∉ frontier → ∀ i, step N u i ∈ seen

theorem mem_succsOf (N : Net n) (u : State n) (i : Fin n) : step N u i ∈ succsOf N u := by
  simp [succsOf]

theorem of_mem_succsOf (N : Net n) (u t : State n) (h : t ∈ succsOf N u) : ∃ i, t = step N u i := by
  simp only [succsOf, List.mem_map, List.mem_finRange, true_and] at h
  obtain ⟨i, hi⟩ := h
  exact ⟨i, hi.symm⟩

theorem reachLoop_spec (N : Net n) (s0 : State n) :
    ∀ (fuel : Nat) (frontier seen : List (State n)),
      LoopInv N s0 frontier seen → (2 ^ n - seen.length) + frontier.length ≤ fuel →
      let R := reachLoop N fuel frontier seen
      s0 ∈ R ∧ (∀ t ∈ R, Reach N s0 t) ∧ (∀ u ∈ R, ∀ i, step N u i ∈ R) := by
  intro fuel
  induction fuel with
  | zero =>
    intro frontier seen hI hf
    have hfr : frontier = [] := by
      have : frontier.length = 0 := by omega
      exact List.eq_nil_of_length_eq_zero this
    subst hfr
    simp only [reachLoop]
    exact ⟨hI.start, hI.sound, fun u hu i => hI.closed u hu (by simp) i⟩
  | succ fuel ih =>
    intro frontier seen hI hf
    cases frontier with
    | nil =>
      simp only [reachLoop]
      exact ⟨hI.start, hI.sound, fun u hu i => hI.closed u hu (by simp) i⟩
    | cons s fr =>
      simp only [reachLoop]
      obtain ⟨hnd, hnew, hcov⟩ := addNew_spec seen (succsOf N s)
      have hs_seen : s ∈ seen := hI.sub s List.mem_cons_self
      have hnodup' : (seen ++ addNew seen (succsOf N s)).Nodup := by
        rw [List.nodup_append]
        refine ⟨hI.nodup, hnd, ?_⟩
        intro a ha b hb hab
        subst hab
        exact (hnew a hb).1 ha
      have hI' : LoopInv N s0 (fr ++ addNew seen (succsOf N s)) (seen ++ addNew seen (succsOf N s)) := by
        refine ⟨List.mem_append_left _ hI.start, ?_, hnodup', ?_, ?_⟩
        · intro u hu
          rcases List.mem_append.1 hu with hu | hu
          · exact List.mem_append_left _ (hI.sub u (List.mem_cons_of_mem _ hu))
          · exact List.mem_append_right _ hu
        · intro u hu
          rcases List.mem_append.1 hu with hu | hu
          · exact hI.sound u hu
          · obtain ⟨i, hi⟩ := of_mem_succsOf N s u (hnew u hu).2
            rw [hi]
            exact Reach.tail i (hI.sound s hs_seen)
        · intro u hu hnf i
          rcases List.mem_append.1 hu with hu | hu
          · by_cases hus : u = s
            · subst hus
              rcases hcov _ (mem_succsOf N u i) with h | h
              · exact List.mem_append_left _ h
              · exact List.mem_append_right _ h
            · have : u ∉ s :: fr := by
                intro hmem
                rcases List.mem_cons.1 hmem with h | h
                · exact hus h
                · exact hnf (List.mem_append_left _ h)
              exact List.mem_append_left _ (hI.closed u hu this i)
          · exact absurd (List.mem_append_right _ hu) hnf
      have hlen := nodup_length_le _ hnodup'
      apply ih _ _ hI'
      simp only [List.length_append, List.length_cons] at hf hlen ⊢
      omega

/-- **the executable closure is asynchronous reachability** -/
theorem mem_reachSet (N : Net n) (s t : State n) : t ∈ reachSet N s ↔ Reach N s t := by
  have hI : LoopInv N s [s] [s] :=
    ⟨by simp, by simp, by simp, by intro u hu; simp at hu; subst hu; exact Reach.refl _,
      by intro u hu hnf; simp at hu; subst hu; simp at hnf⟩
  obtain ⟨h1, h2, h3⟩ := reachLoop_spec N s (2 ^ n) [s] [s] hI (by
    have := Nat.one_le_two_pow (n := n)
    simp only [List.length_cons, List.length_nil]; omega)
  constructor
  · exact h2 t
  · intro hr
    induction hr with
    | refl => exact h1
    | tail i _ ih => exact h3 _ ih i

/-! ### attractors -/

theorem lookupReach_eq (N : Net n) (s : State n) : lookupReach (reachTable N) s = reachSet N s := by
  unfold lookupReach reachTable
  have : ∀ (l : List (State n)), s ∈ l →
      (l.map fun u => (u, reachSet N u)).find? (fun e => e.1 == s) = some (s, reachSet N s) := by
    intro l
    induction l with
    | nil => intro h; cases h
    | cons a rest ih =>
      intro h
      simp only [List.map_cons, List.find?_cons]
      by_cases ha : a = s
      · subst ha; simp
      · have : (a == s) = false := by simpa using ha
        simp only [this]
        rcases List.mem_cons.1 h with h | h
        · exact absurd h.symm ha
        · exact ih h
  rw [this _ (mem_allStates s)]

/-- the executable test: `s` lies in an attractor iff everything reachable from `s` reaches `s` -/
theorem inAttrB_iff (N : Net n) (s : State n) :
    inAttrB (reachTable N) s = true ↔ ∀ t, Reach N s t → Reach N t s := by
  unfold inAttrB
  simp only [List.all_eq_true, lookupReach_eq, List.contains_iff_mem, mem_reachSet]

/-- a state all of whose reachable states reach it back spans an attractor: its reach set -/
theorem reach_isAttr (N : Net n) (s : State n) (h : ∀ t, Reach N s t → Reach N t s) :
    IsAttr N (fun t => t ∈ reachSet N s) := by
  refine ⟨⟨s, (mem_reachSet N s s).2 (Reach.refl s)⟩, ?_⟩
  intro u hu t
  have hsu := (mem_reachSet N s u).1 hu
  constructor
  · intro ht
    exact Reach.trans (h u hsu) ((mem_reachSet N s t).1 ht)
  · intro hut
    exact (mem_reachSet N s t).2 (Reach.trans hsu hut)

/-- conversely every state of an attractor passes the test and the attractor is its reach set -/
theorem attr_reach (N : Net n) (A : State n → Prop) (hA : IsAttr N A) (s : State n) (hs : A s) :
    (∀ t, Reach N s t → Reach N t s) ∧ ∀ t, A t ↔ t ∈ reachSet N s := by
  constructor
  · intro t ht
    have hAt : A t := (hA.2 s hs t).2 ht
    exact (hA.2 t hAt s).1 hs
  · intro t
    rw [mem_reachSet]
    exact hA.2 s hs t

theorem attractorsOf_mem (N : Net n) :
    ∀ (tbl : List (State n × List (State n))) (acc : List (List (State n))) (A : List (State n)),
      A ∈ tbl.foldl (fun acc e =>
        if inAttrB (reachTable N) e.1 && !(acc.any fun A => A.contains e.1) then acc ++ [e.2] else acc) acc →
      A ∈ acc ∨ ∃ e ∈ tbl, inAttrB (reachTable N) e.1 = true ∧ A = e.2 := by
  intro tbl
  induction tbl with
  | nil => intro acc A h; exact Or.inl h
  | cons e rest ih =>
    intro acc A h
    simp only [List.foldl_cons] at h
    rcases ih _ A h with h | ⟨e', he', h1, h2⟩
    · by_cases hc : (inAttrB (reachTable N) e.1 && !(acc.any fun A => A.contains e.1)) = true
      · simp only [hc, if_true] at h
        rcases List.mem_append.1 h with h | h
        · exact Or.inl h
        · simp at h
          simp only [Bool.and_eq_true] at hc
          exact Or.inr ⟨e, List.mem_cons_self, hc.1, h⟩
      · simp only [hc] at h
        exact Or.inl h
    · exact Or.inr ⟨e', List.mem_cons_of_mem _ he', h1, h2⟩

/-- **soundness of `attractors`**: every listed set is an attractor of the network -/
theorem attractors_sound (N : Net n) (A : List (State n)) (h : A ∈ attractors N) :
    IsAttr N (fun t => t ∈ A) := by
  unfold attractors attractorsOf at h
  rcases attractorsOf_mem N (reachTable N) [] A h with h | ⟨e, he, h1, h2⟩
  · cases h
  · simp only [reachTable, List.mem_map] at he
    obtain ⟨s, _, hs⟩ := he
    subst hs
    simp only at h1 h2
    subst h2
    exact reach_isAttr N s ((inAttrB_iff N s).1 h1)

theorem attractorsOf_covers (N : Net n) :
    ∀ (tbl : List (State n × List (State n))) (acc : List (List (State n))) (e : State n × List (State n)),
      e ∈ tbl → inAttrB (reachTable N) e.1 = true → e.1 ∈ e.2 →
      ∃ A ∈ tbl.foldl (fun acc e =>
        if inAttrB (reachTable N) e.1 && !(acc.any fun A => A.contains e.1) then acc ++ [e.2] else acc) acc,
        e.1 ∈ A := by
  intro tbl
  induction tbl with
  | nil => intro acc e he; cases he
  | cons x rest ih =>
    intro acc e he h1 h2
    -- membership is monotone along the fold
    have mono : ∀ (l : List (State n × List (State n))) (acc : List (List (State n))) (B : List (State n)),
        B ∈ acc → B ∈ l.foldl (fun acc e =>
          if inAttrB (reachTable N) e.1 && !(acc.any fun A => A.contains e.1) then acc ++ [e.2] else acc) acc := by
      intro l
      induction l with
      | nil => intro acc B hB; exact hB
      | cons y ys ihy =>
        intro acc B hB
        simp only [List.foldl_cons]
        apply ihy
        split
        · exact List.mem_append_left _ hB
        · exact hB
    simp only [List.foldl_cons]
    rcases List.mem_cons.1 he with rfl | he
    · by_cases hc : (acc.any fun A => A.contains e.1) = true
      · simp only [h1, hc, Bool.not_true, Bool.and_false]
        simp only [List.any_eq_true, List.contains_iff_mem] at hc
        obtain ⟨B, hB, hmem⟩ := hc
        exact ⟨B, mono rest acc B hB, hmem⟩
      · simp only [h1, hc, Bool.true_and]
        exact ⟨e.2, mono rest _ e.2 (by simp), h2⟩
    · exact ih _ e he h1 h2

/-- **completeness of `attractors`**: every attractor of the network is one of the listed sets -/
theorem attractors_complete (N : Net n) (A : State n → Prop) (hA : IsAttr N A) :
    ∃ L ∈ attractors N, ∀ t, A t ↔ t ∈ L := by
  obtain ⟨s, hs⟩ := hA.1
  obtain ⟨hback, hset⟩ := attr_reach N A hA s hs
  have hin : inAttrB (reachTable N) s = true := (inAttrB_iff N s).2 hback
  have hmem : (s, reachSet N s) ∈ reachTable N := by
    simp only [reachTable, List.mem_map]
    exact ⟨s, mem_allStates s, rfl⟩
  obtain ⟨L, hL, hsL⟩ := attractorsOf_covers N (reachTable N) [] (s, reachSet N s) hmem hin
    ((mem_reachSet N s s).2 (Reach.refl s))
  refine ⟨L, hL, ?_⟩
  -- `L` is an attractor containing `s`, hence equals `A`
  have hLattr := attractors_sound N L hL
  intro t
  constructor
  · intro hAt
    exact (hLattr.2 s hsL t).2 ((hA.2 s hs t).1 hAt)
  · intro htL
    exact (hA.2 s hs t).2 ((hLattr.2 s hsL t).1 htL)

end Balm.Impl
