import BalmProofs.SubNetSpec
import BalmProofs.OwnBridge
import BalmProofs.AttrBridge
import BalmProofs.SymHyp
import BalmProofs.JudgeSpec
import Balm
import BalmProofs.AttrTest
import BalmProofs.Bfs
import BalmProofs.Drivers
import BalmProofs.ReachSpec
import BalmProofs.SymLoopSpec
/-! Property C01: theorems are listed in `obligations.json`; see DESIGN.md section 6. -/
