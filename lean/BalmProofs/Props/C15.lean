import BalmProofs.AllOpsPres
import BalmProofs.GenericInv
import BalmProofs.JudgeExact
import BalmProofs.WeakSpec
import BalmProofs.ContractSpec
import BalmProofs.JudgeSpec
import Balm
import BalmProofs.PlainInv
import BalmProofs.AttrTest
import BalmProofs.Bfs
import BalmProofs.Drivers
/-! Property C15: theorems are listed in `obligations.json`; see DESIGN.md section 6. -/
