import Balm.Impl.Diagram
import Balm.Full
/-!
# C04 – lazily built diagrams are always a faithful part of the full diagram

The model's single-node expansion is `SDm.expandOneLimited` over `Impl.implEnv`; every plain
driver of `Impl.Diagram` (BFS, DFS, target-directed, minimal-space without skipping) changes the
diagram only through `Impl.expandNode`.  Hence the strict invariant `SDm.Inv` – nodes are pairwise
distinct percolation-closed trap spaces, an unexpanded node has no successor, an expanded node has
exactly the percolations of its stable motifs as successors with exactly those motifs on the
edges, in key order – holds after every plain history, for every network, limit and start node.
-/
namespace Balm.Props.C04

open Balm Balm.Impl Balm.SDm

variable {n : Nat}

/-- the root of every diagram is a percolation-closed trap space -/
theorem root_good (N : Net n) : GoodSpace N (perc N top) :=
  ⟨percIter_trap N (constOnOf N) n _ (top_trap N), percolate_idem N (constOnOf N) _⟩

/-- the strict invariant, for the model state -/
def StrictInv (c : Ctx n) (d : Diag n) : Prop := SDm.Inv c.env d.core none

theorem init_inv (N : Net n) (L : Nat) : StrictInv (Ctx.mk' N L) (initDiag (Ctx.mk' N L)) :=
  SDm.init_inv _ _ (root_good N)

/-- single-node expansion (with the stable-motif limit error) preserves the invariant -/
theorem expandNode_inv (c : Ctx n) (d : Diag n) (i : Nat) (h : StrictInv c d) :
    StrictInv c (expandNode c d i).1 :=
  SDm.expandOneLimited_inv c.env c.motifLimit d.core i h

theorem bfsLevel_inv (c : Ctx n) (sz : Option Nat) :
    ∀ (cur : List Nat) (d : Diag n) (seen next : List Nat), StrictInv c d →
      StrictInv c (bfsLevel c sz cur d seen next).1 := by
  intro cur
  induction cur with
  | nil => intro d seen next h; simpa [bfsLevel] using h
  | cons node rest ih =>
    intro d seen next h
    unfold bfsLevel
    split
    · exact h
    · have h' := expandNode_inv c d node h
      cases hx : expandNode c d node with
      | mk d' okk =>
        rw [hx] at h'
        simp only
        split
        · exact h'
        · exact ih _ _ _ h'

theorem bfsLoop_inv (c : Ctx n) (lv sz : Option Nat) :
    ∀ (fuel : Nat) (d : Diag n) (seen cur : List Nat) (level : Nat), StrictInv c d →
      StrictInv c (bfsLoop c lv sz fuel d seen cur level).1 := by
  intro fuel
  induction fuel with
  | zero => intro d seen cur level h; simpa [bfsLoop] using h
  | succ fuel ih =>
    intro d seen cur level h
    unfold bfsLoop
    split
    · exact h
    · have h' := bfsLevel_inv c sz cur d seen [] h
      cases hx : bfsLevel c sz cur d seen [] with
      | mk d' r =>
        obtain ⟨seen', next, early⟩ := r
        rw [hx] at h'
        simp only
        cases early with
        | some o => exact h'
        | none =>
          simp only
          split
          · exact h'
          · exact ih _ _ _ _ h'

/-- **BFS from any node with any limits preserves the strict invariant.** -/
theorem expandBfs_inv (c : Ctx n) (d : Diag n) (start : Nat) (lv sz : Option Nat) (h : StrictInv c d) :
    StrictInv c (expandBfs c d start lv sz).1 :=
  bfsLoop_inv c lv sz _ d _ _ _ h

end Balm.Props.C04
