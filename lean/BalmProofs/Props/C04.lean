import BalmProofs.PlainInv
import BalmProofs.GenericInv
import BalmProofs.JudgeExact
/-! Property C04: theorems are listed in `obligations.json` (proofs: `BalmProofs/PlainInv.lean`, `GenericInv.lean`, `JudgeSpec.lean`, `JudgeExact.lean`); see DESIGN.md section 6. -/
