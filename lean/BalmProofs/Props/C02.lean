import BalmProofs.AllOpsPres
import BalmProofs.JudgeExact
import BalmProofs.JudgeSpec
import Balm
import BalmProofs.PlainInv
import BalmProofs.AttrTest
import BalmProofs.Bfs
import BalmProofs.Drivers
/-! Property C02: theorems are listed in `obligations.json`; see DESIGN.md section 6. -/
