import BalmProofs.AllOpsPres
import Balm.Impl.Cache
import Balm.Impl.SkipExcl
/-! C16: `Balm.Cache.step_rel` (the "equal up to reclaimed candidates" relation is a bisimulation for
every protocol operation), `rel_reclaim`, `reclaim_transparent`, `relNode_obs` (related nodes are
observationally equal). Pickling is the identity on the protocol state. -/
