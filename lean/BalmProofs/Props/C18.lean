import Balm.Trans
import Balm.ProdNet
import Balm.Src
/-! C18: identity inputs are constant along every asynchronous path (`input_const_along`), their
single-literal subspaces are trap spaces (`single_trap`) and the least trap space of an attractor
fixes them (`least_fixes_inputs`) – the facts behind the input-conditioned clause.  Product theorems:
pending (see DESIGN.md). -/
