import BalmProofs.ControlSound
import BalmProofs.JudgeSpec
import Balm
import BalmProofs.AttrTest
import BalmProofs.Bfs
import BalmProofs.Drivers
import BalmProofs.ReachSpec
/-! Property C06: theorems are listed in `obligations.json`; see DESIGN.md section 6. -/
