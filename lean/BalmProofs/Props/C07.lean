import BalmProofs.ControlSound
import BalmProofs.DriversComplete
import BalmProofs.DriversSpec
import Balm
import BalmProofs.AttrTest
import BalmProofs.Bfs
import BalmProofs.Drivers
/-! Property C07: theorems are listed in `obligations.json`; see DESIGN.md section 6. -/
