import BalmProofs.SizeBound
import BalmProofs.SymLoopSpec
import Balm
import BalmProofs.AttrTest
import BalmProofs.Bfs
import BalmProofs.Drivers
/-! Property C13: theorems are listed in `obligations.json`; see DESIGN.md section 6. -/
