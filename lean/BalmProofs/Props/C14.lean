import BalmProofs.BlockSpec
import Balm.Skip
import BalmProofs.JudgeSpec
import Balm.Impl.Cache
/-! C14: `Balm.Cache.history_fresh` (every cached field carries the tag of the node's current successor
set after every history of the protocol operations), `step_fresh`, and the negative witness
`unrepaired_skip_is_stale` for the skip operation before the repair. -/
