import BalmProofs.AllOpsPres
import BalmProofs.OwnBridge
import BalmProofs.JudgeExact
import BalmProofs.WeakSpec
import BalmProofs.JudgeSpec
import Balm
import BalmProofs.AttrTest
import BalmProofs.Bfs
import BalmProofs.Drivers
import BalmProofs.ReachSpec
import BalmProofs.SymLoopSpec
/-! Property C05: theorems are listed in `obligations.json`; see DESIGN.md section 6. -/
