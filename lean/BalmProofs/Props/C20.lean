import BalmProofs.JudgeExact
import BalmProofs.SubgraphSpec
import Balm.DepthAlgo
import BalmProofs.JudgeSpec
import Balm
import BalmProofs.AttrTest
import BalmProofs.Bfs
import BalmProofs.Drivers
/-! Property C20: theorems are listed in `obligations.json`; see DESIGN.md section 6. -/
