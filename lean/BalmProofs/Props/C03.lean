import BalmProofs.SubNetSpec
import BalmProofs.AllOpsPres
import BalmProofs.JudgeExact
import BalmProofs.WeakSpec
import BalmProofs.BlockSpec
import BalmProofs.JudgeSpec
import Balm
import BalmProofs.PlainInv
import BalmProofs.AttrTest
import BalmProofs.Bfs
import BalmProofs.Drivers
/-! Property C03: theorems are listed in `obligations.json`; see DESIGN.md section 6. -/
