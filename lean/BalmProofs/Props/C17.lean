import Balm.Trans
import Balm.TransNet
import Balm.Expr
import Balm.KeyBits
/-! C17: `Balm.Net.ofExprs_congr` – logically equivalent update formulas denote the same semantic
network, hence the same model results; `key_injective` – keys identify spaces for every variable
order.  Renaming / polarity equivariance: pending (see DESIGN.md). -/
