import Balm.Impl.Solver
import Balm.Impl.Control
import BalmProofs.ReachSpec
/-!
# Specifications of the executable judges / reference oracles

Each Boolean function the harness evaluates on the *real* code's output is given its logical
meaning here, so that an `OK` of the judge is a proof of the stated clause for that output.
-/
namespace Balm.Impl

open Balm

variable {n : Nat}

/-! ### spaces -/

theorem top_mem (s : State n) : (top : Space n).Mem s := by
  intro i b h
  simp [top] at h

theorem statesOf_top (s : State n) : s ∈ statesOf (top : Space n) := (mem_statesOf _ s).2 (top_mem s)

/-! ### C10: the Petri-net judge -/

theorem transEnabledB_iff (t : Trans n) (s : State n) : transEnabledB t s = true ↔ t.enabled s := by
  unfold transEnabledB Trans.enabled Trans.cubeSat
  simp only [Bool.and_eq_true, beq_iff_eq, List.all_eq_true, List.mem_finRange, true_implies, Bool.or_eq_true]
  constructor
  · rintro ⟨h1, h2⟩
    refine ⟨h1, ?_⟩
    intro j b hj hc
    rcases h2 j with h | h
    · exact absurd h hj
    · rw [hc] at h; simpa using h
  · rintro ⟨h1, h2⟩
    refine ⟨h1, ?_⟩
    intro j
    by_cases hj : j = t.v
    · exact Or.inl hj
    · right
      cases hc : t.c[j] with
      | none => rfl
      | some b => simpa using h2 j b hj hc

/-- **C10 (verified checker).** If the judge accepts the transition list of the *global* net, the net
    is `Faithful` to the network: in every state, some transition changing `v` to `up` is enabled iff
    the update function of `v` disagrees with its current value in that direction.  (`Faithful` is
    the hypothesis of `siphon_iff_trapspace`, so trap spaces = conflict-free siphons holds for the
    very net the real code built.) -/
theorem faithfulOnB_sound (N : Net n) (ts : List (Trans n)) (h : faithfulOnB N top ts = none) :
    Faithful N ts := by
  unfold faithfulOnB firstSome at h
  simp only [List.findSome?_cons, List.findSome?_nil, id] at h
  -- all three checks passed
  have h3 : ((statesOf (top : Space n)).all fun s => (List.finRange n).all fun v => ((top : Space n)[v]).isSome ||
      [false, true].all fun up =>
        (ts.any fun t => t.v == v && t.up == up && transEnabledB t s) == ((s[v] == !up) && (N.f v s == up))) = true := by
    by_contra hc
    simp only [check, hc] at h
    split at h <;> simp_all
    split at h <;> simp_all
  intro s v up
  have hs := List.all_eq_true.1 h3 s (statesOf_top s)
  have hv := List.all_eq_true.1 hs v (List.mem_finRange v)
  have htop : ((top : Space n)[v]).isSome = false := by simp [top]
  simp only [htop, Bool.false_or, List.all_cons, List.all_nil, Bool.and_true, Bool.and_eq_true, beq_iff_eq] at hv
  have hup : (ts.any fun t => t.v == v && t.up == up && transEnabledB t s) = ((s[v] == !up) && (N.f v s == up)) := by
    cases up
    · exact hv.1
    · exact hv.2
  constructor
  · rintro ⟨t, ht, htv, htu, hen⟩
    have : (ts.any fun t => t.v == v && t.up == up && transEnabledB t s) = true := by
      apply List.any_eq_true.2
      exact ⟨t, ht, by simp [htv, htu, (transEnabledB_iff t s).2 hen]⟩
    rw [hup] at this
    simpa using this
  · intro hr
    have : ((s[v] == !up) && (N.f v s == up)) = true := by simpa using hr
    rw [← hup] at this
    obtain ⟨t, ht, hc⟩ := List.any_eq_true.1 this
    simp only [Bool.and_eq_true, beq_iff_eq] at hc
    exact ⟨t, ht, hc.1.1, hc.1.2, (transEnabledB_iff t s).1 hc.2⟩

/-! ### C09: the solver references -/

/-- candidates of a `trappist` query: trap spaces (of the network, forward time) inside `ens` and
    inside no avoided subspace -/
def IsCand (N : Net n) (ens : Space n) (avoid : List (Space n)) (t : Space n) : Prop :=
  TrapSpace N t ∧ t.le ens ∧ ∀ a ∈ avoid, ¬ t.le a

theorem mem_cands (N : Net n) (ens : Space n) (avoid : List (Space n)) (t : Space n) :
    t ∈ ((allSpaces n).filter fun p => if false = true then isRevTrapB N p else isTrapB N p).filter
      (fun t => t.leB ens && !(avoid.any fun a => t.leB a)) ↔ IsCand N ens avoid t := by
  simp only [List.mem_filter, mem_allSpaces, true_and, Bool.false_eq_true, if_false, Bool.and_eq_true,
    Bool.not_eq_true', List.any_eq_false, isTrapB_iff, Space.leB_iff, IsCand]

theorem mem_solveRef_min (N : Net n) (ens : Space n) (avoid : List (Space n)) (srcs : List (Fin n)) (p : Space n) :
    p ∈ solveRef N false .min ens avoid srcs ↔
      IsCand N ens avoid p ∧ ∀ q, IsCand N ens avoid q → q.le p → q = p := by
  unfold solveRef
  rw [List.mem_filter, mem_cands]
  simp only [Bool.not_eq_true', List.any_eq_false, Bool.and_eq_true, bne_iff_ne, ne_eq, not_and, Space.leB_iff,
    mem_cands]
  constructor
  · rintro ⟨hp, hmin⟩
    refine ⟨hp, fun q hq hle => ?_⟩
    by_contra hne
    exact hmin q hq hne hle
  · rintro ⟨hp, hmin⟩
    exact ⟨hp, fun q hq hne hle => hne (hmin q hq hle)⟩

theorem mem_solveRef_fix (N : Net n) (ens : Space n) (avoid : List (Space n)) (srcs : List (Fin n)) (p : Space n) :
    p ∈ solveRef N false .fix ens avoid srcs ↔ IsCand N ens avoid p ∧ ∀ i : Fin n, (p[i]).isSome = true := by
  unfold solveRef
  rw [List.mem_filter, mem_cands]
  simp only [List.all_eq_true, List.mem_finRange, true_implies]

/-- the reduced-STG reference: states of `ens`, outside `avoid`, in which every variable either agrees
    with its update function or sits on its retained value -/
theorem mem_reducedFixedPoints (N : Net n) (R ens : Space n) (avoid : List (Space n)) (s : State n) :
    s ∈ reducedFixedPoints N R ens avoid ↔
      ens.Mem s ∧ (∀ a ∈ avoid, ¬ a.Mem s) ∧ ∀ i : Fin n, N.f i s = s[i] ∨ R[i] = some s[i] := by
  unfold reducedFixedPoints
  simp only [List.mem_filter, mem_statesOf, Bool.and_eq_true, Bool.not_eq_true', List.any_eq_false,
    List.all_eq_true, List.mem_finRange, true_implies, Bool.or_eq_true, beq_iff_eq, Space.memB_iff]

/-! ### C02/C03: minimal trap spaces -/

theorem mem_minTrapsIn (N : Net n) (p m : Space n) :
    m ∈ minTrapsIn N p ↔ (TrapSpace N m ∧ m.le p) ∧ ∀ q, TrapSpace N q → q.le p → q.le m → q = m := by
  unfold minTrapsIn
  simp only [List.mem_filter, mem_trapSpaces, Space.leB_iff, Bool.not_eq_true', List.any_eq_false,
    Bool.and_eq_true, bne_iff_ne, ne_eq, not_and, and_imp]
  constructor
  · rintro ⟨hm, hmin⟩
    refine ⟨hm, fun q hq hqp hqm => ?_⟩
    by_contra hne
    exact hmin q hq hqp hne hqm
  · rintro ⟨hm, hmin⟩
    exact ⟨hm, fun q hq hqp hne hqm => hne (hmin q hq hqp hqm)⟩

/-! ### C01/C05/C08/C14: own attractors -/

theorem attrIn_iff (A : List (State n)) (p : Space n) : attrIn A p = true ↔ ∀ s ∈ A, p.Mem s := by
  simp [attrIn, List.all_eq_true, Space.memB_iff]

/-- `OWNX`: the attractors inside the node's space and inside none of the successor spaces -/
theorem mem_ownAttrs (atts : List (List (State n))) (p : Space n) (succ : List (Space n)) (A : List (State n)) :
    A ∈ ownAttrs atts p succ ↔ A ∈ atts ∧ (∀ s ∈ A, p.Mem s) ∧ ∀ q ∈ succ, ¬ ∀ s ∈ A, q.Mem s := by
  unfold ownAttrs
  simp only [List.mem_filter, Bool.and_eq_true, attrIn_iff, Bool.not_eq_true', List.any_eq_false]

/-! ### C06: the control judge -/

/-- **C06 (verified checker).** If `judgeForces` accepts an override `d` for a step from the trap
    space `prev` with motif `motif`, then every attractor of the network with `d` overridden that is
    reachable from a state of `prev` has the motif's values in all of its states. -/
theorem judgeForces_sound (N : Net n) (prev d motif : Space n) (h : judgeForces N prev d motif = none)
    (A : State n → Prop) (hA : IsAttr (override N d) A)
    (s t : State n) (hs : prev.Mem s) (hst : Reach (override N d) s t) (ht : A t) :
    ∀ u, A u → motif.Mem u := by
  unfold judgeForces firstSome at h
  simp only [List.findSome?_cons, List.findSome?_nil, id] at h
  have hbad : ((statesOf prev).any fun s =>
      (lookupReach (reachTable (override N d)) s).any fun t =>
        inAttrB (reachTable (override N d)) t && !(motif.memB t)) = false := by
    by_contra hc
    have hc' : ((statesOf prev).any fun s =>
      (lookupReach (reachTable (override N d)) s).any fun t =>
        inAttrB (reachTable (override N d)) t && !(motif.memB t)) = true := by
      cases hx : ((statesOf prev).any fun s =>
        (lookupReach (reachTable (override N d)) s).any fun t =>
          inAttrB (reachTable (override N d)) t && !(motif.memB t)) with
      | true => rfl
      | false => exact absurd hx hc
    simp only [check, hc'] at h
    split at h <;> simp_all
  intro u hu
  have hsu : Reach (override N d) s u := Reach.trans hst ((hA.2 t ht u).1 hu)
  have hin : inAttrB (reachTable (override N d)) u = true := by
    rw [inAttrB_iff]
    intro w huw
    have hAw : A w := (hA.2 u hu w).2 huw
    exact (hA.2 w hAw u).1 hu
  have h1 := List.any_eq_false.1 hbad s ((mem_statesOf prev s).2 hs)
  rw [lookupReach_eq] at h1
  have h1' := List.any_eq_false.1 (Bool.eq_false_iff.2 h1) u ((mem_reachSet _ s u).2 hsu)
  have : motif.memB u = true := by
    cases hm : motif.memB u with
    | true => rfl
    | false => simp [hin, hm] at h1'
  exact (Space.memB_iff motif u).1 this

end Balm.Impl

namespace Balm.Impl

open Balm

variable {n : Nat}

/-! ### C02/C04/C15/C20: the diagram judge -/

theorem firstSome_none (l : List (Option String)) : firstSome l = none ↔ ∀ x ∈ l, x = none := by
  unfold firstSome
  rw [List.findSome?_eq_none_iff]
  simp

theorem check_none (b : Bool) (msg : String) : check b msg = none ↔ b = true := by
  unfold check
  cases b <;> simp

/-- what `judgeStrict` establishes for a dump of the real diagram -/
structure StrictSpec (c : Ctx n) (d : Dump n) : Prop where
  root : d.nodes.length > 0 ∧ d.space 0 = c.root
  distinct : ((d.nodes.map (·.space)).eraseDups).length = d.nodes.length
  node : ∀ i, i < d.nodes.length → TrapSpace c.N (d.node i).space ∧ perc c.N (d.node i).space = (d.node i).space
  stub : ∀ i, i < d.nodes.length → (d.node i).expanded = false → d.outs i = []
  full : ∀ i, i < d.nodes.length → (d.node i).expanded = true → (d.node i).skipped = false →
    ((d.outs i).flatMap fun e => e.2.2.map fun m => (d.space e.2.1, m)).Perm
      ((c.env.maxT (d.node i).space).map fun m => (perc c.N m, m))
  depth : ∀ i, i < d.nodes.length → (d.node i).depth = longestTo d.pairs d.nodes.length i

/-- **C02/C04/C15/C20 (verified checker).** An `OK` of `judgeStrict` on a dump of the real diagram
    proves: the root is the percolation of the whole space; no trap space appears as two nodes; every
    node is a percolation-closed trap space; an unexpanded node has no successors; every expanded
    ordinary node has – as a multiset of (child space, motif) pairs – exactly the percolations of its
    maximal trap spaces with exactly those motifs; every node's depth is the length of the longest
    path ending in it. -/
theorem judgeStrict_sound (c : Ctx n) (d : Dump n) (h : judgeStrict c d true = none) : StrictSpec c d := by
  unfold judgeStrict at h
  simp only at h
  rw [firstSome_none] at h
  have hroot := h (chkRoot c d) (by simp)
  have hdist := h (chkDistinct d) (by simp)
  have hnode : ∀ i, i < d.nodes.length → ∀ x ∈ nodeChecks c (minTrapsIn c.N c.root) d true i, x = none := by
    intro i hi
    have := h _ (List.mem_append_right _ (List.mem_map.2 ⟨i, List.mem_range.2 hi, rfl⟩))
    exact (firstSome_none _).1 this
  unfold chkRoot at hroot
  unfold chkDistinct at hdist
  rw [check_none] at hroot hdist
  refine ⟨?_, by simpa using hdist, ?_, ?_, ?_, ?_⟩
  · simp only [Bool.and_eq_true, decide_eq_true_eq, beq_iff_eq] at hroot
    exact hroot
  · intro i hi
    have h1 := hnode i hi (chkTrap c d i) (by simp [nodeChecks])
    have h2 := hnode i hi (chkPerc c d i) (by simp [nodeChecks])
    unfold chkTrap at h1
    unfold chkPerc at h2
    rw [check_none] at h1 h2
    exact ⟨(isTrapB_iff _ _).1 h1, by simpa using h2⟩
  · intro i hi hexp
    have h5 := hnode i hi (chkKind c (minTrapsIn c.N c.root) d i) (by simp [nodeChecks])
    unfold chkKind at h5
    simp only [hexp, Bool.not_false, if_true] at h5
    rw [check_none] at h5
    simpa using h5
  · intro i hi hexp hskip
    have h5 := hnode i hi (chkKind c (minTrapsIn c.N c.root) d i) (by simp [nodeChecks])
    unfold chkKind at h5
    simp only [hexp, hskip, Bool.not_true, Bool.false_eq_true, if_false] at h5
    rw [check_none] at h5
    exact List.isPerm_iff.1 h5
  · intro i hi
    have h6 := hnode i hi (chkDepth d true i) (by simp [nodeChecks])
    unfold chkDepth at h6
    simp only [if_true] at h6
    rw [check_none] at h6
    simpa using h6

end Balm.Impl

namespace Balm.Impl

open Balm

variable {n : Nat}

/-- **C03 (verified checker).** An `OK` of `judgeLeaves` on a dump of the real diagram proves that the
    expanded successor-free nodes (`minimal_trap_spaces()`) are exactly the ⊆-minimal trap spaces of
    the network inside the root space (`mem_minTrapsIn`), and that the list has no more entries than
    distinct spaces (no duplicates). -/
theorem judgeLeaves_sound (c : Ctx n) (d : Dump n) (h : judgeLeaves c d = none) :
    (d.leaves.eraseDups.length = d.leaves.length) ∧ ∀ m, m ∈ d.leaves ↔ m ∈ minTrapsIn c.N c.root := by
  unfold judgeLeaves at h
  simp only at h
  rw [firstSome_none] at h
  have h1 := h (check (d.leaves.eraseDups.length == d.leaves.length) "a minimal trap space is listed twice") (by simp)
  have h2 := h (check (d.leaves.all (minTrapsIn c.N c.root).contains) "a spurious minimal trap space is listed") (by simp)
  have h3 := h (check ((minTrapsIn c.N c.root).all d.leaves.contains) "a minimal trap space of the network is missing") (by simp)
  rw [check_none] at h1 h2 h3
  refine ⟨by simpa using h1, fun m => ⟨fun hm => ?_, fun hm => ?_⟩⟩
  · have := List.all_eq_true.1 h2 m hm
    simpa using this
  · have := List.all_eq_true.1 h3 m hm
    simpa using this

end Balm.Impl
