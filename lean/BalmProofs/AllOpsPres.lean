import BalmProofs.GenericInv
import Balm.Impl.Scc
/-!
# Every operation of the model preserves every predicate that its primitives preserve

The non-plain operations - `skip_to_minimal`, `skip_remaining`, block expansion with source shortcuts and
motif-avoidance verdicts, source-SCC expansion with its recursive component diagrams - change the diagram only through
five primitives: `expandNode`, `ensureChild` (node of a percolated space, optionally an edge), `setExp`, `addEdge` and
marking a node as skip node.  `Prims P` says that `P` survives each of them; the theorems below lift that to the
drivers.  Instances: `Grows d₀` (`all_ops_grow`: no operation of any strategy ever removes or renumbers a node, removes
an edge or un-expands a node) and "every node space is closed under percolation" (`all_ops_perc_closed`).
-/
namespace Balm.Props.C04

open Balm Balm.Impl Balm.SDm

variable {n : Nat}

structure Prims (c : Ctx n) (P : Diag n → Prop) : Prop where
  expand : ∀ d i, P d → P (expandNode c d i).1
  child : ∀ d parent m, P d → P (ensureChild c d parent m).1
  setExp : ∀ d i, P d → P (setExp d i)
  addEdge : ∀ d a b m, P d → P (addEdge d a b m)
  skipped : ∀ d l, P d → P { d with skipped := l }

variable {c : Ctx n} {P : Diag n → Prop}

theorem foldl_pres {α : Type} (f : Diag n → α → Diag n) (hf : ∀ d a, P d → P (f d a)) :
    ∀ (l : List α) (d : Diag n), P d → P (l.foldl f d)
  | [], d, h => h
  | a :: l, d, h => foldl_pres f hf l (f d a) (hf d a h)

theorem skipToMinimalWith_pres (hp : Prims c P) (d : Diag n) (i : Nat) (mins : List (Space n)) (h : P d) :
    P (skipToMinimalWith c d i mins).1 := by
  unfold skipToMinimalWith
  split
  · exact h
  · split
    · exact hp.setExp d i h
    · simp only
      apply hp.skipped
      apply hp.setExp
      exact foldl_pres _ (fun d m hd => hp.setExp _ _ (hp.child d (some i) m hd)) mins d h

theorem makeSkipNode_pres (hp : Prims c P) (d : Diag n) (i : Nat) (allMins : List (Space n)) (h : P d) :
    P (makeSkipNode c d i allMins) := by
  unfold makeSkipNode
  split
  · exact h
  · simp only
    apply hp.skipped
    apply hp.setExp
    apply foldl_pres _ _ allMins d h
    intro d m hd
    split
    · exact hp.setExp _ _ (hp.child d (some i) m hd)
    · exact hd

/-! ### block expansion, all flag combinations -/

theorem blockLevelX_pres (hp : Prims c P) (cfg : BlockCfg) (before : List Nat) :
    ∀ (cur : List Nat) (d : Diag n) (next : List Nat) (clean : List Bool), P d →
      P (blockLevelX c cfg before cur d next clean).1 := by
  intro cur
  induction cur with
  | nil => intro d next clean h; simpa [blockLevelX] using h
  | cons node rest ih =>
    intro d next clean h
    unfold blockLevelX
    split
    · split
      · exact ih _ _ _ h
      · exact ih _ _ _ h
    · split
      · exact h
      · simp only
        split
        · split
          · exact h
          · split
            · exact h
            · apply ih
              apply hp.setExp
              have : ∀ (ms : List (Space n)) (acc : Diag n × List Nat), P acc.1 →
                  P (ms.foldl (fun (acc : Diag n × List Nat) m =>
                    let r := ensureChild c acc.1 (some node) m
                    (r.1, acc.2 ++ [r.2])) acc).1 := by
                intro ms
                induction ms with
                | nil => intro acc ha; exact ha
                | cons m ms ihm => intro acc ha; exact ihm _ (hp.child acc.1 (some node) m ha)
              exact this _ (d, []) h
        · have h' := hp.expand d node h
          cases hx : expandNode c d node with
          | mk d' okk =>
            rw [hx] at h'
            simp only
            split
            · exact h'
            · split
              · exact ih _ _ _ h'
              · split
                · exact ih _ _ _ h'
                · split
                  · exact ih _ _ _ h'
                  · split <;> exact ih _ _ _ h'

theorem blockLoopX_pres (hp : Prims c P) (cfg : BlockCfg) :
    ∀ (fuel : Nat) (d : Diag n) (cur before : List Nat) (clean : List Bool), P d →
      P (blockLoopX c cfg fuel d cur before clean).1 := by
  intro fuel
  induction fuel with
  | zero => intro d cur before clean h; simpa [blockLoopX] using h
  | succ fuel ih =>
    intro d cur before clean h
    unfold blockLoopX
    split
    · exact h
    · have h' := blockLevelX_pres hp cfg before (sortNat cur) d [] clean h
      cases hx : blockLevelX c cfg before (sortNat cur) d [] clean with
      | mk d' r =>
        obtain ⟨next, clean', early⟩ := r
        rw [hx] at h'
        simp only
        cases early with
        | some o => exact h'
        | none => exact ih _ _ _ _ h'

theorem expandBlockX_pres (hp : Prims c P) (d : Diag n) (cfg : BlockCfg) (clean : List Bool) (h : P d) :
    P (expandBlockX c d cfg clean).1 :=
  blockLoopX_pres hp cfg _ d _ _ _ h

/-! ### `skip_remaining` -/

theorem skipRemainingWith_pres (hp : Prims c P) (d : Diag n) (mins : List (Space n)) (h : P d) :
    P (skipRemainingWith c d mins).1 := by
  unfold skipRemainingWith
  simp only
  have h1 : ∀ (ms : List (Space n)) (acc : Diag n × List (Nat × Space n)), P acc.1 →
      P (ms.foldl (fun (acc : Diag n × List (Nat × Space n)) m =>
        let r := ensureChild c acc.1 none m
        (Impl.setExp r.1 r.2, acc.2 ++ [(r.2, m)])) acc).1 := by
    intro ms
    induction ms with
    | nil => intro acc ha; exact ha
    | cons m ms ih => intro acc ha; exact ih _ (hp.setExp _ _ (hp.child acc.1 none m ha))
  have hd1 := h1 mins (d, []) h
  generalize (mins.foldl (fun (acc : Diag n × List (Nat × Space n)) m =>
        let r := ensureChild c acc.1 none m
        (Impl.setExp r.1 r.2, acc.2 ++ [(r.2, m)])) (d, [])) = r1 at hd1 ⊢
  have h2 : ∀ (is : List Nat) (acc : Diag n × Nat), P acc.1 →
      P (is.foldl (fun (acc : Diag n × Nat) i =>
        if acc.1.isExp i then acc else
        let sp := acc.1.space i
        let core' := r1.2.foldl (fun (co : SDm.SD (Space n)) im =>
            if im.2.leB sp then { co with edges := co.edges ++ [(i, im.1, im.2)] } else co) acc.1.core
        ({ Impl.setExp { acc.1 with core := core' } i with skipped := i :: acc.1.skipped }, acc.2 + 1)) acc).1 := by
    intro is
    induction is with
    | nil => intro acc ha; exact ha
    | cons i is ih =>
      intro acc ha
      simp only [List.foldl_cons]
      apply ih
      split
      · exact ha
      · simp only
        apply hp.skipped
        apply hp.setExp
        -- the edges to the minimal trap spaces inside the stub are appended one by one
        have h3 : ∀ (ims : List (Nat × Space n)) (d0 : Diag n), P d0 →
            P { d0 with core := ims.foldl (fun (co : SDm.SD (Space n)) im =>
              if im.2.leB (acc.1.space i) then { co with edges := co.edges ++ [(i, im.1, im.2)] } else co) d0.core } := by
          intro ims
          induction ims with
          | nil => intro d0 h0; exact h0
          | cons im ims ih3 =>
            intro d0 h0
            simp only [List.foldl_cons]
            split
            · have := ih3 (addEdge d0 i im.1 im.2) (hp.addEdge d0 i im.1 im.2 h0)
              exact this
            · exact ih3 d0 h0
        exact h3 r1.2 acc.1 ha
  exact h2 _ (r1.1, 0) hd1

/-! ### source-SCC expansion -/

theorem sccAttach_pres (hp : Prims c P) (d dsub : Diag n) (comp : List (Fin n)) (attachAt : Nat) (h : P d) :
    P (sccAttach c d dsub comp attachAt).1 := by
  unfold sccAttach
  split
  · exact h
  · simp only
    apply hp.setExp
    -- nodes
    have h1 : ∀ (ks : List Nat) (acc : Diag n × List Nat × List Nat), P acc.1 →
        P (ks.foldl (fun (acc : Diag n × List Nat × List Nat) k =>
          if k == 0 then (acc.1, acc.2.1 ++ [attachAt], acc.2.2) else
          let ext := unionSp (compPart comp (dsub.space k)) (d.space attachAt)
          let r := ensureChild c acc.1 none ext
          let isMin := dsub.isExp k && (dsub.succs k).isEmpty
          (if isMin then r.1 else Impl.setExp r.1 r.2, acc.2.1 ++ [r.2], if isMin then acc.2.2 ++ [r.2] else acc.2.2)) acc).1 := by
      intro ks
      induction ks with
      | nil => intro acc ha; exact ha
      | cons k ks ih =>
        intro acc ha
        simp only [List.foldl_cons]
        apply ih
        split
        · exact ha
        · simp only
          split
          · exact hp.child _ _ _ ha
          · exact hp.setExp _ _ (hp.child _ _ _ ha)
    have hd1 := h1 (List.range dsub.size) (d, [], []) h
    generalize ((List.range dsub.size).foldl (fun (acc : Diag n × List Nat × List Nat) k =>
          if k == 0 then (acc.1, acc.2.1 ++ [attachAt], acc.2.2) else
          let ext := unionSp (compPart comp (dsub.space k)) (d.space attachAt)
          let r := ensureChild c acc.1 none ext
          let isMin := dsub.isExp k && (dsub.succs k).isEmpty
          (if isMin then r.1 else Impl.setExp r.1 r.2, acc.2.1 ++ [r.2], if isMin then acc.2.2 ++ [r.2] else acc.2.2))
        (d, [], [])) = r1 at hd1 ⊢
    -- edges
    apply foldl_pres _ _ (List.range dsub.size) r1.1 hd1
    intro d0 a h0
    apply foldl_pres _ _ (dsub.succs a) d0 h0
    intro d1 b h1'
    split
    · exact hp.addEdge _ _ _ _ h1'
    · exact h1'

theorem normalStep_pres (hp : Prims c P) (node : Nat) (next : List Nat) (d : Diag n) (h : P d) :
    P (normalStep c node next d).1 := by
  unfold normalStep
  simp only
  split <;> exact hp.expand d node h

theorem sccAttachAll_pres (hp : Prims c P) (sub : Ctx n → Diag n × Outcome) (p : Space n) (node : Nat)
    (comps : List (List (Fin n))) (d : Diag n) (h : P d) : P (sccAttachAll sub c p node comps d).1 := by
  unfold sccAttachAll
  have hfold : ∀ (cs : List (List (Fin n))) (acc : Diag n × List Nat × Bool), P acc.1 →
      P (cs.foldl (fun (acc : Diag n × List Nat × Bool) comp =>
        if !acc.2.2 then acc else
        let r := sub (subCtx c p comp)
        match r.2 with
        | .err => (acc.1, acc.2.1, false)
        | _ =>
          let x := acc.2.1.foldl (fun (a : Diag n × List Nat) at_ =>
            let x := sccAttach c a.1 r.1 comp at_
            (x.1, a.2 ++ x.2)) (acc.1, [])
          (x.1, x.2, true)) acc).1 := by
    intro cs
    induction cs with
    | nil => intro acc ha; exact ha
    | cons comp cs ih =>
      intro acc ha
      simp only [List.foldl_cons]
      apply ih
      split
      · exact ha
      · have hatt : ∀ (ats : List Nat) (a : Diag n × List Nat), P a.1 →
            P (ats.foldl (fun (a : Diag n × List Nat) at_ =>
              let x := sccAttach c a.1 (sub (subCtx c p comp)).1 comp at_
              (x.1, a.2 ++ x.2)) a).1 := by
          intro ats
          induction ats with
          | nil => intro a h0; exact h0
          | cons at_ ats iha => intro a h0; exact iha _ (sccAttach_pres hp a.1 _ comp at_ h0)
        split
        · exact ha
        · exact hatt _ (acc.1, []) ha
  exact hfold comps (d, [node], true) h

theorem sccNode_pres (hp : Prims c P) (sub : Ctx n → Diag n × Outcome) (rank : Fin n → Nat) (d : Diag n)
    (node : Nat) (next : List Nat) (h : P d) : P (sccNode sub c rank d node next).1 := by
  unfold sccNode
  split
  · exact normalStep_pres hp node next d h
  · exact normalStep_pres hp node next d h
  · have hr := sccAttachAll_pres hp sub (d.space node) node (sourceSCCs c.N (d.space node) rank) d h
    simp only
    split
    · exact hr
    · split
      · exact normalStep_pres hp node next _ hr
      · exact hr

theorem sccLevel_pres (hp : Prims c P) (sub : Ctx n → Diag n × Outcome) (rank : Fin n → Nat) :
    ∀ (cur : List Nat) (d : Diag n) (next : List Nat), P d → P (sccLevel sub c rank cur d next).1 := by
  intro cur
  induction cur with
  | nil => intro d next h; simpa [sccLevel] using h
  | cons node rest ih =>
    intro d next h
    unfold sccLevel
    have h' := sccNode_pres hp sub rank d node next h
    cases hx : sccNode sub c rank d node next with
    | mk d' r =>
      obtain ⟨next', okk⟩ := r
      rw [hx] at h'
      simp only
      split
      · exact h'
      · exact ih _ _ h'

theorem sccLoop_pres (hp : Prims c P) (sub : Ctx n → Diag n × Outcome) (rank : Fin n → Nat) :
    ∀ (fuel : Nat) (d : Diag n) (cur : List Nat), P d → P (sccLoop sub c rank fuel d cur).1 := by
  intro fuel
  induction fuel with
  | zero => intro d cur h; simpa [sccLoop] using h
  | succ fuel ih =>
    intro d cur h
    unfold sccLoop
    split
    · exact h
    · have h' := sccLevel_pres hp sub rank (sortNat cur) d [] h
      cases hx : sccLevel sub c rank (sortNat cur) d [] with
      | mk d' r =>
        obtain ⟨next, okk⟩ := r
        rw [hx] at h'
        simp only
        split
        · exact h'
        · exact ih _ _ h'

theorem expandScc_pres (hp : Prims c P) (rank : Fin n → Nat) (fuel : Nat) (d : Diag n) (h : P d) :
    P (expandScc rank fuel c d).1 := by
  cases fuel with
  | zero => simpa [expandScc] using h
  | succ fuel =>
    unfold expandScc
    simp only
    split
    · exact sccLoop_pres hp _ rank _ d _ h
    · split
      · exact h
      · apply sccLoop_pres hp
        apply hp.setExp
        have : ∀ (ms : List (Space n)) (acc : Diag n × List Nat), P acc.1 →
            P (ms.foldl (fun (acc : Diag n × List Nat) m =>
              let x := ensureChild c acc.1 (some 0) m
              (x.1, acc.2 ++ [x.2])) acc).1 := by
          intro ms
          induction ms with
          | nil => intro acc ha; exact ha
          | cons m ms ihm => intro acc ha; exact ihm _ (hp.child acc.1 (some 0) m ha)
        exact this _ (d, []) h

/-! ### instances -/

theorem ensureNode_sgrows (s : SD (Space n)) (p : Space n) : SGrows s (ensureNode s p).1 := by
  unfold ensureNode
  split
  · exact SGrows.refl s
  · exact ⟨List.prefix_append _ _, List.prefix_refl _, List.prefix_append _ _⟩

theorem ensureChild_grows (c : Ctx n) (d : Diag n) (parent : Option Nat) (m : Space n) :
    Grows d (ensureChild c d parent m).1 := by
  have hg := ensureNode_sgrows d.core (perc c.N m)
  unfold ensureChild
  cases parent with
  | none => exact ⟨hg.nodes, hg.edges, fun j hj => getD_of_prefix hg.exp j hj⟩
  | some i =>
    exact ⟨hg.nodes, hg.edges.trans (List.prefix_append _ _), fun j hj => getD_of_prefix hg.exp j hj⟩

theorem setExp_grows (d : Diag n) (i : Nat) : Grows d (Impl.setExp d i) :=
  ⟨List.prefix_refl _, List.prefix_refl _, fun j hj => getD_set_true _ i j hj⟩

theorem addEdge_grows (d : Diag n) (a b : Nat) (m : Space n) : Grows d (addEdge d a b m) :=
  ⟨List.prefix_refl _, List.prefix_append _ _, fun _ h => h⟩

theorem prims_grows (c : Ctx n) (d₀ : Diag n) : Prims c (Grows d₀) where
  expand := fun d i h => h.trans (expandNode_grows c d i)
  child := fun d parent m h => h.trans (ensureChild_grows c d parent m)
  setExp := fun d i h => h.trans (setExp_grows d i)
  addEdge := fun d a b m h => h.trans (addEdge_grows d a b m)
  skipped := fun _ _ h => ⟨h.nodes, h.edges, h.exp⟩

/-- **no operation of any strategy removes anything** (C15, C16): skipping, block expansion with every flag combination
    and every transcript of motif-avoidance verdicts, and source-SCC expansion only add to the diagram they start from -/
theorem all_ops_grow (c : Ctx n) (d : Diag n) :
    (∀ i mins, Grows d (skipToMinimalWith c d i mins).1) ∧
    (∀ mins, Grows d (skipRemainingWith c d mins).1) ∧
    (∀ cfg clean, Grows d (expandBlockX c d cfg clean).1) ∧
    (∀ rank fuel, Grows d (expandScc rank fuel c d).1) :=
  ⟨fun i mins => skipToMinimalWith_pres (prims_grows c d) d i mins (Grows.refl d),
   fun mins => skipRemainingWith_pres (prims_grows c d) d mins (Grows.refl d),
   fun cfg clean => expandBlockX_pres (prims_grows c d) d cfg clean (Grows.refl d),
   fun rank fuel => expandScc_pres (prims_grows c d) rank fuel d (Grows.refl d)⟩

/-! ### second instance: every node space is closed under percolation -/

/-- every node of the diagram is a percolation fixed point -/
def PercClosed (c : Ctx n) (d : Diag n) : Prop := ∀ p ∈ d.core.nodes, perc c.N p = p

theorem ensureNode_percClosed (c : Ctx n) (s : SD (Space n)) (m : Space n)
    (h : ∀ p ∈ s.nodes, perc c.N p = p) : ∀ p ∈ (ensureNode s (perc c.N m)).1.nodes, perc c.N p = p := by
  unfold ensureNode
  split
  · exact h
  · intro p hp
    simp only [List.mem_append, List.mem_singleton] at hp
    rcases hp with hp | rfl
    · exact h p hp
    · exact percolate_idem c.N (constOnOf c.N) m

theorem addMotif_percClosed (c : Ctx n) (i : Nat) (s : SD (Space n)) (m : Space n)
    (h : ∀ p ∈ s.nodes, perc c.N p = p) : ∀ p ∈ (addMotif c.env i s m).nodes, perc c.N p = p := by
  unfold addMotif
  exact ensureNode_percClosed c s m h

theorem prims_percClosed (c : Ctx n) : Prims c (PercClosed c) where
  expand := by
    intro d i h
    unfold PercClosed expandNode expandOneLimited
    simp only
    split
    · split
      · exact h
      · unfold expandOne
        split
        · simp only
          have : ∀ (ms : List (Space n)) (s : SD (Space n)), (∀ p ∈ s.nodes, perc c.N p = p) →
              ∀ p ∈ (ms.foldl (addMotif c.env i) s).nodes, perc c.N p = p := by
            intro ms
            induction ms with
            | nil => intro s hs; exact hs
            | cons m ms ih => intro s hs; exact ih _ (addMotif_percClosed c i s m hs)
          exact this _ d.core h
        · exact h
    · exact h
  child := by
    intro d parent m h
    unfold PercClosed ensureChild
    have := ensureNode_percClosed c d.core m h
    cases parent <;> exact this
  setExp := fun _ _ h => h
  addEdge := fun _ _ _ _ h => h
  skipped := fun _ _ h => h

/-- **every node any operation of any strategy creates is closed under percolation** -/
theorem all_ops_perc_closed (c : Ctx n) (d : Diag n) (h : PercClosed c d) :
    (∀ op, PercClosed c (runOp c d op)) ∧
    (∀ i mins, PercClosed c (skipToMinimalWith c d i mins).1) ∧
    (∀ mins, PercClosed c (skipRemainingWith c d mins).1) ∧
    (∀ cfg clean, PercClosed c (expandBlockX c d cfg clean).1) ∧
    (∀ rank fuel, PercClosed c (expandScc rank fuel c d).1) :=
  ⟨fun op => runOp_pres c _ (prims_percClosed c).expand d op h,
   fun i mins => skipToMinimalWith_pres (prims_percClosed c) d i mins h,
   fun mins => skipRemainingWith_pres (prims_percClosed c) d mins h,
   fun cfg clean => expandBlockX_pres (prims_percClosed c) d cfg clean h,
   fun rank fuel => expandScc_pres (prims_percClosed c) rank fuel d h⟩

theorem init_percClosed (N : Net n) (L : Nat) : PercClosed (Ctx.mk' N L) (initDiag (Ctx.mk' N L)) := by
  intro p hp
  simp only [initDiag, SDm.init, List.mem_singleton] at hp
  subst hp
  exact percolate_idem N (constOnOf N) _

end Balm.Props.C04
