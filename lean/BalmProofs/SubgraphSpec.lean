import Balm.Impl.Judge
import Mathlib.Data.List.Nodup
import Mathlib.Data.List.Basic
/-!
# `is_subgraph` computes its specification (C20)

`isSubgraph` mirrors the code of `SuccessionDiagram.is_subgraph` (look the node up in the other
diagram by its key, compare successor *ids*); `subgraphSpec` is the statement a user relies on (every
expanded node of `a` is a node of `b` and every edge of `a`, as a pair of spaces, is an edge of `b`).
They agree whenever `b` is a well-formed diagram: its node spaces are pairwise distinct, unexpanded
nodes have no out-edges, and edges connect existing nodes – all three are clauses of the strict
invariant (`judgeStrict`) that the real dump is checked against in the same run.
-/
namespace Balm.Impl

open Balm

variable {n : Nat}

theorem Dump.space_of_lt (d : Dump n) {i : Nat} (h : i < d.nodes.length) :
    d.space i = (d.nodes.map (·.space))[i]'(by simpa using h) := by
  simp [Dump.space, h]

theorem Dump.find_some (d : Dump n) (p : Space n) (oi : Nat) (h : d.find p = some oi) :
    oi < d.nodes.length ∧ d.space oi = p ∧ p ∈ d.nodes.map (·.space) := by
  unfold Dump.find at h
  simp only at h
  split at h
  · rename_i hlt
    cases h
    have hlt' : List.idxOf p (d.nodes.map (·.space)) < (d.nodes.map (·.space)).length := by simpa using hlt
    refine ⟨hlt, ?_, List.idxOf_lt_length_iff.1 hlt'⟩
    rw [Dump.space_of_lt d hlt]
    exact List.getElem_idxOf hlt'
  · cases h

theorem Dump.find_none (d : Dump n) (p : Space n) (h : d.find p = none) : p ∉ d.nodes.map (·.space) := by
  unfold Dump.find at h
  simp only at h
  split at h
  · cases h
  · rename_i hlt
    intro hmem
    apply hlt
    have := List.idxOf_lt_length_iff.2 hmem
    simpa using this

/-- distinct node spaces: an index is determined by its space -/
theorem Dump.idx_unique (d : Dump n) (hd : (d.nodes.map (·.space)).Nodup) {i j : Nat}
    (hi : i < d.nodes.length) (hj : j < d.nodes.length) (h : d.space i = d.space j) : i = j := by
  rw [Dump.space_of_lt d hi, Dump.space_of_lt d hj] at h
  exact (List.Nodup.getElem_inj_iff hd).1 h

theorem Dump.mem_succ (d : Dump n) (i j : Nat) : j ∈ d.succ i ↔ (i, j) ∈ d.pairs := by
  unfold Dump.succ Dump.pairs
  simp only [List.mem_map, List.mem_filter, beq_iff_eq]
  constructor
  · rintro ⟨e, ⟨he, h1⟩, h2⟩
    exact ⟨e, he, by rw [h1, h2]⟩
  · rintro ⟨e, he, h⟩
    have h1 : e.1 = i := congrArg Prod.fst h
    have h2 : e.2.1 = j := congrArg Prod.snd h
    exact ⟨e, ⟨he, h1⟩, h2⟩

/-- **C20 (`isSubgraph_eq_spec`).** On a well-formed second diagram the algorithm of `is_subgraph`
    decides exactly the sub-diagram relation on spaces. -/
theorem isSubgraph_eq_spec (a b : Dump n)
    (hdist : (b.nodes.map (·.space)).Nodup)
    (hstub : ∀ i, b.isExp i = false → b.succ i = [])
    (hedge : ∀ e ∈ b.pairs, e.1 < b.nodes.length ∧ e.2 < b.nodes.length) :
    isSubgraph a b = subgraphSpec a b := by
  unfold isSubgraph subgraphSpec
  congr 1
  funext i
  cases hexp : a.isExp i
  · simp
  · simp only [Bool.not_true, Bool.false_or]
    cases hf : b.find (a.space i) with
    | none =>
      have := Dump.find_none b _ hf
      have hc : (b.nodes.map (·.space)).contains (a.space i) = false := by
        rw [Bool.eq_false_iff]; intro h; exact this (by simpa using h)
      simp only
      rw [hc]
      simp
    | some oi =>
      obtain ⟨hoi, hsp, hmem⟩ := Dump.find_some b _ oi hf
      simp only
      have hc : (b.nodes.map (·.space)).contains (a.space i) = true := by simpa using hmem
      rw [hc, Bool.true_and]
      congr 1
      funext s
      cases hfs : b.find (a.space s) with
      | none =>
        have hnot := Dump.find_none b _ hfs
        simp only
        symm
        rw [Bool.eq_false_iff]
        intro hany
        obtain ⟨e, he, hcond⟩ := List.any_eq_true.1 hany
        simp only [Bool.and_eq_true, beq_iff_eq] at hcond
        apply hnot
        rw [← hcond.2, Dump.space_of_lt b (hedge e he).2]
        exact List.getElem_mem _
      | some os =>
        obtain ⟨hos, hsps, _⟩ := Dump.find_some b _ os hfs
        simp only
        apply Bool.eq_iff_iff.2
        constructor
        · intro hcont
          have hin : os ∈ (if b.isExp oi = true then b.succ oi else []) := by simpa using hcont
          split at hin
          · apply List.any_eq_true.2
            refine ⟨(oi, os), (Dump.mem_succ b oi os).1 hin, ?_⟩
            simp [hsp, hsps]
          · cases hin
        · intro hany
          obtain ⟨e, he, hcond⟩ := List.any_eq_true.1 hany
          simp only [Bool.and_eq_true, beq_iff_eq] at hcond
          have h1 : e.1 = oi := Dump.idx_unique b hdist (hedge e he).1 hoi (by rw [hcond.1, hsp])
          have h2 : e.2 = os := Dump.idx_unique b hdist (hedge e he).2 hos (by rw [hcond.2, hsps])
          have hsucc : os ∈ b.succ oi := (Dump.mem_succ b oi os).2 (by rw [← h1, ← h2]; exact he)
          have hexpb : b.isExp oi = true := by
            cases hb : b.isExp oi
            · rw [hstub oi hb] at hsucc; cases hsucc
            · rfl
          simp [hexpb, hsucc]

end Balm.Impl
