import Mathlib.Data.List.Sublists
import Mathlib.Tactic
import Balm.Impl.Control
import BalmProofs.DriversSpec
/-!
# Completeness and minimality of the executable `findDrivers` (C07)

`find_drivers` enumerates variable sets of the pool by ascending size, skips a set when the variables of an
already reported driver are all in it, and otherwise reports every candidate assignment over the set that passes
the acceptance test.  `Gen.result_complete` / `Gen.result_minimal` prove, for any candidate generator whose
candidates over a set use exactly that set, that (1) every accepted candidate over a pool subset within the size
bound is *covered* by a reported driver over a subset of its variables and (2) no reported driver has an accepted
candidate over a strictly smaller pool subset.  `findDrivers_eq_gen` shows that the executable model
`Impl.findDrivers` (the function the real output is compared with literally) is this enumeration, and
`findDrivers_complete` / `findDrivers_minimal` state the result for spaces.
-/
namespace Balm.Impl

open Balm

namespace Gen

variable {ι σ : Type} [DecidableEq ι]

/-- one variable set of the enumeration -/
def step (dm : σ → List ι) (cands : List ι → List σ) (ok : σ → Bool) (found : List σ) (set : List ι) : List σ :=
  if found.any (fun d => (dm d).all set.contains) then found
  else (cands set).foldl (fun f c => if ok c then f ++ [c] else f) found

def result (dm : σ → List ι) (cands : List ι → List σ) (ok : σ → Bool) (pool : List ι) (K : Nat) : List σ :=
  (List.range (K + 1)).foldl (fun found k => (combos pool k).foldl (step dm cands ok) found) []

theorem mem_combos {α : Type} : ∀ (l : List α) (k : Nat) (s : List α), s.Sublist l → s.length = k → s ∈ combos l k
  | l, 0, s, _, hlen => by
    have : s = [] := List.length_eq_zero_iff.1 hlen
    subst this
    cases l <;> simp [combos]
  | [], k+1, s, hs, hlen => by
    have : s = [] := List.sublist_nil.1 hs
    subst this; simp at hlen
  | x :: xs, k+1, s, hs, hlen => by
    simp only [combos, List.mem_append, List.mem_map]
    cases hs with
    | cons _ h => exact Or.inr (mem_combos xs (k+1) s h hlen)
    | cons_cons _ h =>
      rename_i s'
      exact Or.inl ⟨s', mem_combos xs k s' h (by simpa using hlen), rfl⟩

theorem accept_fold (ok : σ → Bool) : ∀ (cs : List σ) (found : List σ) (d : σ),
    d ∈ cs.foldl (fun f c => if ok c then f ++ [c] else f) found ↔ d ∈ found ∨ (d ∈ cs ∧ ok d = true) := by
  intro cs
  induction cs with
  | nil => intro found d; simp
  | cons c cs ih =>
    intro found d
    simp only [List.foldl_cons]
    rw [ih]
    by_cases hc : ok c = true
    · simp only [hc, if_true, List.mem_append, List.mem_cons, List.not_mem_nil, or_false]
      constructor
      · rintro ((h | h) | h)
        · exact Or.inl h
        · subst h; exact Or.inr ⟨Or.inl rfl, hc⟩
        · exact Or.inr ⟨Or.inr h.1, h.2⟩
      · rintro (h | ⟨h | h, hk⟩)
        · exact Or.inl (Or.inl h)
        · exact Or.inl (Or.inr h)
        · exact Or.inr ⟨h, hk⟩
    · simp only [hc, List.mem_cons]
      constructor
      · rintro (h | h)
        · exact Or.inl h
        · exact Or.inr ⟨Or.inr h.1, h.2⟩
      · rintro (h | ⟨h | h, hk⟩)
        · exact Or.inl h
        · subst h; exact absurd hk hc
        · exact Or.inr ⟨h, hk⟩

variable (dm : σ → List ι) (cands : List ι → List σ) (ok : σ → Bool)

def Skip (found : List σ) (set : List ι) : Prop := ∃ d ∈ found, ∀ i ∈ dm d, i ∈ set

theorem skip_iff (found : List σ) (set : List ι) :
    (found.any (fun d => (dm d).all set.contains) = true) ↔ Skip dm found set := by
  simp [Skip, List.any_eq_true, List.all_eq_true]

theorem mem_step (found : List σ) (set : List ι) (d : σ) :
    d ∈ step dm cands ok found set ↔ d ∈ found ∨ (¬ Skip dm found set ∧ d ∈ cands set ∧ ok d = true) := by
  unfold step
  by_cases hs : found.any (fun d => (dm d).all set.contains) = true
  · simp only [hs, if_true]
    have := (skip_iff dm found set).1 hs
    constructor
    · exact Or.inl
    · rintro (h | ⟨h, _⟩)
      · exact h
      · exact absurd this h
  · simp only [hs]
    have hns : ¬ Skip dm found set := fun h => hs ((skip_iff dm found set).2 h)
    simp only [Bool.false_eq_true, if_false]
    rw [accept_fold]
    constructor
    · rintro (h | h)
      · exact Or.inl h
      · exact Or.inr ⟨hns, h⟩
    · rintro (h | ⟨_, h⟩)
      · exact Or.inl h
      · exact Or.inr h

/-- what is known about the list of found drivers -/
structure Inv (pool : List ι) (k m : Nat) (found : List σ) : Prop where
  /-- accepted candidates over sets smaller than `k` are covered -/
  covered : ∀ T, T.Sublist pool → T.length < k → ∀ c ∈ cands T, ok c = true → Skip dm found T
  /-- every found driver is an accepted candidate of some pool subset smaller than `k + 1`, and no smaller pool subset
      inside it has an accepted candidate -/
  minimal : ∀ d ∈ found, ∃ S, S.Sublist pool ∧ S.length < m ∧ d ∈ cands S ∧ ok d = true ∧
    ∀ T, T.Sublist pool → (∀ i ∈ T, i ∈ S) → T.length < S.length → ∀ c ∈ cands T, ok c = false

variable {dm cands ok}

theorem skip_mono {found found' : List σ} (h : ∀ d ∈ found, d ∈ found') {set : List ι} (hs : Skip dm found set) :
    Skip dm found' set := by
  obtain ⟨d, hd, hsub⟩ := hs
  exact ⟨d, h d hd, hsub⟩

/-- the candidates of a set use exactly the set -/
def Exact (dm : σ → List ι) (cands : List ι → List σ) (pool : List ι) : Prop :=
  ∀ S, S.Sublist pool → ∀ c ∈ cands S, (∀ i ∈ dm c, i ∈ S) ∧ (∀ i ∈ S, i ∈ dm c)

theorem level (pool : List ι) (hex : Exact dm cands pool) (k : Nat) :
    ∀ (L : List (List ι)) (found : List σ), (∀ S ∈ L, S.Sublist pool ∧ S.length = k) →
      Inv dm cands ok pool k (k + 1) found →
      (∀ d ∈ found, d ∈ L.foldl (step dm cands ok) found) ∧
      Inv dm cands ok pool k (k + 1) (L.foldl (step dm cands ok) found) ∧
      ∀ S ∈ L, ∀ c ∈ cands S, ok c = true → Skip dm (L.foldl (step dm cands ok) found) S := by
  intro L
  induction L with
  | nil => intro found _ h; exact ⟨fun d h => h, h, fun S hS => by cases hS⟩
  | cons S L ih =>
    intro found hL h
    have hS := hL S List.mem_cons_self
    have hL' : ∀ S' ∈ L, S'.Sublist pool ∧ S'.length = k := fun S' hS' => hL S' (List.mem_cons_of_mem _ hS')
    have hsub : ∀ d ∈ found, d ∈ step dm cands ok found S := fun d hd => (mem_step dm cands ok found S d).2 (Or.inl hd)
    have hinv : Inv dm cands ok pool k (k + 1) (step dm cands ok found S) := by
      refine ⟨fun T hT hlen c hc hok => skip_mono hsub (h.covered T hT hlen c hc hok), ?_⟩
      intro d hd
      rcases (mem_step dm cands ok found S d).1 hd with hd | ⟨hns, hdc, hdok⟩
      · exact h.minimal d hd
      · refine ⟨S, hS.1, by omega, hdc, hdok, ?_⟩
        intro T hT hTS hlen c hc
        by_contra hne
        have hokc : ok c = true := by simpa using hne
        obtain ⟨d', hd', hsub'⟩ := h.covered T hT (by omega) c hc hokc
        exact hns ⟨d', hd', fun i hi => hTS i (hsub' i hi)⟩
    simp only [List.foldl_cons]
    obtain ⟨h1, h2, h3⟩ := ih (step dm cands ok found S) hL' hinv
    refine ⟨fun d hd => h1 d (hsub d hd), h2, ?_⟩
    intro S' hS' c hc hok
    rcases List.mem_cons.1 hS' with rfl | hS'
    · -- the set just processed: skipped (covered by an earlier driver) or the candidate itself was added
      by_cases hsk : Skip dm found S'
      · exact skip_mono (fun d hd => h1 d (hsub d hd)) hsk
      · have : c ∈ step dm cands ok found S' := (mem_step dm cands ok found S' c).2 (Or.inr ⟨hsk, hc, hok⟩)
        exact ⟨c, h1 c this, (hex S' hS.1 c hc).1⟩
    · exact h3 S' hS' c hc hok

theorem result_inv (pool : List ι) (hex : Exact dm cands pool) :
    ∀ K, Inv dm cands ok pool K K ((List.range K).foldl (fun found k => (combos pool k).foldl (step dm cands ok) found) []) := by
  intro K
  induction K with
  | zero =>
    refine ⟨fun T _ hlen => by omega, fun d hd => by cases hd⟩
  | succ K ih =>
    rw [List.range_succ, List.foldl_append]
    simp only [List.foldl_cons, List.foldl_nil]
    obtain ⟨h1, h2, h3⟩ := level pool hex K (combos pool K) _
      (fun S hS => combos_sublist pool K S hS)
      ⟨ih.covered, fun d hd => by
        obtain ⟨S, hS, hlen, rest⟩ := ih.minimal d hd
        exact ⟨S, hS, by omega, rest⟩⟩
    refine ⟨?_, ?_⟩
    · intro T hT hlen c hc hok
      by_cases hk : T.length < K
      · exact h2.covered T hT hk c hc hok
      · exact h3 T (mem_combos pool K T hT (by omega)) c hc hok
    · exact h2.minimal

/-- **completeness**: every accepted candidate over a pool subset within the bound is covered by a reported
    driver whose variables all belong to that subset -/
theorem result_complete (pool : List ι) (hex : Exact dm cands pool) (K : Nat) (T : List ι) (hT : T.Sublist pool)
    (hlen : T.length ≤ K) (c : σ) (hc : c ∈ cands T) (hok : ok c = true) :
    ∃ d ∈ result dm cands ok pool K, ∀ i ∈ dm d, i ∈ T :=
  (result_inv pool hex (K + 1)).covered T hT (by omega) c hc hok

/-- **minimality**: a reported driver is an accepted candidate of a pool subset within the bound, and no strictly
    smaller pool subset inside it has an accepted candidate -/
theorem result_minimal (pool : List ι) (hex : Exact dm cands pool) (K : Nat) (d : σ)
    (hd : d ∈ result dm cands ok pool K) :
    ∃ S, S.Sublist pool ∧ S.length ≤ K ∧ d ∈ cands S ∧ ok d = true ∧
      ∀ T, T.Sublist pool → (∀ i ∈ T, i ∈ S) → T.length < S.length → ∀ c ∈ cands T, ok c = false := by
  obtain ⟨S, hS, hlen, rest⟩ := (result_inv (ok := ok) pool hex (K + 1)).minimal d hd
  exact ⟨S, hS, by omega, rest⟩

end Gen

variable {n : Nat}

/-- candidates of a variable set: the target's own values (internal strategy) or all assignments -/
def candsOf (inner : Space n) (internal : Bool) (set : List (Fin n)) : List (Space n) :=
  if internal then [Vector.ofFn fun i => if set.contains i then inner[i] else none]
  else (assignments set).map spaceOfAssign

def innerOf (assume target : Space n) : Space n :=
  Vector.ofFn fun i => if (assume[i]).isSome then none else target[i]

def poolOf (inner : Space n) (internal : Bool) (forbidden : List (Fin n)) : List (Fin n) :=
  (if internal then dom inner else List.finRange n).filter fun i => !forbidden.contains i

/-- the executable model of `find_drivers` is the generic enumeration -/
theorem findDrivers_eq_gen (N : Net n) (assume target : Space n) (internal : Bool) (bound : Option Nat)
    (forbidden : List (Fin n)) :
    findDrivers N assume target internal bound forbidden =
      Gen.result dom (candsOf (innerOf assume target) internal) (drives N assume target)
        (poolOf (innerOf assume target) internal forbidden) (bound.getD (dom (innerOf assume target)).length) := by
  unfold findDrivers Gen.result poolOf innerOf
  simp only
  congr 1
  funext found size
  congr 1
  funext found set
  unfold Gen.step candsOf
  split
  · rfl
  · cases internal with
    | true => simp
    | false => simp [List.foldl_map]

theorem mem_dom (p : Space n) (i : Fin n) : i ∈ dom p ↔ (p[i]).isSome = true := by
  simp [dom]

theorem dom_nodup (p : Space n) : (dom p).Nodup := (List.nodup_finRange n).filter _

theorem poolOf_nodup (inner : Space n) (internal : Bool) (forbidden : List (Fin n)) :
    (poolOf inner internal forbidden).Nodup := by
  unfold poolOf
  apply List.Nodup.filter
  split
  · exact dom_nodup _
  · exact List.nodup_finRange n

theorem mem_poolOf (inner : Space n) (internal : Bool) (forbidden : List (Fin n)) (i : Fin n) :
    i ∈ poolOf inner internal forbidden ↔ i ∉ forbidden ∧ (internal = true → (inner[i]).isSome = true) := by
  unfold poolOf
  cases internal <;> simp [mem_dom, and_comm]

/-- the fixed variables of a space form a sublist of the pool as soon as they all belong to it -/
theorem dom_sublist_pool (inner : Space n) (internal : Bool) (forbidden : List (Fin n)) (d : Space n)
    (h : ∀ i, (d[i]).isSome = true → i ∈ poolOf inner internal forbidden) :
    (dom d).Sublist (poolOf inner internal forbidden) := by
  have hp : poolOf inner internal forbidden =
      (List.finRange n).filter (fun i => decide (i ∈ poolOf inner internal forbidden)) := by
    apply List.Sublist.eq_of_length_le
    · -- a duplicate-free sublist of finRange in the same order: filter characterisation
      have : (poolOf inner internal forbidden).Sublist (List.finRange n) := by
        unfold poolOf
        split
        · exact (List.filter_sublist).trans List.filter_sublist
        · exact List.filter_sublist
      have h2 := this.filter (fun i => decide (i ∈ poolOf inner internal forbidden))
      rwa [List.filter_eq_self.2 (by intro a ha; simpa using ha)] at h2
    · apply (List.Nodup.subperm ((List.nodup_finRange n).filter _) ?_).length_le
      intro i hi
      simpa using (List.mem_filter.1 hi).2
  rw [hp]
  unfold dom
  apply List.monotone_filter_right
  intro i hi
  simpa using h i (by simpa using hi)

theorem find_assign (vs : List (Fin n)) (f : Fin n → Bool) (i : Fin n) :
    ((vs.map fun v => (v, f v)).find? (fun e => e.1 == i)).map (·.2) = if i ∈ vs then some (f i) else none := by
  induction vs with
  | nil => simp
  | cons v vs ih =>
    simp only [List.map_cons, List.find?_cons, List.mem_cons]
    by_cases hv : v = i
    · subst hv; simp
    · have : (v == i) = false := by simpa using hv
      simp only [this, ih]
      have : (i = v) = False := by simp; exact fun e => hv e.symm
      simp [this]

theorem assignments_complete (f : Fin n → Bool) : ∀ vs : List (Fin n), (vs.map fun v => (v, f v)) ∈ assignments vs
  | [] => by simp [assignments]
  | v :: vs => by
    simp only [assignments, List.map_cons, List.mem_flatMap, List.mem_map]
    exact ⟨f v, by cases f v <;> simp, _, assignments_complete f vs, rfl⟩

/-- a space is the assignment of its own values to its own fixed variables -/
theorem spaceOfAssign_dom (d : Space n) :
    spaceOfAssign ((dom d).map fun v => (v, (d[v]).getD false)) = d := by
  apply Vector.ext
  intro i hi
  have := find_assign (dom d) (fun v => (d[v]).getD false) ⟨i, hi⟩
  simp only [spaceOfAssign]
  rw [Vector.getElem_ofFn]
  rw [this]
  by_cases hd : (⟨i, hi⟩ : Fin n) ∈ dom d
  · simp only [hd, if_true]
    have := (mem_dom d ⟨i, hi⟩).1 hd
    obtain ⟨b, hb⟩ := Option.isSome_iff_exists.1 this
    have hb' : d[i] = some b := hb
    simp [hb']
  · simp only [hd, if_false]
    have : ¬ ((d[(⟨i, hi⟩ : Fin n)]).isSome = true) := fun h => hd ((mem_dom d _).2 h)
    have h2 : d[i] = none := by
      cases hx : d[i] with
      | none => rfl
      | some b => exact absurd (by simp [hx] : (d[(⟨i, hi⟩ : Fin n)]).isSome = true) this
    exact h2.symm

theorem exact_candsOf (inner : Space n) (internal : Bool) (forbidden : List (Fin n)) :
    Gen.Exact dom (candsOf inner internal) (poolOf inner internal forbidden) := by
  intro S hS c hc
  unfold candsOf at hc
  cases internal with
  | true =>
    simp only [if_true, List.mem_singleton] at hc
    subst hc
    constructor
    · intro i hi
      have := (mem_dom _ i).1 hi
      rw [ofFn_get] at this
      by_cases hc : i ∈ S
      · exact hc
      · simp [hc] at this
    · intro i hi
      apply (mem_dom _ i).2
      rw [ofFn_get]
      have hin : i ∈ poolOf inner true forbidden := hS.subset hi
      have := ((mem_poolOf inner true forbidden i).1 hin).2 rfl
      simp only [List.contains_iff_mem, hi, if_true]
      simpa using this
  | false =>
    simp only [Bool.false_eq_true, if_false, List.mem_map] at hc
    obtain ⟨a, ha, rfl⟩ := hc
    have hfst := assignments_fst S a ha
    constructor
    · intro i hi
      have := dom_spaceOfAssign_sub a i ((mem_dom _ i).1 hi)
      rwa [hfst] at this
    · intro i hi
      apply (mem_dom _ i).2
      simp only [spaceOfAssign, ofFn_get, Option.isSome_map]
      rw [List.find?_isSome]
      have : i ∈ a.map (·.1) := by rw [hfst]; exact hi
      obtain ⟨x, hx, hxi⟩ := List.mem_map.1 this
      exact ⟨x, hx, by simpa using hxi⟩

/-- admissible driver assignment of a query: only pool variables; with the internal strategy the target's values -/
structure Admissible (assume target : Space n) (internal : Bool) (forbidden : List (Fin n)) (d : Space n) : Prop where
  inPool : ∀ i, (d[i]).isSome = true → i ∈ poolOf (innerOf assume target) internal forbidden
  values : internal = true → ∀ i : Fin n, (d[i]).isSome = true → d[i] = (innerOf assume target)[i]

theorem admissible_cand (assume target : Space n) (internal : Bool) (forbidden : List (Fin n)) (d : Space n)
    (h : Admissible assume target internal forbidden d) : d ∈ candsOf (innerOf assume target) internal (dom d) := by
  unfold candsOf
  cases internal with
  | true =>
    simp only [if_true, List.mem_singleton]
    apply Vector.ext
    intro i hi
    rw [Vector.getElem_ofFn]
    by_cases hd : (d[(⟨i, hi⟩ : Fin n)]).isSome = true
    · have hm : (dom d).contains (⟨i, hi⟩ : Fin n) = true := by simpa using (mem_dom d _).2 hd
      simp only [hm, if_true]
      exact h.values rfl ⟨i, hi⟩ hd
    · have hm : (dom d).contains (⟨i, hi⟩ : Fin n) = false := by
        simpa using fun hh => hd ((mem_dom d _).1 hh)
      simp only [hm]
      cases hx : d[i] with
      | none => simp
      | some b => exact absurd (by simp [hx] : (d[(⟨i, hi⟩ : Fin n)]).isSome = true) hd
  | false =>
    simp only [Bool.false_eq_true, if_false, List.mem_map]
    exact ⟨_, assignments_complete (fun v => (d[v]).getD false) (dom d), spaceOfAssign_dom d⟩

/-- **C07, completeness of the model of `find_drivers`**: every admissible assignment within the size bound
    that passes the acceptance test is covered by a reported driver over a subset of its variables. -/
theorem findDrivers_complete (N : Net n) (assume target : Space n) (internal : Bool) (bound : Option Nat)
    (forbidden : List (Fin n)) (d : Space n) (hadm : Admissible assume target internal forbidden d)
    (hsize : (dom d).length ≤ bound.getD (dom (innerOf assume target)).length)
    (hdr : drives N assume target d = true) :
    ∃ d' ∈ findDrivers N assume target internal bound forbidden, ∀ i : Fin n, (d'[i]).isSome = true → (d[i]).isSome = true := by
  rw [findDrivers_eq_gen]
  obtain ⟨d', hd', hsub⟩ := Gen.result_complete (ok := drives N assume target) _
    (exact_candsOf (innerOf assume target) internal forbidden) _ (dom d)
    (dom_sublist_pool _ internal forbidden d hadm.inPool) hsize d (admissible_cand assume target internal forbidden d hadm) hdr
  exact ⟨d', hd', fun i hi => (mem_dom d i).1 (hsub i ((mem_dom d' i).2 hi))⟩

/-- **C07, minimality of the model of `find_drivers`**: no admissible assignment over a strictly smaller set of
    variables of a reported driver passes the acceptance test. -/
theorem findDrivers_minimal (N : Net n) (assume target : Space n) (internal : Bool) (bound : Option Nat)
    (forbidden : List (Fin n)) (d' : Space n) (hd' : d' ∈ findDrivers N assume target internal bound forbidden)
    (d : Space n) (hadm : Admissible assume target internal forbidden d)
    (hsub : ∀ i : Fin n, (d[i]).isSome = true → (d'[i]).isSome = true) (hdr : drives N assume target d = true) :
    ∀ i : Fin n, (d'[i]).isSome = true → (d[i]).isSome = true := by
  rw [findDrivers_eq_gen] at hd'
  have hex := exact_candsOf (innerOf assume target) internal forbidden
  obtain ⟨S, hS, _, hcand, _, hmin⟩ := Gen.result_minimal (ok := drives N assume target) _ hex _ d' hd'
  obtain ⟨h1, h2⟩ := hex S hS d' hcand
  have hTS : ∀ i ∈ dom d, i ∈ S := fun i hi => h1 i ((mem_dom d' i).2 (hsub i ((mem_dom d i).1 hi)))
  have hlen : ¬ (dom d).length < S.length := by
    intro hlt
    have := hmin (dom d) (dom_sublist_pool _ internal forbidden d hadm.inPool) hTS hlt d
      (admissible_cand assume target internal forbidden d hadm)
    rw [hdr] at this; cases this
  have hSnd : S.Nodup := hS.nodup (poolOf_nodup _ _ _)
  have hperm : (dom d).Perm S :=
    (List.Nodup.subperm (dom_nodup d) hTS).perm_of_length_le (by omega)
  intro i hi
  have : i ∈ S := h1 i ((mem_dom d' i).2 hi)
  exact (mem_dom d i).1 (hperm.symm.subset this)


end Balm.Impl

namespace Balm.Impl
/-- non-vacuity: `x0' = x0, x1' = x0`, target `x1 = 1`, strategy "all": the drivers are `x0 = 1` and `x1 = 1`
    (each admissible, each passing the acceptance test, none contained in the other) -/
example :
    let N : Net 2 := ⟨fun i s => if i.val = 0 then s[0] else s[0]⟩
    (findDrivers N (Vector.replicate 2 none) #v[none, some true] false none []).map (fun d => d.toList) =
      [[some true, none], [none, some true]] := by
  decide
end Balm.Impl
