import BalmProofs.SymLoopSpec
import Balm.Concrete
/-!
# "Own attractor" by motifs = "own attractor" by successor spaces (C01, C05, C12)

The candidate loop of `compute_attractors_symbolic` excludes the *stable motifs* on the outgoing edges of a node
(`OwnA … (KOf p motifs)`: the attractor meets no motif), while the partition theorem of C01
(`concrete_exists_unique_own`) and the attractor oracle of the harness speak about the *successor spaces* (the attractor
is not inside `perc m`).  `own_motif_iff_succ` closes the gap: for an attractor inside the node's space and a motif that
is a trap space, "meets the motif", "lies inside the motif" and "lies inside the percolated successor space" are the same.
-/
namespace Balm.Impl

open Balm

variable {n : Nat}

/-- an attractor that meets a trap space lies inside it -/
theorem attr_meets_trap (N : Net n) (A : State n → Prop) (hA : IsAttr N A) (m : Space n) (hm : TrapSpace N m)
    (s : State n) (hs : A s) (hms : m.Mem s) : ∀ t, A t → m.Mem t :=
  fun t ht => hm.reach hms ((hA.2 s hs t).1 ht)

/-- **C01/C05/C12 bridge.** For an attractor `A` and a stable motif `m` (a trap space):
    `A` meets `m`  ⇔  `A ⊆ m`  ⇔  `A ⊆ perc m` (the successor's space). -/
theorem own_motif_iff_succ (N : Net n) (A : State n → Prop) (hA : IsAttr N A) (m : Space n) (hm : TrapSpace N m) :
    (∃ s, A s ∧ m.Mem s) ↔ ∀ s, A s → (perc N m).Mem s := by
  constructor
  · rintro ⟨s, hs, hms⟩
    exact attr_in_percIter N (constOnOf N) n m hm A hA (attr_meets_trap N A hA m hm s hs hms)
  · intro h
    obtain ⟨s, hs⟩ := hA.1
    exact ⟨s, hs, Space.Mem.of_ext (percIter_ext N (constOnOf N) n m) (h s hs)⟩

/-- the own attractors of the candidate loop are exactly the attractors inside the node that lie inside no successor
    space, when every motif is a trap space inside the node's space -/
theorem ownA_iff_succ (N : Net n) (p : Space n) (motifs : List (Space n)) (hm : ∀ m ∈ motifs, TrapSpace N m)
    (A : State n → Prop) (hA : IsAttr N A) (hAp : ∀ s, A s → p.Mem s) :
    OwnA N p (KOf p motifs) A ↔ ∀ m ∈ motifs, ¬ ∀ s, A s → (perc N m).Mem s := by
  constructor
  · rintro ⟨_, _, hno⟩ m hmm hall
    obtain ⟨s, hs, hms⟩ := (own_motif_iff_succ N A hA m (hm m hmm)).2 hall
    exact hno s hs ⟨hAp s hs, m, hmm, hms⟩
  · intro h
    refine ⟨hA, hAp, ?_⟩
    rintro s hs ⟨_, m, hmm, hms⟩
    exact h m hmm ((own_motif_iff_succ N A hA m (hm m hmm)).1 ⟨s, hs, hms⟩)

end Balm.Impl
