import Balm.Impl.SkipExcl
import BalmProofs.JudgeSpec
/-!
# The contract judges of C15 mean what they say

`judgeTrueComplete d start = none` (the verdict `OK`) implies that every node reachable from `start`
along the edges of the dump is expanded; `judgeFalseHasStub d start = none` implies that some
reachable node is unexpanded.
-/
namespace Balm.Impl

open Balm

variable {n : Nat}

theorem closedFrom_reach (d : Dump n) (start : Nat) (S : List Nat) (h : d.closedFrom start S = true)
    (m : Nat) (hr : DReach d start m) : m ∈ S := by
  simp only [Dump.closedFrom, Bool.and_eq_true, List.contains_iff_mem, List.all_eq_true] at h
  obtain ⟨h0, hcl⟩ := h
  have key : ∀ a b, DReach d a b → a ∈ S → b ∈ S := by
    intro a b hab
    induction hab with
    | refl i => exact id
    | step hj _ ih => intro hi; exact ih (by simpa using hcl _ hi _ hj)
  exact key _ _ hr (by simpa using h0)

/-- **C15 (`judgeTrueComplete_sound`).** -/
theorem judgeTrueComplete_sound (d : Dump n) (start : Nat) (h : judgeTrueComplete d start = none)
    (m : Nat) (hr : DReach d start m) : d.isExp m = true := by
  unfold judgeTrueComplete at h
  have hall := (firstSome_none _).1 h
  have h1 := (check_none _ _).1 (hall _ List.mem_cons_self)
  have h2 := (check_none _ _).1 (hall _ (List.mem_cons_of_mem _ List.mem_cons_self))
  have hm := closedFrom_reach d start _ h1 m hr
  exact (List.all_eq_true.1 h2) m hm

/-- every element the work-list collects is reachable -/
theorem reachIds_sound (d : Dump n) (start : Nat) :
    ∀ (fuel : Nat) (fr seen : List Nat), (∀ x ∈ seen, DReach d start x) → (∀ x ∈ fr, DReach d start x) →
      ∀ x ∈ reachIds d.pairs fuel fr seen, DReach d start x := by
  intro fuel
  induction fuel with
  | zero => intro fr seen hs _ x hx; simpa [reachIds] using hs x (by simpa [reachIds] using hx)
  | succ fuel ih =>
    intro fr seen hs hf x hx
    cases fr with
    | nil => exact hs x (by simpa [reachIds] using hx)
    | cons y fr =>
      simp only [reachIds] at hx
      have hy : DReach d start y := hf y List.mem_cons_self
      have hnew : ∀ z ∈ (((d.pairs.filter (·.1 == y)).map (·.2)).eraseDups.filter fun z => !seen.contains z && !fr.contains z),
          DReach d start z := by
        intro z hz
        have hz1 := (List.mem_filter.1 hz).1
        have hz2 : z ∈ (d.pairs.filter (·.1 == y)).map (·.2) := by
          exact List.mem_eraseDups.1 hz1
        obtain ⟨e, he, rfl⟩ := List.mem_map.1 hz2
        obtain ⟨he1, he2⟩ := List.mem_filter.1 he
        have hey : e.1 = y := by simpa using he2
        have hsucc : e.2 ∈ d.succ y := by
          unfold Dump.succ
          unfold Dump.pairs at he1
          obtain ⟨t, ht, rfl⟩ := List.mem_map.1 he1
          exact List.mem_map.2 ⟨t, List.mem_filter.2 ⟨ht, by simpa using hey⟩, rfl⟩
        -- start ↝ y → e.2
        have : ∀ a b c, DReach d a b → c ∈ d.succ b → DReach d a c := by
          intro a b c hab
          induction hab with
          | refl i => intro hc; exact DReach.step hc (DReach.refl _)
          | step hj _ ih => intro hc; exact DReach.step hj (ih hc)
        exact this _ _ _ hy hsucc
      apply ih _ _ ?_ ?_ x hx
      · intro z hz
        rcases List.mem_append.1 hz with hz | hz
        · exact hs z hz
        · exact hnew z hz
      · intro z hz
        rcases List.mem_append.1 hz with hz | hz
        · exact hf z (List.mem_cons_of_mem _ hz)
        · exact hnew z hz

/-- **C15 (`judgeFalseHasStub_sound`).** -/
theorem judgeFalseHasStub_sound (d : Dump n) (start : Nat) (h : judgeFalseHasStub d start = none) :
    ∃ m, DReach d start m ∧ d.isExp m = false := by
  unfold judgeFalseHasStub at h
  have h1 := (check_none _ _).1 h
  obtain ⟨m, hm, hexp⟩ := List.any_eq_true.1 h1
  refine ⟨m, ?_, by simpa using hexp⟩
  exact reachIds_sound d start _ _ _ (by intro x hx; simp at hx; subst hx; exact DReach.refl _)
    (by intro x hx; simp at hx; subst hx; exact DReach.refl _) m hm

end Balm.Impl
