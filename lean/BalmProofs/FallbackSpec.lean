import BalmProofs.JudgeSpec
import Balm.Impl.SymLoop
/-!
# The symbolic fallback computes the own attractors of a node (C12)

`fallback_eq_own`: for every network, trap space `p` and family of successor trap spaces, the attractors inside the
region the fallback searches - the states of `p` outside the successor spaces from which no successor space can be
reached - are exactly the attractors inside `p` that are inside no successor space (`ownAttrs`, the set the default
method reports).  So "fallback = default" is a theorem about the two specifications; the tie compares the real
fallback with `fallbackAttrs` and the real default method with the attractor oracle.
-/
namespace Balm.Impl

open Balm

variable {n : Nat}

theorem mem_fallbackRegion (N : Net n) (p : Space n) (succ : List (Space n)) (s : State n) :
    s ∈ fallbackRegion N p succ ↔ p.Mem s ∧ ∀ t, Reach N s t → ∀ q ∈ succ, ¬ q.Mem t := by
  unfold fallbackRegion
  simp only [List.mem_filter, mem_statesOf, Bool.and_eq_true, Bool.not_eq_true', List.any_eq_false, mem_reachSet]
  constructor
  · rintro ⟨hp, _, h2⟩
    refine ⟨hp, fun t ht q hq hm => ?_⟩
    have h3 := h2 t ht
    have : (succ.any fun q => q.memB t) = true :=
      List.any_eq_true.2 ⟨q, hq, (Space.memB_iff q t).2 hm⟩
    exact h3 this
  · rintro ⟨hp, h⟩
    refine ⟨hp, fun q hq => ?_, fun t ht hany => ?_⟩
    · intro hb
      exact h s (Reach.refl s) q hq ((Space.memB_iff q s).1 hb)
    · obtain ⟨q, hq, hb⟩ := List.any_eq_true.1 hany
      exact h t ht q hq ((Space.memB_iff q t).1 hb)

/-- **C12: the fallback's region holds exactly the own attractors.** -/
theorem fallback_eq_own (N : Net n) (p : Space n) (succ : List (Space n)) (hsucc : ∀ q ∈ succ, TrapSpace N q)
    (A : List (State n)) :
    A ∈ fallbackAttrs N p succ ↔ A ∈ ownAttrs (attractors N) p succ := by
  unfold fallbackAttrs
  rw [List.mem_filter, mem_ownAttrs]
  simp only [List.all_eq_true, List.contains_iff_mem, mem_fallbackRegion]
  constructor
  · rintro ⟨hA, h⟩
    have hattr := attractors_sound N A hA
    refine ⟨hA, fun s hs => (h s hs).1, fun q hq hall => ?_⟩
    obtain ⟨s, hs⟩ := hattr.1
    exact (h s hs).2 s (Reach.refl s) q hq (hall s hs)
  · rintro ⟨hA, hin, hnot⟩
    have hattr := attractors_sound N A hA
    refine ⟨hA, fun s hs => ⟨hin s hs, fun t ht q hq hqt => ?_⟩⟩
    -- `t` lies in the attractor and in the trap space `q`, hence the whole attractor lies in `q`
    have hAt : t ∈ A := (hattr.2 s hs t).2 ht
    apply hnot q hq
    intro u hu
    exact (hsucc q hq).reach hqt ((hattr.2 t hAt u).1 hu)

end Balm.Impl
