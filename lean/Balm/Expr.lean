import Balm.Perc
/-!
# Update expressions

The syntax of update functions as biobalm receives them from AEON (`BooleanExpression`:
constants, variables, `!`, `&`, `|`, `^`, `<=>`, `=>`, conditional), with a total evaluator.
`Net.ofExprs` turns a vector of expressions into the semantic network (`Net n`) all theorems
of `Balm` are stated about.  The harness sends expressions in prefix notation; the translation
on the Python side is cross-checked against truth tables extracted through AEON's BDDs.
-/
namespace Balm

inductive BExpr where
  | const (b : Bool)
  | var (i : Nat)
  | not (e : BExpr)
  | and (a b : BExpr)
  | or (a b : BExpr)
  | xor (a b : BExpr)
  | iff (a b : BExpr)
  | imp (a b : BExpr)
  | cond (c t e : BExpr)
  deriving Repr, Inhabited

namespace BExpr

/-- total evaluation; a variable index outside the state reads `false` (never produced by the
    harness: every index comes from the network's own variable list) -/
def eval {n : Nat} : BExpr → State n → Bool
  | .const b, _ => b
  | .var i, s => if h : i < n then s[i] else false
  | .not e, s => !(eval e s)
  | .and a b, s => eval a s && eval b s
  | .or a b, s => eval a s || eval b s
  | .xor a b, s => eval a s != eval b s
  | .iff a b, s => eval a s == eval b s
  | .imp a b, s => !(eval a s) || eval b s
  | .cond c t e, s => if eval c s then eval t s else eval e s

/-- variables occurring in the expression (syntactic support) -/
def vars : BExpr → List Nat
  | .const _ => []
  | .var i => [i]
  | .not e => vars e
  | .and a b | .or a b | .xor a b | .iff a b | .imp a b => vars a ++ vars b
  | .cond c t e => vars c ++ vars t ++ vars e

/-- evaluation only looks at the syntactic support -/
theorem eval_congr {n : Nat} (e : BExpr) (s t : State n)
    (h : ∀ i ∈ e.vars, ∀ hi : i < n, s[i] = t[i]) : e.eval s = e.eval t := by
  induction e with
  | const b => rfl
  | var i =>
    simp only [eval]
    split
    · exact h i (by simp [vars]) _
    · rfl
  | not e ih => simp only [eval]; rw [ih (fun i hi => h i (by simpa [vars] using hi))]
  | and a b iha ihb | or a b iha ihb | xor a b iha ihb | iff a b iha ihb | imp a b iha ihb =>
    simp only [eval]
    rw [iha (fun i hi => h i (by simp [vars, hi])), ihb (fun i hi => h i (by simp [vars, hi]))]
  | cond c t e ihc iht ihe =>
    simp only [eval]
    rw [ihc (fun i hi => h i (by simp [vars, hi])), iht (fun i hi => h i (by simp [vars, hi])),
      ihe (fun i hi => h i (by simp [vars, hi]))]

end BExpr

/-- the semantic network of a vector of update expressions -/
def Net.ofExprs {n : Nat} (es : Vector BExpr n) : Net n where
  f := fun i s => (es[i]).eval s

end Balm

namespace Balm

/-- **C17 (equivalent formulas).** Two vectors of update expressions that evaluate equally on every
    state denote the *same* semantic network – so everything the model computes from the network
    (percolation, trap spaces, diagram, attractors, control) is identical for them. -/
theorem Net.ofExprs_congr {n : Nat} (es es' : Vector BExpr n)
    (h : ∀ (i : Fin n) (s : State n), (es[i]).eval s = (es'[i]).eval s) :
    Net.ofExprs es = Net.ofExprs es' := by
  unfold Net.ofExprs
  congr
  funext i s
  exact h i s

/-- e.g. De Morgan and double negation do not change the network -/
example : Net.ofExprs (n := 2) #v[.not (.or (.not (.var 0)) (.not (.var 1))), .not (.not (.var 0))]
    = Net.ofExprs #v[.and (.var 0) (.var 1), .var 0] := by
  apply Net.ofExprs_congr
  intro i s
  match i with
  | ⟨0, _⟩ => simp [BExpr.eval]
  | ⟨1, _⟩ => simp [BExpr.eval]

end Balm
