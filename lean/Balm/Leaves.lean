import Balm.Partition
namespace Balm.Partition

variable {σ : Type} (E : PEnv σ)

/-- a minimal trap space of the network, seen abstractly: good, relevant, inside the root,
    and nothing good and relevant strictly inside it -/
structure IsMinTrap (T : σ) : Prop where
  good : E.good T
  rel : E.rel T
  in_root : E.le T E.root
  minimal : ∀ U, E.good U → E.rel U → E.le U T → U = T

/-- descending from any node above a good relevant space reaches that space as a node -/
theorem node_of_good_below (T : σ) (hT : E.good T) (hr : E.rel T) :
    ∀ p, Node E p → E.le T p → Node E T := by
  intro p
  induction p using E.wf.induction with
  | _ p ih =>
    intro hp hle
    by_cases heq : T = p
    · rw [heq]; exact hp
    · obtain ⟨c, hc, hlc⟩ := E.cover p T hp.good hT hr hle heq
      exact ih c (E.child_le p c hp.good hc) (Node.child hp hc) hlc

/-- **C02/C03 core.** In the fully expanded diagram the nodes without successors are exactly the
    minimal trap spaces of the network (given that successors of a node are relevant – they fix
    every identity input – which the root rule guarantees). -/
theorem leaf_iff_minimal (hrel : ∀ p c, Node E p → c ∈ E.children p → E.rel c)
    (hrootrel : E.children E.root = [] → E.rel E.root) (T : σ) :
    (Node E T ∧ E.children T = []) ↔ (IsMinTrap E T) := by
  constructor
  · rintro ⟨hn, hleaf⟩
    have hrelT : E.rel T := by
      cases hn with
      | root => exact hrootrel hleaf
      | child hp hc => exact hrel _ _ hp hc
    have hle_root : ∀ q, Node E q → E.le q E.root ∨ q = E.root := by
      intro q hq
      induction hq with
      | root => exact Or.inr rfl
      | child hp hc ih =>
        have := (E.child_le _ _ hp.good hc).1
        rcases ih with h | h
        · exact Or.inl (E.le_trans this h)
        · exact Or.inl (h ▸ this)
    refine ⟨hn.good, hrelT, ?_, ?_⟩
    · rcases hle_root T hn with h | h
      · exact h
      · subst h; exact E.le_refl' E.root
    · intro U hU hUr hUT
      apply Classical.byContradiction
      intro hne
      obtain ⟨c, hc, _⟩ := E.cover T U hn.good hU hUr hUT hne
      rw [hleaf] at hc; cases hc
  · intro hm
    have hnode : Node E T := node_of_good_below E T hm.good hm.rel E.root Node.root hm.in_root
    refine ⟨hnode, ?_⟩
    cases hch : E.children T with
    | nil => rfl
    | cons c cs =>
      exfalso
      have hc : c ∈ E.children T := by rw [hch]; exact List.mem_cons_self
      have hlt := E.child_le T c hm.good hc
      exact hlt.2 (hm.minimal c (E.child_good T c hm.good hc) (hrel T c hnode hc) hlt.1)

end Balm.Partition
