import Balm.Perc
namespace Balm

variable {n : Nat}

/-- the tree of split variables chosen by `optimized_recursive_dnf_generator`
    (which variable is chosen depends on BDD sizes; the theorem holds for every tree) -/
inductive DT (n : Nat) where
  | leaf : DT n
  | node (v : Fin n) (t f : DT n) : DT n

def DT.vars : DT n → List (Fin n)
  | .leaf => []
  | .node v t f => v :: (t.vars ++ f.vars)

/-- a variable is never split twice on a path (the code picks from the support of the restricted BDD) -/
def DT.NoRepeat : DT n → Prop
  | .leaf => True
  | .node v t f => v ∉ t.vars ∧ v ∉ f.vars ∧ t.NoRepeat ∧ f.NoRepeat

def restrict (g : State n → Bool) (v : Fin n) (b : Bool) : State n → Bool :=
  fun s => g (s.set v b)

/-- the recursion stops exactly when the restricted function is constant -/
def DT.Complete : DT n → (State n → Bool) → Prop
  | .leaf, g => ∀ s t, g s = g t
  | .node v t f, g => t.Complete (restrict g v true) ∧ f.Complete (restrict g v false)

def top : Space n := Vector.replicate n none

/-- the generator: cubes of the `True` branch get `v := True`, cubes of the `False` branch `v := False` -/
def dnf (s0 : State n) : DT n → (State n → Bool) → List (Space n)
  | .leaf, g => if g s0 then [top] else []
  | .node v t f, g =>
    (dnf s0 t (restrict g v true)).map (fun c => c.set v (some true)) ++
    (dnf s0 f (restrict g v false)).map (fun c => c.set v (some false))

theorem top_mem (s : State n) : (top : Space n).Mem s := by
  intro i b h; simp [top] at h

/-- cubes only mention split variables -/
theorem dnf_vars (s0 : State n) : ∀ (T : DT n) (g : State n → Bool) (c : Space n),
    c ∈ dnf s0 T g → ∀ (j : Fin n), j ∉ T.vars → c[j] = none
  | .leaf, g, c, hc, j, _ => by
    simp only [dnf] at hc
    split at hc
    · simp at hc; subst hc; simp [top]
    · simp at hc
  | .node v t f, g, c, hc, j, hj => by
    simp only [DT.vars, List.mem_cons, List.mem_append, not_or] at hj
    simp only [dnf, List.mem_append, List.mem_map] at hc
    have hjv : v.val ≠ j.val := fun h => hj.1 (Fin.ext h.symm)
    rcases hc with ⟨c', hc', rfl⟩ | ⟨c', hc', rfl⟩
    · have := dnf_vars s0 t _ c' hc' j hj.2.1
      show (c'.set v (some true))[j.val] = none
      rw [Vector.getElem_set_ne _ _ hjv]; exact this
    · have := dnf_vars s0 f _ c' hc' j hj.2.2
      show (c'.set v (some false))[j.val] = none
      rw [Vector.getElem_set_ne _ _ hjv]; exact this

/-- membership in a cube with one more literal -/
theorem mem_set (c : Space n) (v : Fin n) (b : Bool) (hv : c[v] = none) (s : State n) :
    Space.Mem (c.set v (some b)) s ↔ s[v] = b ∧ c.Mem s := by
  constructor
  · intro h
    refine ⟨h v b (by show (c.set v (some b))[v.val] = some b; simp), ?_⟩
    intro j b' hj
    have hjv : v.val ≠ j.val := by
      intro hh
      have : j = v := Fin.ext hh.symm
      subst this; rw [hv] at hj; cases hj
    apply h j b'
    show (c.set v (some b))[j.val] = some b'
    rw [Vector.getElem_set_ne _ _ hjv]; exact hj
  · rintro ⟨hsv, hc⟩ j b' hj
    by_cases hjv : j = v
    · subst hjv
      have : (c.set j (some b))[j.val] = some b := by simp
      have hj' : (c.set j (some b))[j.val] = some b' := hj
      rw [this] at hj'; cases hj'; exact hsv
    · have hne : v.val ≠ j.val := fun hh => hjv (Fin.ext hh.symm)
      have hj' : (c.set v (some b))[j.val] = some b' := hj
      rw [Vector.getElem_set_ne _ _ hne] at hj'
      exact hc j b' hj'

theorem set_self (s : State n) (v : Fin n) : s.set v s[v] = s := by
  apply Vector.ext
  intro i hi
  by_cases h : v.val = i
  · subst h; simp
  · rw [Vector.getElem_set_ne _ _ h]

/-- **C10 core (`dnf_correct`).** For every complete split tree without repeated variables the
    generated cubes are satisfied exactly by the models of the function. -/
theorem dnf_correct (s0 : State n) : ∀ (T : DT n) (g : State n → Bool), T.NoRepeat → T.Complete g →
    ∀ s, (∃ c ∈ dnf s0 T g, c.Mem s) ↔ g s = true
  | .leaf, g, _, hc, s => by
    simp only [dnf]
    have hs : g s = g s0 := hc s s0
    split
    · rename_i h
      simp only [List.mem_singleton, exists_eq_left]
      exact ⟨fun _ => hs ▸ h, fun _ => top_mem s⟩
    · rename_i h
      simp only [List.not_mem_nil, false_and, exists_false, false_iff]
      rw [hs]; exact h
  | .node v t f, g, hnr, hc, s => by
    obtain ⟨hvt, hvf, hnt, hnf⟩ := hnr
    obtain ⟨hct, hcf⟩ := hc
    have iht := dnf_correct s0 t (restrict g v true) hnt hct s
    have ihf := dnf_correct s0 f (restrict g v false) hnf hcf s
    simp only [dnf, List.mem_append, List.mem_map]
    constructor
    · rintro ⟨c, (⟨c', hc', rfl⟩ | ⟨c', hc', rfl⟩), hm⟩
      · have hv := dnf_vars s0 t _ c' hc' v hvt
        obtain ⟨hsv, hcm⟩ := (mem_set c' v true hv s).1 hm
        have := iht.1 ⟨c', hc', hcm⟩
        simp only [restrict] at this
        have e : s.set v true = s := by have e' := set_self s v; rw [hsv] at e'; exact e'
        rw [e] at this; exact this
      · have hv := dnf_vars s0 f _ c' hc' v hvf
        obtain ⟨hsv, hcm⟩ := (mem_set c' v false hv s).1 hm
        have := ihf.1 ⟨c', hc', hcm⟩
        simp only [restrict] at this
        have e : s.set v false = s := by have e' := set_self s v; rw [hsv] at e'; exact e'
        rw [e] at this; exact this
    · intro hg
      cases hsv : s[v] with
      | true =>
        have : restrict g v true s = true := by
          have e : s.set v true = s := by have e' := set_self s v; rw [hsv] at e'; exact e'
          simp only [restrict]; rw [e]; exact hg
        obtain ⟨c', hc', hcm⟩ := iht.2 this
        have hv := dnf_vars s0 t _ c' hc' v hvt
        exact ⟨_, Or.inl ⟨c', hc', rfl⟩, (mem_set c' v true hv s).2 ⟨hsv, hcm⟩⟩
      | false =>
        have : restrict g v false s = true := by
          have e : s.set v false = s := by have e' := set_self s v; rw [hsv] at e'; exact e'
          simp only [restrict]; rw [e]; exact hg
        obtain ⟨c', hc', hcm⟩ := ihf.2 this
        have hv := dnf_vars s0 f _ c' hc' v hvf
        exact ⟨_, Or.inr ⟨c', hc', rfl⟩, (mem_set c' v false hv s).2 ⟨hsv, hcm⟩⟩

end Balm
