namespace Balm.AttrTerm

/-- what termination of the repaired `symbolic_attractor_test` needs to know about one pass of its
    main loop. `μ` = (unsaturated variables) + (states outside `reach_set`) + (states outside `avoid`);
    `pass s force` = one iteration of `while not all_done`, returning the new state and `all_done`. -/
structure PassSpec (S : Type) where
  μ : S → Nat
  pass : S → Bool → S × Bool
  /-- sets only grow -/
  mono : ∀ s f, μ (pass s f).1 ≤ μ s
  /-- the repair: when the size heuristic is overridden, a pass that is not the last one grows
      something (some saturated variable has a successor outside `reach_set` and is now taken,
      or `avoid` grows, or a variable is promoted) -/
  forced : ∀ s, (pass s true).2 = false → μ (pass s true).1 < μ s

variable {S : Type}

/-- the repaired main loop: after a pass that changed nothing, the next pass ignores the heuristic -/
def loop (P : PassSpec S) : Nat → S → Bool → Option S
  | 0, _, _ => none
  | n+1, s, f =>
    if (P.pass s f).2 then some (P.pass s f).1
    else loop P n (P.pass s f).1 (decide (P.μ (P.pass s f).1 = P.μ s))

/-- **C13 core for F5.** `2·μ + 2` passes always suffice: the repaired loop terminates, whatever the
    size heuristic answers. (The unrepaired loop is the same without the `force` flag; a pass that
    declines growth and changes nothing then repeats forever – the observed livelock.) -/
theorem loop_terminates (P : PassSpec S) :
    ∀ (n : Nat) (s : S) (f : Bool), 2 * P.μ s + (if f then 1 else 2) ≤ n → (loop P n s f).isSome := by
  intro n
  induction n with
  | zero => intro s f h; cases f <;> simp at h
  | succ n ih =>
    intro s f h
    simp only [loop]
    split
    · simp
    · rename_i hnd
      have hnd' : (P.pass s f).2 = false := by simpa using hnd
      apply ih
      have hm := P.mono s f
      cases f with
      | true =>
        have hlt := P.forced s hnd'
        have hne : P.μ (P.pass s true).1 ≠ P.μ s := by omega
        simp only [hne, decide_false] at *
        simp at h ⊢; omega
      | false =>
        by_cases heq : P.μ (P.pass s false).1 = P.μ s
        · simp only [heq, decide_true]
          simp at h ⊢; omega
        · simp only [heq, decide_false]
          simp at h ⊢; omega

end Balm.AttrTerm
