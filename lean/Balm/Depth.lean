namespace Balm.Depth

/-- `Path E u v k`: a path of `k` edges from `u` to `v` -/
inductive Path (E : List (Nat × Nat)) : Nat → Nat → Nat → Prop
  | nil (u : Nat) : Path E u u 0
  | snoc {u w v k} : Path E u w k → (w, v) ∈ E → Path E u v (k+1)

/-- local (Bellman) conditions kept by the repaired depth update -/
structure Local (E : List (Nat × Nat)) (δ : Nat → Nat) : Prop where
  d1 : ∀ u v, (u, v) ∈ E → δ u + 1 ≤ δ v
  d2 : ∀ v, δ v = 0 ∨ ∃ u, (u, v) ∈ E ∧ δ v = δ u + 1

theorem path_le {E δ} (h : Local E δ) {u v k} (p : Path E u v k) : δ u + k ≤ δ v := by
  induction p with
  | nil => simp
  | snoc _ he ih => have := h.d1 _ _ he; omega

theorem path_attained {E δ} (h : Local E δ) : ∀ d v, δ v = d → ∃ u, δ u = 0 ∧ Path E u v d := by
  intro d
  induction d with
  | zero => intro v hv; exact ⟨v, hv, Path.nil v⟩
  | succ d ih =>
    intro v hv
    rcases h.d2 v with h0 | ⟨x, hx, hvx⟩
    · omega
    · obtain ⟨u, hu, p⟩ := ih x (by omega)
      exact ⟨u, hu, Path.snoc p hx⟩

/-- **C20 core (static part).** If the local conditions hold and the root is the only node of depth 0
    (every other node has an incoming edge), then `δ v` is the length of the longest path from the
    root to `v`: there is a root path of that length and no root path is longer. -/
theorem depth_is_longest {E δ} (h : Local E δ) (root : Nat)
    (honly : ∀ u, δ u = 0 → u = root) (v : Nat) :
    Path E root v (δ v) ∧ ∀ k, Path E root v k → k ≤ δ v := by
  constructor
  · obtain ⟨u, hu, p⟩ := path_attained h (δ v) v rfl
    rw [honly u hu] at p; exact p
  · intro k p
    have := path_le h p; omega

end Balm.Depth

namespace Balm.Depth

/-- every positive depth is justified by some incoming edge (monotone under relaxation) -/
def Justified (E : List (Nat × Nat)) (δ : Nat → Nat) : Prop :=
  ∀ v, δ v = 0 ∨ ∃ u, (u, v) ∈ E ∧ δ v ≤ δ u + 1

/-- one relaxation: an edge `(x, y)` with `δ y < δ x + 1` raises `y` to `δ x + 1` -/
inductive Step (E : List (Nat × Nat)) : (Nat → Nat) → (Nat → Nat) → Prop
  | relax (δ : Nat → Nat) (x y : Nat) : (x, y) ∈ E → δ y < δ x + 1 →
      Step E δ (fun w => if w = y then δ x + 1 else δ w)

inductive Steps (E : List (Nat × Nat)) : (Nat → Nat) → (Nat → Nat) → Prop
  | refl (δ) : Steps E δ δ
  | tail {δ δ' δ''} : Steps E δ δ' → Step E δ' δ'' → Steps E δ δ''

theorem Step.mono {E δ δ'} (h : Step E δ δ') : ∀ w, δ w ≤ δ' w := by
  cases h with
  | relax x y _ hlt =>
    intro w
    by_cases hw : w = y
    · subst hw; simp; omega
    · simp [hw]

theorem Step.justified {E δ δ'} (hacyc : ∀ x, (x, x) ∉ E) (h : Step E δ δ') (hj : Justified E δ) :
    Justified E δ' := by
  cases h with
  | relax x y he hlt =>
    intro v
    by_cases hv : v = y
    · subst hv
      right
      refine ⟨x, he, ?_⟩
      have hxy : x ≠ v := fun hh => hacyc v (hh ▸ he)
      simp [hxy]
    · rcases hj v with h0 | ⟨u, hu, hle⟩
      · left; simp [hv, h0]
      · right
        refine ⟨u, hu, ?_⟩
        simp only [hv, if_false]
        by_cases huy : u = y
        · subst huy; simp; omega
        · simp [huy]; exact hle

theorem Steps.justified {E δ δ'} (hacyc : ∀ x, (x, x) ∉ E) (h : Steps E δ δ') (hj : Justified E δ) :
    Justified E δ' := by
  induction h with
  | refl => exact hj
  | tail _ hs ih => exact hs.justified hacyc ih

/-- **C20 core (dynamic part).** After adding an edge, ANY sequence of relaxations that ends in a
    state without violated edge re-establishes the local conditions – hence, with
    `depth_is_longest`, depth = longest root path. The repaired `_update_node_depth` is one such
    sequence (a work-list whose pending set contains the sources of all violated edges). -/
theorem relax_to_local {E₀ : List (Nat × Nat)} {δ δ' : Nat → Nat} (e : Nat × Nat)
    (hold : Local E₀ δ) (hacyc : ∀ x, (x, x) ∉ e :: E₀)
    (hrun : Steps (e :: E₀) δ δ')
    (hdone : ∀ u v, (u, v) ∈ e :: E₀ → δ' u + 1 ≤ δ' v) :
    Local (e :: E₀) δ' := by
  have hj0 : Justified (e :: E₀) δ := by
    intro v
    rcases hold.d2 v with h0 | ⟨u, hu, hv⟩
    · exact Or.inl h0
    · exact Or.inr ⟨u, List.mem_cons_of_mem _ hu, by omega⟩
  have hj := hrun.justified hacyc hj0
  refine ⟨hdone, ?_⟩
  intro v
  rcases hj v with h0 | ⟨u, hu, hle⟩
  · exact Or.inl h0
  · exact Or.inr ⟨u, hu, by have := hdone u v hu; omega⟩

end Balm.Depth
