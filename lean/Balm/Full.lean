import Balm.SDm
namespace Balm.SDm

variable {σ : Type} [DecidableEq σ]

/-- every node other than the root was created by an edge from an earlier node -/
def Par (s : SD σ) : Prop :=
  ∀ j, 0 < j → j < s.nodes.length → ∃ e ∈ s.edges, e.2.1 = j ∧ e.1 < j

theorem addMotif_par (E : Env σ) (s : SD σ) (i : Nat) (m : σ) (hi : i < s.nodes.length)
    (h : Par s) : Par (addMotif E i s m) := by
  by_cases hq : E.perc m ∈ s.nodes
  · have hs : addMotif E i s m =
        { s with edges := s.edges ++ [(i, s.nodes.idxOf (E.perc m), m)] } := by
      simp [addMotif, ensureNode, hq]
    rw [hs]
    intro j hj0 hjl
    obtain ⟨e, he, h1, h2⟩ := h j hj0 hjl
    exact ⟨e, List.mem_append_left _ he, h1, h2⟩
  · have hs : addMotif E i s m =
        { nodes := s.nodes ++ [E.perc m], exp := s.exp ++ [false],
          edges := s.edges ++ [(i, s.nodes.length, m)] } := by
      simp [addMotif, ensureNode, hq]
    rw [hs]
    intro j hj0 hjl
    simp only [List.length_append, List.length_singleton] at hjl
    by_cases hj : j < s.nodes.length
    · obtain ⟨e, he, h1, h2⟩ := h j hj0 hj
      exact ⟨e, List.mem_append_left _ he, h1, h2⟩
    · have : j = s.nodes.length := by omega
      subst this
      exact ⟨(i, s.nodes.length, m), List.mem_append_right _ (by simp), rfl, hi⟩

theorem addMotif_len (E : Env σ) (s : SD σ) (i : Nat) (m : σ) :
    s.nodes.length ≤ (addMotif E i s m).nodes.length := by
  by_cases hq : E.perc m ∈ s.nodes
  · simp [addMotif, ensureNode, hq]
  · simp [addMotif, ensureNode, hq]

theorem foldl_par (E : Env σ) (i : Nat) : ∀ (ms : List σ) (s : SD σ), i < s.nodes.length → Par s →
    Par (ms.foldl (addMotif E i) s)
  | [], s, _, h => h
  | m :: ms, s, hi, h => by
    simp only [List.foldl_cons]
    exact foldl_par E i ms _ (Nat.lt_of_lt_of_le hi (addMotif_len E s i m)) (addMotif_par E s i m hi h)

theorem expandOne_par (E : Env σ) (s : SD σ) (i : Nat) (h : Par s) : Par (expandOne E s i) := by
  unfold expandOne
  split
  · rename_i p hp _
    have hi : i < s.nodes.length := (List.getElem?_eq_some_iff.1 hp).1
    exact foldl_par E i (E.maxT p) s hi h
  · exact h

theorem init_par (root : σ) : Par (init root) := by
  intro j h0 hl; simp [init] at hl; omega

/-- the spaces the fully expanded diagram must contain -/
inductive Reachable (E : Env σ) (root : σ) : σ → Prop
  | root : Reachable E root root
  | child {p m} : Reachable E root p → m ∈ E.maxT p → Reachable E root (E.perc m)

/-- **C02 core (`full_is_fullDiagram`, node part).** If the invariant holds, the root is node 0 and
    no node is unexpanded, then the nodes are exactly the spaces reachable from the root by
    "percolation of a stable motif" – the abstract succession diagram. (Edges and motif lists are
    already pinned by the `full` clause of the invariant.) -/
theorem nodes_iff_reachable (E : Env σ) (root : σ) (s : SD σ) (h : Inv E s none) (hp : Par s)
    (hroot : s.nodes[0]? = some root)
    (hall : ∀ i, i < s.nodes.length → s.exp[i]? = some true) :
    ∀ p, p ∈ s.nodes ↔ Reachable E root p := by
  intro p
  constructor
  · intro hpn
    -- by strong induction on the index of `p`
    have key : ∀ (j : Nat) (q : σ), s.nodes[j]? = some q → Reachable E root q := by
      intro j
      induction j using Nat.strongRecOn with
      | _ j ih =>
        intro q hq
        by_cases hj0 : j = 0
        · subst hj0; rw [hroot] at hq; cases hq; exact Reachable.root
        · have hjl : j < s.nodes.length := (List.getElem?_eq_some_iff.1 hq).1
          obtain ⟨e, he, hej, hlt⟩ := hp j (by omega) hjl
          have hel : e.1 < s.nodes.length := h.src_lt e he
          obtain ⟨pp, hpp⟩ : ∃ pp, s.nodes[e.1]? = some pp :=
            ⟨s.nodes[e.1], List.getElem?_eq_getElem hel⟩
          have hrp := ih e.1 hlt pp hpp
          obtain ⟨hout, hmem⟩ := h.full e.1 pp (hall e.1 hel) hpp
          have heo : e ∈ out s e.1 := by simp [out, he]
          rw [hout] at heo
          simp only [want, List.mem_map] at heo
          obtain ⟨m, hm, hem⟩ := heo
          have hidx : s.nodes.idxOf (E.perc m) = j := by rw [← hej, ← hem]
          have hmn := hmem m hm
          have : s.nodes[j]? = some (E.perc m) := by
            rw [← hidx]
            exact List.getElem?_eq_some_iff.2 ⟨List.idxOf_lt_length_of_mem hmn, List.getElem_idxOf _⟩
          rw [hq] at this; cases this
          exact Reachable.child hrp hm
    obtain ⟨j, hj, hjq⟩ := List.getElem_of_mem hpn
    exact key j p (by rw [List.getElem?_eq_getElem hj, hjq])
  · intro hr
    induction hr with
    | root => exact List.mem_of_getElem? hroot
    | @child q m _ hm ih =>
      obtain ⟨j, hj, hjq⟩ := List.getElem_of_mem ih
      have hqj : s.nodes[j]? = some q := by rw [List.getElem?_eq_getElem hj, hjq]
      exact (h.full j q (hall j hj) hqj).2 m hm

end Balm.SDm
