import Balm.Perc2
namespace Balm

/-! Concrete enumeration layer: every `Prop` of `Sem` becomes decidable by listing states and spaces. -/

/-- all vectors of length `n` over a finite alphabet given as a list -/
def allVec {α : Type} (alphabet : List α) : (n : Nat) → List (Vector α n)
  | 0 => [#v[]]
  | n+1 => (allVec alphabet n).flatMap fun v => alphabet.map fun a => v.push a

theorem mem_allVec {α : Type} (alphabet : List α) (hall : ∀ a : α, a ∈ alphabet) :
    ∀ (n : Nat) (v : Vector α n), v ∈ allVec alphabet n
  | 0, v => by
    have : v = #v[] := by
      apply Vector.ext; intro i hi; omega
    simp [allVec, this]
  | n+1, v => by
    simp only [allVec, List.mem_flatMap, List.mem_map]
    refine ⟨v.pop, mem_allVec alphabet hall n v.pop, v.back, hall _, ?_⟩
    simp

def allStates (n : Nat) : List (State n) := allVec [false, true] n
def allSpaces (n : Nat) : List (Space n) := allVec [none, some false, some true] n

theorem mem_allStates {n : Nat} (s : State n) : s ∈ allStates n :=
  mem_allVec _ (by intro a; cases a <;> simp) n s

theorem mem_allSpaces {n : Nat} (p : Space n) : p ∈ allSpaces n :=
  mem_allVec _ (by intro a; rcases a with _ | b; simp; cases b <;> simp) n p

variable {n : Nat}

/-- executable membership test -/
def Space.memB (p : Space n) (s : State n) : Bool :=
  (List.finRange n).all fun i => match p[i] with
    | none => true
    | some b => s[i] == b

theorem Space.memB_iff (p : Space n) (s : State n) : p.memB s = true ↔ p.Mem s := by
  simp only [Space.memB, List.all_eq_true, List.mem_finRange, true_implies]
  constructor
  · intro h i b hi
    have := h i
    rw [hi] at this
    simpa using this
  · intro h i
    cases hp : p[i] with
    | none => rfl
    | some b => simpa using h i b hp

def statesOf (p : Space n) : List (State n) := (allStates n).filter p.memB

theorem mem_statesOf (p : Space n) (s : State n) : s ∈ statesOf p ↔ p.Mem s := by
  simp [statesOf, mem_allStates, Space.memB_iff]

/-- executable three-valued evaluation by enumeration -/
def constOnB (f : State n → Bool) (p : Space n) : Option Bool :=
  match statesOf p with
  | [] => none
  | s :: rest => if rest.all (fun t => f t == f s) then some (f s) else none

theorem constOnB_spec (f : State n → Bool) (p : Space n) (b : Bool) :
    constOnB f p = some b ↔ ∀ s, p.Mem s → f s = b := by
  unfold constOnB
  cases hl : statesOf p with
  | nil =>
    obtain ⟨s, hs⟩ := Space.exists_mem p
    have : s ∈ statesOf p := (mem_statesOf p s).2 hs
    rw [hl] at this; cases this
  | cons s rest =>
    have hmem : ∀ t, p.Mem t ↔ (t = s ∨ t ∈ rest) := by
      intro t; rw [← mem_statesOf, hl]; simp
    by_cases hall : rest.all (fun t => f t == f s) = true
    · simp only [hall, if_true, Option.some.injEq]
      constructor
      · intro hb t ht
        rcases (hmem t).1 ht with rfl | hr
        · exact hb
        · have := (List.all_eq_true.1 hall) t hr
          rw [← hb]; simpa using this
      · intro h
        exact h s ((hmem s).2 (Or.inl rfl))
    · simp only [hall]
      constructor
      · intro h; cases h
      · intro h
        exfalso; apply hall
        apply List.all_eq_true.2
        intro t ht
        have h1 := h t ((hmem t).2 (Or.inr ht))
        have h2 := h s ((hmem s).2 (Or.inl rfl))
        simp [h1, h2]

/-- the executable instance of the abstract constancy oracle of C.3/C.5 -/
def constOnOf (N : Net n) : ConstOn N where
  c := fun i p => constOnB (N.f i) p
  spec := fun i p b => constOnB_spec (N.f i) p b

/-- executable trap-space test -/
def isTrapB (N : Net n) (p : Space n) : Bool :=
  (statesOf p).all fun s => (List.finRange n).all fun i => p.memB (step N s i)

theorem isTrapB_iff (N : Net n) (p : Space n) : isTrapB N p = true ↔ TrapSpace N p := by
  simp only [isTrapB, List.all_eq_true, mem_statesOf, List.mem_finRange, true_implies,
    Space.memB_iff]
  exact Iff.rfl

def trapSpaces (N : Net n) : List (Space n) := (allSpaces n).filter (isTrapB N)

theorem mem_trapSpaces (N : Net n) (p : Space n) : p ∈ trapSpaces N ↔ TrapSpace N p := by
  simp [trapSpaces, mem_allSpaces, isTrapB_iff]

end Balm
