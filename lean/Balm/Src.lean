import Balm.AttC2
namespace Balm

variable {n : Nat} (N : Net n)

/-- identity inputs: the update function of the variable is the variable itself -/
def IsInput (i : Fin n) : Prop := ∀ s : State n, N.f i s = s[i]

theorem input_const_along {i : Fin n} (hi : IsInput N i) {s t : State n} (h : Reach N s t) :
    t[i] = s[i] := by
  induction h with
  | refl => rfl
  | tail j _ ih =>
    rw [step_get]
    by_cases hij : i = j
    · subst hij
      simp only [if_true]
      rw [hi]; exact ih
    · simp [hij, ih]

/-- the subspace fixing one variable -/
def single (i : Fin n) (b : Bool) : Space n := (Vector.replicate n none).set i (some b)

theorem single_get (i j : Fin n) (b : Bool) :
    (single i b)[j] = if j = i then some b else none := by
  unfold single
  by_cases h : j = i
  · subst h; simp
  · have : i.val ≠ j.val := fun hh => h (Fin.ext hh.symm)
    simp [h, Vector.getElem_set_ne, this]

theorem single_trap {i : Fin n} (hi : IsInput N i) (b : Bool) : TrapSpace N (single i b) := by
  intro s hs j k c hk
  rw [single_get] at hk
  by_cases hki : k = i
  · subst hki
    simp only [if_true, Option.some.injEq] at hk
    have hsk : s[k] = b := hs k b (by rw [single_get]; simp)
    rw [← hk, step_get]
    by_cases hkj : k = j
    · subst hkj
      simp only [if_true]
      rw [hi]; exact hsk
    · simp [hkj, hsk]
  · simp [hki] at hk

/-- **discharging `hsrc`:** the least percolated trap space of an attractor fixes every identity input -/
theorem least_fixes_inputs (srcs : List (Fin n)) (hsrcs : ∀ i ∈ srcs, IsInput N i)
    (A : List (State n)) (hA : A ≠ []) (hattr : IsAttr N (fun s => s ∈ A)) :
    FixesAll srcs (perc N (meetAbove N A)) := by
  intro i hi
  obtain ⟨s0, hs0⟩ := List.exists_mem_of_ne_nil A hA
  -- every state of `A` agrees with `s0` on `i`
  have hagree : ∀ s ∈ A, s[i] = s0[i] := by
    intro s hs
    have : Reach N s0 s := (hattr.2 s0 hs0 s).1 hs
    exact input_const_along N (hsrcs i hi) this
  have hab : single i s0[i] ∈ above N A := by
    refine (mem_above N A _).2 ⟨single_trap N (hsrcs i hi) _, ?_⟩
    intro s hs j c hj
    rw [single_get] at hj
    by_cases hji : j = i
    · subst hji; simp at hj; subst hj; exact hagree s hs
    · simp [hji] at hj
  have hm : (meetAbove N A)[i] = some s0[i] :=
    meet_le N A hA _ hab i s0[i] (by rw [single_get]; simp)
  have := perc_le N (meetAbove N A) i s0[i] hm
  simp [this]

end Balm
