import Balm.Enum
import Balm.Perc3
namespace Balm

variable {n : Nat}

/-- `p ⊆ q` as sets of states: `p` fixes everything `q` fixes, to the same value -/
def Space.le (p q : Space n) : Prop := q.Ext p

def Space.leB (p q : Space n) : Bool :=
  (List.finRange n).all fun i => match q[i] with
    | none => true
    | some b => p[i] == some b

theorem Space.leB_iff (p q : Space n) : p.leB q = true ↔ p.le q := by
  simp only [Space.leB, List.all_eq_true, List.mem_finRange, true_implies, Space.le, Space.Ext]
  constructor
  · intro h i b hq
    have := h i; rw [hq] at this; simpa using this
  · intro h i
    cases hq : q[i] with
    | none => rfl
    | some b => simpa using h i b hq

theorem Space.le_refl (p : Space n) : p.le p := Space.Ext.refl p
theorem Space.le_trans {p q r : Space n} (h1 : p.le q) (h2 : q.le r) : p.le r :=
  Space.Ext.trans h2 h1

/-- a strictly smaller space has strictly fewer free variables -/
theorem free_lt_of_le_ne {p q : Space n} (h : p.le q) (hne : p ≠ q) : free p < free q := by
  unfold free
  apply countP_lt_of_imp
  · simp
  · intro i h1 h2 hp
    simp only [Vector.getElem_toList] at hp ⊢
    have hi : i < n := by simpa using h1
    cases hq : q[i] with
    | none => rfl
    | some b =>
      have := h ⟨i, hi⟩ b (by simpa using hq)
      have hp' : p[i] = some b := by simpa using this
      simp [hp'] at hp
  · have : ∃ i, ∃ (hi : i < n), p[i] ≠ q[i] := by
      apply Classical.byContradiction
      intro hcon
      apply hne
      apply Vector.ext
      intro i hi
      apply Classical.byContradiction
      intro hh
      exact hcon ⟨i, hi, hh⟩
    obtain ⟨i, hi, hd⟩ := this
    refine ⟨i, by simpa using hi, by simpa using hi, ?_, ?_⟩
    · simp only [Vector.getElem_toList]
      cases hq : q[i] with
      | none => rfl
      | some b =>
        exfalso; apply hd
        have := h ⟨i, hi⟩ b (by simpa using hq)
        have hp' : p[i] = some b := by simpa using this
        rw [hp', hq]
    · simp only [Vector.getElem_toList]
      cases hp : p[i] with
      | some b => rfl
      | none =>
        exfalso; apply hd
        cases hq : q[i] with
        | none => rw [hp]
        | some b =>
          have := h ⟨i, hi⟩ b (by simpa using hq)
          have hp' : p[i] = some b := by simpa using this
          rw [hp] at hp'; cases hp'

variable (N : Net n)

/-- candidates for stable motifs of the node space `p`: trap spaces strictly inside that fix `srcs` -/
def motifCand (p : Space n) (srcs : List (Fin n)) (q : Space n) : Bool :=
  isTrapB N q && q.leB p && (q != p) && srcs.all (fun i => (q[i]).isSome)

def maxTrapsIn (p : Space n) (srcs : List (Fin n)) : List (Space n) :=
  let cands := (allSpaces n).filter (motifCand N p srcs)
  cands.filter fun q => !(cands.any fun r => (r != q) && q.leB r)

theorem mem_maxTrapsIn (p : Space n) (srcs : List (Fin n)) (m : Space n) :
    m ∈ maxTrapsIn N p srcs ↔
      motifCand N p srcs m = true ∧ ∀ r, motifCand N p srcs r = true → m.le r → r = m := by
  simp only [maxTrapsIn, List.mem_filter, mem_allSpaces, true_and, Bool.not_eq_true',
    List.any_eq_false, Bool.and_eq_true, bne_iff_ne, ne_eq, not_and, Space.leB_iff]
  constructor
  · rintro ⟨hc, hmax⟩
    refine ⟨hc, ?_⟩
    intro r hr hle
    apply Classical.byContradiction
    intro hne
    exact hmax r hr hne hle
  · rintro ⟨hc, hmax⟩
    refine ⟨hc, ?_⟩
    intro r hr hne hle
    exact hne (hmax r hr hle)

/-- **the `cover` ingredient of the partition theorem (C.8):** every candidate lies below a maximal one -/
theorem exists_max_above (p : Space n) (srcs : List (Fin n)) :
    ∀ (k : Nat) (T : Space n), n - free T ≤ k → motifCand N p srcs T = true →
      ∃ m ∈ maxTrapsIn N p srcs, T.le m := by
  intro k
  induction k with
  | zero =>
    intro T hk hT
    -- `free T = n`: nothing can be strictly above `T`
    refine ⟨T, (mem_maxTrapsIn N p srcs T).2 ⟨hT, ?_⟩, Space.le_refl T⟩
    intro r _ hle
    apply Classical.byContradiction
    intro hne
    have h1 := free_lt_of_le_ne hle (fun h => hne h.symm)
    have h2 := free_le r
    omega
  | succ k ih =>
    intro T hk hT
    by_cases hmax : ∀ r, motifCand N p srcs r = true → T.le r → r = T
    · exact ⟨T, (mem_maxTrapsIn N p srcs T).2 ⟨hT, hmax⟩, Space.le_refl T⟩
    · have : ∃ r, motifCand N p srcs r = true ∧ T.le r ∧ r ≠ T := by
        apply Classical.byContradiction
        intro hcon
        apply hmax
        intro r hr hle
        apply Classical.byContradiction
        intro hne
        exact hcon ⟨r, hr, hle, hne⟩
      obtain ⟨r, hr, hle, hne⟩ := this
      have hlt := free_lt_of_le_ne hle (fun h => hne h.symm)
      have hfr := free_le r
      obtain ⟨m, hm, hrm⟩ := ih r (by omega) hr
      exact ⟨m, hm, Space.le_trans hle hrm⟩

end Balm
