namespace Balm

def cell : Option Bool → Nat
  | none => 0
  | some false => 2
  | some true => 3

theorem cell_lt (c : Option Bool) : cell c < 4 := by
  cases c with
  | none => decide
  | some b => cases b <;> decide

theorem cell_inj {a b : Option Bool} (h : cell a = cell b) : a = b := by
  cases a with
  | none => cases b with
    | none => rfl
    | some y => cases y <;> simp [cell] at h
  | some x => cases b with
    | none => cases x <;> simp [cell] at h
    | some y => cases x <;> cases y <;> simp [cell] at h <;> rfl

/-- positional (base-4) reading of a space -/
def keyL : List (Option Bool) → Nat
  | [] => 0
  | c :: cs => cell c + 4 * keyL cs

theorem keyL_inj : ∀ (a b : List (Option Bool)), a.length = b.length → keyL a = keyL b → a = b
  | [], [], _, _ => rfl
  | [], _ :: _, h, _ => by simp at h
  | _ :: _, [], h, _ => by simp at h
  | x :: xs, y :: ys, hl, hk => by
    simp only [keyL] at hk
    have hx := cell_lt x
    have hy := cell_lt y
    have h1 : cell x = cell y := by omega
    have h2 : keyL xs = keyL ys := by omega
    have hl' : xs.length = ys.length := by simpa using hl
    rw [cell_inj h1, keyL_inj xs ys hl' h2]

/-- the code's version: fold with shifts and bit-or over (index, value) items -/
def keyBits (items : List (Nat × Bool)) : Nat :=
  items.foldl (fun k (iv : Nat × Bool) => k ||| (((if iv.2 then 1 else 0) + 2) <<< (2 * iv.1))) 0

example : keyBits [(0, true), (2, false)] = keyL [some true, none, some false] := by decide

end Balm
