import Balm.Perc2
namespace Balm

/-- pointwise-implication counting lemma on lists of equal length -/
theorem countP_le_of_imp {α β : Type} (P : α → Bool) (Q : β → Bool) :
    ∀ (l1 : List α) (l2 : List β), l1.length = l2.length →
      (∀ i (h1 : i < l1.length) (h2 : i < l2.length), Q l2[i] = true → P l1[i] = true) →
      l2.countP Q ≤ l1.countP P
  | [], [], _, _ => by simp
  | [], _ :: _, h, _ => by simp at h
  | _ :: _, [], h, _ => by simp at h
  | a :: l1, b :: l2, hl, himp => by
    have hl' : l1.length = l2.length := by simpa using hl
    have ih := countP_le_of_imp P Q l1 l2 hl' (fun i h1 h2 hq => by
      have := himp (i+1) (by simp; omega) (by simp; omega)
      simpa using this hq)
    have h0 := himp 0 (by simp) (by simp)
    simp only [List.getElem_cons_zero] at h0
    simp only [List.countP_cons]
    cases hq : Q b <;> cases hp : P a <;> simp_all <;> omega

theorem countP_lt_of_imp {α β : Type} (P : α → Bool) (Q : β → Bool) :
    ∀ (l1 : List α) (l2 : List β), l1.length = l2.length →
      (∀ i (h1 : i < l1.length) (h2 : i < l2.length), Q l2[i] = true → P l1[i] = true) →
      (∃ i, ∃ (h1 : i < l1.length) (h2 : i < l2.length), P l1[i] = true ∧ Q l2[i] = false) →
      l2.countP Q < l1.countP P
  | [], [], _, _, ⟨i, h1, _, _⟩ => by simp at h1
  | [], _ :: _, h, _, _ => by simp at h
  | _ :: _, [], h, _, _ => by simp at h
  | a :: l1, b :: l2, hl, himp, ⟨i, h1, h2, hp, hq⟩ => by
    have hl' : l1.length = l2.length := by simpa using hl
    have himp' : ∀ i (h1 : i < l1.length) (h2 : i < l2.length), Q l2[i] = true → P l1[i] = true :=
      fun i h1 h2 hq => by
        have := himp (i+1) (by simp; omega) (by simp; omega)
        simpa using this hq
    have h0 := himp 0 (by simp) (by simp)
    simp only [List.getElem_cons_zero] at h0
    simp only [List.countP_cons]
    cases i with
    | zero =>
      simp only [List.getElem_cons_zero] at hp hq
      have ih := countP_le_of_imp P Q l1 l2 hl' himp'
      simp [hp, hq]; omega
    | succ i =>
      have ih := countP_lt_of_imp P Q l1 l2 hl' himp'
        ⟨i, by simpa using h1, by simpa using h2, by simpa using hp, by simpa using hq⟩
      cases hq' : Q b <;> cases hp' : P a <;> simp_all <;> omega

variable {n : Nat} (N : Net n) (C : ConstOn N)

/-- number of free variables of a space -/
def free (p : Space n) : Nat := p.toList.countP (fun c => c.isNone)

theorem free_le (p : Space n) : free p ≤ n := by
  unfold free
  calc _ ≤ p.toList.length := List.countP_le_length
       _ = n := by simp

theorem free_zero_fixed (p : Space n) (h : free p = 0) : percStep N C p = p := by
  apply Vector.ext
  intro i hi
  have hsome : p[i].isNone = false := by
    have := List.countP_eq_zero.1 h p[i] (by simp [Vector.mem_toList_iff])
    cases hp : p[i] with
    | none => simp [hp] at this
    | some b => rfl
  have := percStep_get N C p ⟨i, hi⟩
  simp only [Fin.getElem_fin] at this
  rw [this]
  cases hp : p[i] with
  | none => simp [hp] at hsome
  | some b => rfl

theorem free_lt_of_ne (p : Space n) (h : percStep N C p ≠ p) : free (percStep N C p) < free p := by
  unfold free
  apply countP_lt_of_imp
  · simp
  · intro i h1 h2 hq
    simp only [Vector.getElem_toList] at hq ⊢
    have hi : i < n := by simpa using h1
    have := percStep_get N C p ⟨i, hi⟩
    simp only [Fin.getElem_fin] at this
    rw [this] at hq
    cases hp : p[i] with
    | none => rfl
    | some b => simp [hp] at hq
  · -- some index differs; there `p` is free and the step is not
    have : ∃ i, ∃ (hi : i < n), (percStep N C p)[i] ≠ p[i] := by
      apply Classical.byContradiction
      intro hcon
      apply h
      apply Vector.ext
      intro i hi
      apply Classical.byContradiction
      intro hne
      exact hcon ⟨i, hi, hne⟩
    obtain ⟨i, hi, hne⟩ := this
    refine ⟨i, by simpa using hi, by simpa using hi, ?_, ?_⟩
    · simp only [Vector.getElem_toList]
      cases hp : p[i] with
      | none => rfl
      | some b =>
        exfalso; apply hne
        have := percStep_ext N C p ⟨i, hi⟩ b (by simpa using hp)
        simpa [hp] using this
    · simp only [Vector.getElem_toList]
      cases hq : (percStep N C p)[i] with
      | some b => rfl
      | none =>
        exfalso; apply hne
        have := percStep_get N C p ⟨i, hi⟩
        simp only [Fin.getElem_fin] at this
        rw [this] at hq ⊢
        cases hp : p[i] with
        | none => simp [hp] at hq ⊢; exact hq
        | some b => simp [hp] at hq

theorem percIter_of_fixed (k : Nat) (p : Space n) (h : percStep N C p = p) : percIter N C k p = p := by
  induction k with
  | zero => rfl
  | succ k ih => simp [percIter, h, ih]

/-- after `k ≥ free p` rounds the iteration is a fixed point (so `n` rounds always suffice):
    termination of percolation with an explicit bound (C11, C13) -/
theorem percIter_fixed (k : Nat) (p : Space n) (hk : free p ≤ k) :
    percStep N C (percIter N C k p) = percIter N C k p := by
  induction k generalizing p with
  | zero => simpa [percIter] using free_zero_fixed N C p (by omega)
  | succ k ih =>
    by_cases hfix : percStep N C p = p
    · rw [percIter_of_fixed N C (k+1) p hfix]; exact hfix
    · have := free_lt_of_ne N C p hfix
      exact ih (percStep N C p) (by omega)

def percolate (p : Space n) : Space n := percIter N C n p

theorem percolate_fixed (p : Space n) : percStep N C (percolate N C p) = percolate N C p :=
  percIter_fixed N C n p (free_le p)

theorem percolate_idem (p : Space n) : percolate N C (percolate N C p) = percolate N C p :=
  percIter_of_fixed N C n _ (percolate_fixed N C p)

end Balm
