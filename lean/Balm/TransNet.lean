import Balm.Trans
import Balm.Expr
/-!
# Presentations of one network (C17): reordering / renaming and polarity

Two concrete families of state bijections, with the proof that each is an isomorphism of the
asynchronous transition systems, so that (by `TSys.Iso.attr`) attractors correspond one to one:

* `permNet N π ρ` – the same network with its variables listed in another order (`π` with inverse `ρ`;
  renaming a variable changes nothing but the position it is sorted to);
* `flipNet N m` – every variable `i` with `m[i] = true` is replaced by its negation (the update
  function reads the negated value and produces the negated result).

`flipExprs` performs the polarity change on the *syntax* (`x ↦ !x` inside every expression, `!` around
the function of a flipped variable) and `ofExprs_flipExprs` shows that this is `flipNet` – the
transformation the harness applies to the text of a network.
-/
namespace Balm

open TSys

variable {n : Nat}

/-! ### listing the variables in another order -/

def permS (π : Fin n → Fin n) (s : State n) : State n := Vector.ofFn fun i => s[π i]

@[simp] theorem permS_get (π : Fin n → Fin n) (s : State n) (i : Fin n) : (permS π s)[i] = s[π i] := by
  simp [permS]

theorem permS_permS (π ρ : Fin n → Fin n) (h : ∀ i, π (ρ i) = i) (s : State n) : permS ρ (permS π s) = s := by
  apply Vector.ext
  intro i hi
  have := permS_get ρ (permS π s) ⟨i, hi⟩
  simp only [Fin.getElem_fin] at this
  rw [this]
  have h2 := permS_get π s (ρ ⟨i, hi⟩)
  simp only [Fin.getElem_fin] at h2
  rw [h2]
  exact congrArg (fun k : Fin n => s[k]) (h ⟨i, hi⟩)

/-- variable `i` of the new network is variable `π i` of the old one -/
def permNet (N : Net n) (π ρ : Fin n → Fin n) : Net n where
  f := fun i s => N.f (π i) (permS ρ s)

theorem permS_step (N : Net n) (π ρ : Fin n → Fin n) (h1 : ∀ i, π (ρ i) = i) (h2 : ∀ i, ρ (π i) = i)
    (s : State n) (j : Fin n) : permS π (step N s j) = step (permNet N π ρ) (permS π s) (ρ j) := by
  apply Vector.ext
  intro i hi
  have e1 := permS_get π (step N s j) ⟨i, hi⟩
  have e2 := step_get (permNet N π ρ) (permS π s) (ρ j) ⟨i, hi⟩
  simp only [Fin.getElem_fin] at e1 e2
  rw [e1, e2]
  have e3 := step_get N s j (π ⟨i, hi⟩)
  simp only [Fin.getElem_fin] at e3
  rw [e3]
  by_cases hc : π ⟨i, hi⟩ = j
  · have hc' : (⟨i, hi⟩ : Fin n) = ρ j := by rw [← hc, h2]
    rw [if_pos hc, if_pos hc']
    show N.f j s = N.f (π (ρ j)) (permS ρ (permS π s))
    rw [permS_permS π ρ h1, h1]
  · have hc' : ¬ (⟨i, hi⟩ : Fin n) = ρ j := by
      intro e; apply hc; rw [e, h1]
    rw [if_neg hc, if_neg hc']
    have := permS_get π s ⟨i, hi⟩
    simp only [Fin.getElem_fin] at this
    exact this.symm

def permIso (N : Net n) (π ρ : Fin n → Fin n) (h1 : ∀ i, π (ρ i) = i) (h2 : ∀ i, ρ (π i) = i) :
    Iso (tsOf N) (tsOf (permNet N π ρ)) where
  f := permS π
  g := permS ρ
  gf := permS_permS π ρ h1
  fg := permS_permS ρ π h2
  step := by
    intro a a'
    constructor
    · rintro ⟨j, rfl⟩
      exact ⟨ρ j, permS_step N π ρ h1 h2 a j⟩
    · rintro ⟨k, hk⟩
      refine ⟨π k, ?_⟩
      have := permS_step N π ρ h1 h2 a (π k)
      rw [h2] at this
      have e : permS π a' = permS π (step N a (π k)) := by rw [hk, this]
      have := congrArg (permS ρ) e
      rwa [permS_permS π ρ h1, permS_permS π ρ h1] at this

/-- **C17 (`attr_perm`).** Listing the variables in another order maps the attractors of a network
    bijectively onto the attractors of the reordered network. -/
theorem attr_perm (N : Net n) (π ρ : Fin n → Fin n) (h1 : ∀ i, π (ρ i) = i) (h2 : ∀ i, ρ (π i) = i)
    (X : State n → Prop) (hX : IsAttr N X) : IsAttr (permNet N π ρ) (fun t => X (permS ρ t)) :=
  (isAttr_tsOf _ _).1 ((permIso N π ρ h1 h2).attr X ((isAttr_tsOf N X).2 hX))

/-! ### polarity -/

def flipS (m : Vector Bool n) (s : State n) : State n := Vector.ofFn fun i => s[i] != m[i]

@[simp] theorem flipS_get (m : Vector Bool n) (s : State n) (i : Fin n) : (flipS m s)[i] = (s[i] != m[i]) := by
  simp [flipS]

theorem flipS_flipS (m : Vector Bool n) (s : State n) : flipS m (flipS m s) = s := by
  apply Vector.ext
  intro i hi
  have e1 := flipS_get m (flipS m s) ⟨i, hi⟩
  have e2 := flipS_get m s ⟨i, hi⟩
  simp only [Fin.getElem_fin] at e1 e2
  rw [e1, e2]
  cases s[i] <;> cases m[i] <;> rfl

def flipNet (N : Net n) (m : Vector Bool n) : Net n where
  f := fun i s => N.f i (flipS m s) != m[i]

theorem flipS_step (N : Net n) (m : Vector Bool n) (s : State n) (j : Fin n) :
    flipS m (step N s j) = step (flipNet N m) (flipS m s) j := by
  apply Vector.ext
  intro i hi
  have e1 := flipS_get m (step N s j) ⟨i, hi⟩
  have e2 := step_get (flipNet N m) (flipS m s) j ⟨i, hi⟩
  have e3 := step_get N s j ⟨i, hi⟩
  have e4 := flipS_get m s ⟨i, hi⟩
  simp only [Fin.getElem_fin] at e1 e2 e3 e4
  rw [e1, e2, e3]
  by_cases hc : (⟨i, hi⟩ : Fin n) = j
  · simp only [hc, if_true, flipNet, flipS_flipS]
    subst hc
    rfl
  · simp only [hc, if_false]
    exact e4.symm

def flipIso (N : Net n) (m : Vector Bool n) : Iso (tsOf N) (tsOf (flipNet N m)) where
  f := flipS m
  g := flipS m
  gf := flipS_flipS m
  fg := flipS_flipS m
  step := by
    intro a a'
    constructor
    · rintro ⟨j, rfl⟩
      exact ⟨j, flipS_step N m a j⟩
    · rintro ⟨k, hk⟩
      refine ⟨k, ?_⟩
      have e : flipS m a' = flipS m (step N a k) := by rw [hk, flipS_step]
      have := congrArg (flipS m) e
      rwa [flipS_flipS, flipS_flipS] at this

/-- **C17 (`attr_flip`).** Encoding variables by their negations maps the attractors of a network
    bijectively onto the attractors of the re-encoded network. -/
theorem attr_flip (N : Net n) (m : Vector Bool n) (X : State n → Prop) (hX : IsAttr N X) :
    IsAttr (flipNet N m) (fun t => X (flipS m t)) :=
  (isAttr_tsOf _ _).1 ((flipIso N m).attr X ((isAttr_tsOf N X).2 hX))

/-! ### the polarity change on the syntax -/

namespace BExpr

/-- replace every occurrence of a flipped variable by its negation -/
def flipVars (m : Nat → Bool) : BExpr → BExpr
  | .const b => .const b
  | .var i => if m i then .not (.var i) else .var i
  | .not e => .not (flipVars m e)
  | .and a b => .and (flipVars m a) (flipVars m b)
  | .or a b => .or (flipVars m a) (flipVars m b)
  | .xor a b => .xor (flipVars m a) (flipVars m b)
  | .iff a b => .iff (flipVars m a) (flipVars m b)
  | .imp a b => .imp (flipVars m a) (flipVars m b)
  | .cond c t e => .cond (flipVars m c) (flipVars m t) (flipVars m e)

theorem eval_flipVars (m : Vector Bool n) (e : BExpr) (s : State n) :
    (flipVars (fun i => if h : i < n then m[i] else false) e).eval s = e.eval (flipS m s) := by
  induction e with
  | const b => rfl
  | var i =>
    simp only [flipVars]
    by_cases hi : i < n
    · have := flipS_get m s ⟨i, hi⟩
      simp only [Fin.getElem_fin] at this
      simp only [hi, dite_true]
      cases hm : m[i]
      · simp [eval, hi, this, hm]
      · simp [eval, hi, this, hm]
    · simp [eval, hi]
  | not e ih => simp only [flipVars, eval, ih]
  | and a b iha ihb | or a b iha ihb | xor a b iha ihb | iff a b iha ihb | imp a b iha ihb =>
    simp only [flipVars, eval, iha, ihb]
  | cond c t e ihc iht ihe => simp only [flipVars, eval, ihc, iht, ihe]

end BExpr

/-- the syntactic polarity change of a whole network -/
def flipExprs (es : Vector BExpr n) (m : Vector Bool n) : Vector BExpr n :=
  Vector.ofFn fun i =>
    let e := BExpr.flipVars (fun k => if h : k < n then m[k] else false) es[i]
    if m[i] then .not e else e

/-- **C17 (`ofExprs_flipExprs`).** Rewriting the text of a network with negated variables yields
    exactly `flipNet` of its semantic network. -/
theorem ofExprs_flipExprs (es : Vector BExpr n) (m : Vector Bool n) :
    Net.ofExprs (flipExprs es m) = flipNet (Net.ofExprs es) m := by
  unfold Net.ofExprs flipNet
  congr
  funext i s
  simp only [flipExprs, Fin.getElem_fin, Vector.getElem_ofFn]
  cases hm : m[i.val]
  · simp [BExpr.eval_flipVars]
  · simp [BExpr.eval, BExpr.eval_flipVars]

end Balm
