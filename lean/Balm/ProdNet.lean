import Balm.Trans
/-!
# The union of two independent networks (C18)

`prodNet A B` is the network over `a + b` variables whose first `a` update functions are those of `A`
(reading the first `a` coordinates) and whose last `b` are those of `B`.  Its asynchronous transition
system is isomorphic to the asynchronous product `TSys.prod (tsOf A) (tsOf B)`; hence reachability is
component-wise and the attractors of the union are exactly the products of attractors of the parts
(`attr_prodNet`, `attr_prodNet_split`).
-/
namespace Balm

open TSys

variable {a b : Nat}

def leftS (s : State (a + b)) : State a := Vector.ofFn fun i => s[i.val]
def rightS (s : State (a + b)) : State b := Vector.ofFn fun i => s[a + i.val]
def joinS (x : State a) (y : State b) : State (a + b) :=
  Vector.ofFn fun i => if h : i.val < a then x[i.val] else y[i.val - a]

theorem leftS_get (s : State (a + b)) (i : Nat) (h : i < a) : (leftS s)[i] = s[i] := by simp [leftS]
theorem rightS_get (s : State (a + b)) (i : Nat) (h : i < b) : (rightS s)[i] = s[a + i] := by simp [rightS]
theorem joinS_get (x : State a) (y : State b) (i : Nat) (h : i < a + b) :
    (joinS x y)[i] = if h' : i < a then x[i] else y[i - a] := by simp [joinS]

theorem leftS_joinS (x : State a) (y : State b) : leftS (joinS x y) = x := by
  apply Vector.ext; intro i hi
  rw [leftS_get _ i hi, joinS_get]; simp [hi]

theorem rightS_joinS (x : State a) (y : State b) : rightS (joinS x y) = y := by
  apply Vector.ext; intro i hi
  rw [rightS_get _ i hi, joinS_get]
  have : ¬ a + i < a := by omega
  simp [this]

theorem joinS_split (s : State (a + b)) : joinS (leftS s) (rightS s) = s := by
  apply Vector.ext; intro i hi
  rw [joinS_get]
  by_cases h : i < a
  · simp [h, leftS_get]
  · simp only [h, dite_false]
    rw [rightS_get _ (i - a) (by omega)]
    congr 1; omega

/-- the union of two networks on disjoint variables -/
def prodNet (A : Net a) (B : Net b) : Net (a + b) where
  f := fun i s => if h : i.val < a then A.f ⟨i.val, h⟩ (leftS s) else B.f ⟨i.val - a, by omega⟩ (rightS s)

theorem step_left (A : Net a) (B : Net b) (s : State (a + b)) (i : Fin (a + b)) (h : i.val < a) :
    leftS (step (prodNet A B) s i) = step A (leftS s) ⟨i.val, h⟩ ∧ rightS (step (prodNet A B) s i) = rightS s := by
  constructor
  · apply Vector.ext; intro j hj
    rw [leftS_get _ j hj]
    have e1 := step_get (prodNet A B) s i ⟨j, by omega⟩
    have e2 := step_get A (leftS s) ⟨i.val, h⟩ ⟨j, hj⟩
    simp only [Fin.getElem_fin] at e1 e2
    rw [e1, e2]
    by_cases hc : j = i.val
    · have c1 : (⟨j, by omega⟩ : Fin (a + b)) = i := Fin.ext hc
      have c2 : (⟨j, hj⟩ : Fin a) = ⟨i.val, h⟩ := Fin.ext hc
      rw [if_pos c1, if_pos c2]
      simp [prodNet, h]
    · have c1 : ¬ (⟨j, by omega⟩ : Fin (a + b)) = i := fun e => hc (congrArg Fin.val e)
      have c2 : ¬ (⟨j, hj⟩ : Fin a) = ⟨i.val, h⟩ := fun e => hc (congrArg Fin.val e)
      rw [if_neg c1, if_neg c2, leftS_get _ j hj]
  · apply Vector.ext; intro j hj
    rw [rightS_get _ j hj, rightS_get _ j hj]
    have e1 := step_get (prodNet A B) s i ⟨a + j, by omega⟩
    simp only [Fin.getElem_fin] at e1
    rw [e1]
    have c1 : ¬ (⟨a + j, by omega⟩ : Fin (a + b)) = i := fun e => by have := congrArg Fin.val e; simp at this; omega
    rw [if_neg c1]

theorem step_right (A : Net a) (B : Net b) (s : State (a + b)) (i : Fin (a + b)) (h : ¬ i.val < a) :
    leftS (step (prodNet A B) s i) = leftS s ∧
      rightS (step (prodNet A B) s i) = step B (rightS s) ⟨i.val - a, by omega⟩ := by
  constructor
  · apply Vector.ext; intro j hj
    rw [leftS_get _ j hj, leftS_get _ j hj]
    have e1 := step_get (prodNet A B) s i ⟨j, by omega⟩
    simp only [Fin.getElem_fin] at e1
    rw [e1]
    have c1 : ¬ (⟨j, by omega⟩ : Fin (a + b)) = i := fun e => by have := congrArg Fin.val e; simp at this; omega
    rw [if_neg c1]
  · apply Vector.ext; intro j hj
    rw [rightS_get _ j hj]
    have e1 := step_get (prodNet A B) s i ⟨a + j, by omega⟩
    have e2 := step_get B (rightS s) ⟨i.val - a, by omega⟩ ⟨j, hj⟩
    simp only [Fin.getElem_fin] at e1 e2
    rw [e1, e2]
    by_cases hc : a + j = i.val
    · have c1 : (⟨a + j, by omega⟩ : Fin (a + b)) = i := Fin.ext hc
      have c2 : (⟨j, hj⟩ : Fin b) = ⟨i.val - a, by omega⟩ := Fin.ext (by simp; omega)
      rw [if_pos c1, if_pos c2]
      simp [prodNet, h]
    · have c1 : ¬ (⟨a + j, by omega⟩ : Fin (a + b)) = i := fun e => hc (congrArg Fin.val e)
      have c2 : ¬ (⟨j, hj⟩ : Fin b) = ⟨i.val - a, by omega⟩ := fun e => by
        have := congrArg Fin.val e; simp at this; omega
      rw [if_neg c1, if_neg c2, rightS_get _ j hj]

def prodIso (A : Net a) (B : Net b) : Iso (tsOf (prodNet A B)) (prod (tsOf A) (tsOf B)) where
  f := fun s => (leftS s, rightS s)
  g := fun p => joinS p.1 p.2
  gf := joinS_split
  fg := fun p => by rw [leftS_joinS, rightS_joinS]
  step := by
    intro s t
    constructor
    · rintro ⟨i, rfl⟩
      by_cases h : i.val < a
      · obtain ⟨h1, h2⟩ := step_left A B s i h
        exact Or.inl ⟨⟨⟨i.val, h⟩, h1⟩, h2.symm⟩
      · obtain ⟨h1, h2⟩ := step_right A B s i h
        exact Or.inr ⟨h1.symm, ⟨⟨i.val - a, by omega⟩, h2⟩⟩
    · rintro (⟨⟨i, hi⟩, heq⟩ | ⟨heq, ⟨i, hi⟩⟩)
      · refine ⟨⟨i.val, by omega⟩, ?_⟩
        obtain ⟨h1, h2⟩ := step_left A B s ⟨i.val, by omega⟩ i.isLt
        rw [← joinS_split t, ← joinS_split (step (prodNet A B) s ⟨i.val, by omega⟩), h1, h2]
        simp only at hi heq
        rw [hi, heq]
      · refine ⟨⟨a + i.val, by omega⟩, ?_⟩
        have hn : ¬ (⟨a + i.val, by omega⟩ : Fin (a + b)).val < a := by simp
        obtain ⟨h1, h2⟩ := step_right A B s ⟨a + i.val, by omega⟩ hn
        rw [← joinS_split t, ← joinS_split (step (prodNet A B) s ⟨a + i.val, by omega⟩), h1, h2]
        simp only at hi heq
        rw [hi, heq]
        congr 2
        apply Fin.ext; simp

/-- **C18 (`attr_prodNet`).** The product of an attractor of `A` and an attractor of `B` is an attractor
    of the union network … -/
theorem attr_prodNet (A : Net a) (B : Net b) (X : State a → Prop) (Y : State b → Prop)
    (hX : IsAttr A X) (hY : IsAttr B Y) : IsAttr (prodNet A B) (fun s => X (leftS s) ∧ Y (rightS s)) := by
  have h := attr_prod_of (tsOf A) (tsOf B) X Y ((isAttr_tsOf A X).2 hX) ((isAttr_tsOf B Y).2 hY)
  -- transport back along the inverse isomorphism
  let ψ : Iso (prod (tsOf A) (tsOf B)) (tsOf (prodNet A B)) :=
    { f := (prodIso A B).g, g := (prodIso A B).f, gf := (prodIso A B).fg, fg := (prodIso A B).gf,
      step := fun p q => by rw [(prodIso A B).step, (prodIso A B).fg, (prodIso A B).fg] }
  have := ψ.attr _ h
  exact (isAttr_tsOf _ _).1 this

/-- … and every attractor of the union network is such a product. -/
theorem attr_prodNet_split (A : Net a) (B : Net b) (Z : State (a + b) → Prop) (hZ : IsAttr (prodNet A B) Z) :
    IsAttr A (fun x => ∃ y, Z (joinS x y)) ∧ IsAttr B (fun y => ∃ x, Z (joinS x y)) ∧
      ∀ s, Z s ↔ (∃ y, Z (joinS (leftS s) y)) ∧ (∃ x, Z (joinS x (rightS s))) := by
  have h := (prodIso A B).attr Z ((isAttr_tsOf _ Z).2 hZ)
  obtain ⟨h1, h2, h3⟩ := attr_prod_iff (tsOf A) (tsOf B) _ h
  refine ⟨(isAttr_tsOf A _).1 h1, (isAttr_tsOf B _).1 h2, ?_⟩
  intro s
  have := h3 (leftS s, rightS s)
  simp only [prodIso] at this
  rw [joinS_split] at this
  exact this

end Balm
