import Balm.Depth
/-!
# The repaired `_update_node_depth` as an executable work-list, and its correctness (C20)

`updateDepth E₀ δ p c` mirrors the code after the `fix:` commit: when the edge `(p, c)` is added and
`δ p + 1 > δ c`, the child is raised and the increase is relaxed along out-edges with a pending list.
`updateDepth_local`: if the run finishes (pending list empty – the flag it returns), the two local
conditions hold again for the enlarged edge set, hence (`depth_is_longest`) every depth is the length
of the longest root path.  Whether the loop finishes is C13's concern; on a finite acyclic graph the
fuel `(number of edges + 1)²` is never exhausted in the correspondence runs (the flag is compared).
-/
namespace Balm.Depth

def setD (δ : Nat → Nat) (y v : Nat) : Nat → Nat := fun w => if w = y then v else δ w

/-- relax all out-edges of `x`: returns the new depths and the raised successors -/
def relaxNode (E : List (Nat × Nat)) (x : Nat) : List Nat → (Nat → Nat) × List Nat → (Nat → Nat) × List Nat
  | [], acc => acc
  | y :: ys, acc =>
    if acc.1 y < acc.1 x + 1 then relaxNode E x ys (setD acc.1 y (acc.1 x + 1), acc.2 ++ [y])
    else relaxNode E x ys acc

def succsOf (E : List (Nat × Nat)) (x : Nat) : List Nat := (E.filter (·.1 == x)).map (·.2)

def relaxLoop (E : List (Nat × Nat)) : Nat → List Nat → (Nat → Nat) → (Nat → Nat) × Bool
  | 0, pending, δ => (δ, pending.isEmpty)
  | _+1, [], δ => (δ, true)
  | f+1, x :: rest, δ =>
    let r := relaxNode E x (succsOf E x) (δ, [])
    relaxLoop E f (rest ++ r.2) r.1

/-- `_ensure_edge` + `_update_node_depth` for the new edge `(p, c)` (already part of `E`) -/
def updateDepth (E : List (Nat × Nat)) (δ : Nat → Nat) (p c : Nat) : (Nat → Nat) × Bool :=
  if δ p + 1 ≤ δ c then (δ, true)
  else relaxLoop E ((E.length + 1) * (E.length + 1)) [c] (setD δ c (δ p + 1))

/-- work-list invariant: reached by relaxation steps; every violated edge leaves a pending node -/
structure WInv (E : List (Nat × Nat)) (δ0 : Nat → Nat) (pending : List Nat) (δ : Nat → Nat) : Prop where
  steps : Steps E δ0 δ
  viol : ∀ u v, (u, v) ∈ E → δ v < δ u + 1 → u ∈ pending

theorem mem_succsOf (E : List (Nat × Nat)) (x y : Nat) : y ∈ succsOf E x ↔ (x, y) ∈ E := by
  unfold succsOf
  simp only [List.mem_map, List.mem_filter, beq_iff_eq]
  constructor
  · rintro ⟨e, ⟨he, h1⟩, h2⟩
    have : e = (x, y) := by cases e; simp_all
    rw [← this]; exact he
  · intro h; exact ⟨(x, y), ⟨h, rfl⟩, rfl⟩

/-- processing the out-edges `ys` of `x` one by one -/
theorem relaxNode_inv (E : List (Nat × Nat)) (hacyc : ∀ z, (z, z) ∉ E) (δ0 : Nat → Nat) (x : Nat) :
    ∀ (ys : List Nat) (δ : Nat → Nat) (acc rest : List Nat),
      (∀ y ∈ ys, (x, y) ∈ E) → Steps E δ0 δ →
      (∀ u v, (u, v) ∈ E → δ v < δ u + 1 → u ∈ rest ++ acc ∨ (u = x ∧ v ∈ ys)) →
      let r := relaxNode E x ys (δ, acc)
      Steps E δ0 r.1 ∧ ∀ u v, (u, v) ∈ E → r.1 v < r.1 u + 1 → u ∈ rest ++ r.2 := by
  intro ys
  induction ys with
  | nil =>
    intro δ acc rest _ hs hv
    simp only [relaxNode]
    refine ⟨hs, ?_⟩
    intro u v he hlt
    rcases hv u v he hlt with h | ⟨_, h⟩
    · exact h
    · cases h
  | cons y ys ih =>
    intro δ acc rest hys hs hv
    have hxy : (x, y) ∈ E := hys y List.mem_cons_self
    have hne : y ≠ x := fun e => hacyc x (e ▸ hxy)
    simp only [relaxNode]
    by_cases hlt : δ y < δ x + 1
    · simp only [hlt, if_true]
      have hstep : Steps E δ0 (setD δ y (δ x + 1)) := Steps.tail hs (Step.relax δ x y hxy hlt)
      apply ih (setD δ y (δ x + 1)) (acc ++ [y]) rest (fun z hz => hys z (List.mem_cons_of_mem _ hz)) hstep
      intro u v he hviol
      -- depth of x is unchanged, y was raised
      have hx : setD δ y (δ x + 1) x = δ x := by simp [setD, Ne.symm hne]
      by_cases hu : u = y
      · -- an edge out of the raised node: it is pending now
        subst hu
        left
        simp [List.mem_append]
      · have hu' : setD δ y (δ x + 1) u = δ u := by simp [setD, hu]
        by_cases hv' : v = y
        · -- the edge (u, y): y only grew
          subst hv'
          have hvy : setD δ v (δ x + 1) v = δ x + 1 := by simp [setD]
          rw [hvy, hu'] at hviol
          have : δ v < δ u + 1 := by omega
          rcases hv u v he this with h | ⟨h1, _⟩
          · left
            rcases List.mem_append.1 h with h | h
            · exact List.mem_append.2 (Or.inl h)
            · exact List.mem_append.2 (Or.inr (List.mem_append.2 (Or.inl h)))
          · -- u = x: then δ v < δ x + 1 contradicts the new value
            subst h1; omega
        · have hvv : setD δ y (δ x + 1) v = δ v := by simp [setD, hv']
          rw [hvv, hu'] at hviol
          rcases hv u v he hviol with h | ⟨h1, h2⟩
          · left
            rcases List.mem_append.1 h with h | h
            · exact List.mem_append.2 (Or.inl h)
            · exact List.mem_append.2 (Or.inr (List.mem_append.2 (Or.inl h)))
          · right
            refine ⟨h1, ?_⟩
            rcases List.mem_cons.1 h2 with h2 | h2
            · exact absurd h2 hv'
            · exact h2
    · simp only [hlt, if_false]
      apply ih δ acc rest (fun z hz => hys z (List.mem_cons_of_mem _ hz)) hs
      intro u v he hviol
      rcases hv u v he hviol with h | ⟨h1, h2⟩
      · exact Or.inl h
      · rcases List.mem_cons.1 h2 with h2 | h2
        · subst h1; subst h2; exact absurd hviol hlt
        · exact Or.inr ⟨h1, h2⟩

theorem relaxLoop_inv (E : List (Nat × Nat)) (hacyc : ∀ z, (z, z) ∉ E) (δ0 : Nat → Nat) :
    ∀ (fuel : Nat) (pending : List Nat) (δ : Nat → Nat), WInv E δ0 pending δ →
      (relaxLoop E fuel pending δ).2 = true →
      Steps E δ0 (relaxLoop E fuel pending δ).1 ∧
        ∀ u v, (u, v) ∈ E → (relaxLoop E fuel pending δ).1 u + 1 ≤ (relaxLoop E fuel pending δ).1 v := by
  intro fuel
  induction fuel with
  | zero =>
    intro pending δ h hdone
    simp only [relaxLoop] at hdone ⊢
    have hp : pending = [] := List.isEmpty_iff.1 hdone
    subst hp
    refine ⟨h.steps, ?_⟩
    intro u v he
    apply Classical.byContradiction
    intro hc
    have := h.viol u v he (by omega)
    cases this
  | succ fuel ih =>
    intro pending δ h hdone
    cases pending with
    | nil =>
      simp only [relaxLoop]
      refine ⟨h.steps, ?_⟩
      intro u v he
      apply Classical.byContradiction
      intro hc
      have := h.viol u v he (by omega)
      cases this
    | cons x rest =>
      simp only [relaxLoop] at hdone ⊢
      have hr := relaxNode_inv E hacyc δ0 x (succsOf E x) δ [] rest
        (fun y hy => (mem_succsOf E x y).1 hy) h.steps (by
          intro u v he hviol
          have := h.viol u v he hviol
          rcases List.mem_cons.1 this with hux | hur
          · right; subst hux; exact ⟨rfl, (mem_succsOf E u v).2 he⟩
          · left; simp [hur])
      exact ih _ _ ⟨hr.1, hr.2⟩ hdone

/-- **C20 (`updateDepth_local`).** Let the local conditions hold for the edge set `E₀`, let `(p, c)` be a
    new edge, and let the graph have no self-loop.  If the work-list run reports completion, the
    local conditions hold for `(p, c) :: E₀` with the updated depths – so, by `depth_is_longest`,
    every node's depth is the length of the longest path from the root to it. -/
theorem updateDepth_local (E₀ : List (Nat × Nat)) (δ : Nat → Nat) (p c : Nat) (hold : Local E₀ δ)
    (hacyc : ∀ z, (z, z) ∉ (p, c) :: E₀)
    (hdone : (updateDepth ((p, c) :: E₀) δ p c).2 = true) :
    Local ((p, c) :: E₀) (updateDepth ((p, c) :: E₀) δ p c).1 := by
  unfold updateDepth at hdone ⊢
  by_cases hle : δ p + 1 ≤ δ c
  · simp only [hle, if_true]
    refine ⟨?_, ?_⟩
    · intro u v he
      rcases List.mem_cons.1 he with h | h
      · cases h; exact hle
      · exact hold.d1 u v h
    · intro v
      rcases hold.d2 v with h | ⟨u, hu, hv⟩
      · exact Or.inl h
      · exact Or.inr ⟨u, List.mem_cons_of_mem _ hu, hv⟩
  · simp only [hle, if_false] at hdone ⊢
    have hlt : δ c < δ p + 1 := by omega
    have hpc : (p, c) ∈ (p, c) :: E₀ := List.mem_cons_self
    have hne : c ≠ p := fun e => hacyc p (e ▸ hpc)
    have h0 : WInv ((p, c) :: E₀) δ [c] (setD δ c (δ p + 1)) := by
      refine ⟨Steps.tail (Steps.refl δ) (Step.relax δ p c hpc hlt), ?_⟩
      intro u v he hviol
      by_cases hu : u = c
      · subst hu; simp
      · exfalso
        have hu' : setD δ c (δ p + 1) u = δ u := by simp [setD, hu]
        by_cases hv : v = c
        · subst hv
          have hvv : setD δ v (δ p + 1) v = δ p + 1 := by simp [setD]
          rw [hvv, hu'] at hviol
          rcases List.mem_cons.1 he with h | h
          · cases h; omega
          · have := hold.d1 u v h; omega
        · have hvv : setD δ c (δ p + 1) v = δ v := by simp [setD, hv]
          rw [hvv, hu'] at hviol
          rcases List.mem_cons.1 he with h | h
          · cases h; exact hv rfl
          · have := hold.d1 u v h; omega
    obtain ⟨hsteps, hfin⟩ := relaxLoop_inv ((p, c) :: E₀) hacyc δ _ [c] _ h0 hdone
    exact relax_to_local (p, c) hold hacyc hsteps hfin

end Balm.Depth
