import Balm.Perc2
namespace Balm

variable {n : Nat}

/-- a Petri-net transition of the implicant encoding: variable `v` moves to value `up`
    when the cube `c` (over the other variables) holds and `v` currently has value `!up` -/
structure Trans (n : Nat) where
  v : Fin n
  up : Bool
  c : Space n

/-- places are (variable, value): `(i, true)` is `b1_i`, `(i, false)` is `b0_i` -/
abbrev Place (n : Nat) := Fin n × Bool

def Trans.cubeSat (t : Trans n) (s : State n) : Prop :=
  ∀ (j : Fin n) (b : Bool), j ≠ t.v → t.c[j] = some b → s[j] = b

def Trans.enabled (t : Trans n) (s : State n) : Prop := s[t.v] = !t.up ∧ t.cubeSat s

/-- pre-places of a transition: the source place and the read places of the cube -/
def Trans.pre (t : Trans n) (q : Place n) : Prop :=
  q = (t.v, !t.up) ∨ (q.1 ≠ t.v ∧ t.c[q.1] = some q.2)

/-- the net encodes the network: some transition for `(v, up)` is enabled in `s` iff `v` can move to `up` -/
def Faithful (N : Net n) (ts : List (Trans n)) : Prop :=
  ∀ (s : State n) (v : Fin n) (up : Bool),
    (∃ t ∈ ts, t.v = v ∧ t.up = up ∧ t.enabled s) ↔ (s[v] = !up ∧ N.f v s = up)

/-- siphon condition as the ASP rules state it: if the produced place is in `S`, some pre-place is -/
def Siphon (ts : List (Trans n)) (S : Place n → Prop) : Prop :=
  ∀ t ∈ ts, S (t.v, t.up) → ∃ q, t.pre q ∧ S q

/-- the space denoted by a place set, with the *inverted* polarity of `_clingo_model_to_space`:
    `b1_i ∈ S` fixes `i` to 0, `b0_i ∈ S` fixes `i` to 1 -/
def Denotes (S : Place n → Prop) (p : Space n) : Prop :=
  ∀ (i : Fin n) (b : Bool), p[i] = some b ↔ S (i, !b)

theorem siphon_of_trap (N : Net n) (ts : List (Trans n)) (hF : Faithful N ts)
    (S : Place n → Prop) (p : Space n) (hD : Denotes S p) (hp : TrapSpace N p) : Siphon ts S := by
  intro t ht hS
  -- the produced value `t.up` is excluded by `p`: `p` fixes `t.v` to `!t.up`
  have hpv : p[t.v] = some (!t.up) := (hD t.v (!t.up)).2 (by simpa using hS)
  apply Classical.byContradiction
  intro hno
  have hno' : ∀ q, t.pre q → ¬ S q := fun q hq hs => hno ⟨q, hq, hs⟩
  -- build a state of `p` in which `t` is enabled
  let s : State n := Vector.ofFn fun j =>
    if j = t.v then !t.up else match t.c[j] with
      | some b => b
      | none => (p[j]).getD false
  have hs_v : s[t.v] = !t.up := by simp [s]
  have hs_c : t.cubeSat s := by
    intro j b hj hc
    have hc' : t.c[j.val] = some b := hc
    simp [s, hj, hc']
  have hs_p : p.Mem s := by
    intro j b hj
    by_cases hjv : j = t.v
    · subst hjv; rw [hpv] at hj; cases hj; exact hs_v
    · cases hc : t.c[j] with
      | none =>
        have hc' : t.c[j.val] = none := hc
        have hj' : p[j.val] = some b := hj
        simp [s, hjv, hc', hj']
      | some b0 =>
        have hc' : t.c[j.val] = some b0 := hc
        -- the read place is not in `S`, so `p` does not fix `j` to the opposite value
        have := hno' (j, b0) (Or.inr ⟨hjv, hc⟩)
        have hne : p[j] ≠ some (!b0) := by
          intro h
          have h2 := (hD j (!b0)).1 h
          simp at h2
          exact this h2
        have hb : b = b0 := by
          cases b <;> cases b0 <;> simp_all
        subst hb
        simp [s, hjv, hc']
  -- `t` fires in `s`, so `t.v` can leave `p`
  have hen : ∃ t' ∈ ts, t'.v = t.v ∧ t'.up = t.up ∧ t'.enabled s := ⟨t, ht, rfl, rfl, hs_v, hs_c⟩
  have hmove := (hF s t.v t.up).1 hen
  have hstay := hp s hs_p t.v t.v (!t.up) hpv
  rw [step_get] at hstay
  simp only [if_true] at hstay
  rw [hmove.2] at hstay
  cases hu : t.up <;> simp [hu] at hstay

theorem trap_of_siphon (N : Net n) (ts : List (Trans n)) (hF : Faithful N ts)
    (S : Place n → Prop) (p : Space n) (hD : Denotes S p) (hS : Siphon ts S) : TrapSpace N p := by
  intro s hs i j b hj
  rw [step_get]
  by_cases hji : j = i
  · subst hji
    simp only [if_true]
    -- if `f j s ≠ b` some transition producing `!b` is enabled in `s`
    apply Classical.byContradiction
    intro hne
    have hsj : s[j] = b := hs j b hj
    have hup : N.f j s = !b := by cases hb : b <;> cases hf : N.f j s <;> simp_all
    have hex := (hF s j (!b)).2 ⟨by simpa using hsj, hup⟩
    obtain ⟨t, ht, htv, htup, hten⟩ := hex
    have hprod : S (t.v, t.up) := by
      rw [htv, htup]; exact (hD j b).1 hj
    obtain ⟨q, hq, hSq⟩ := hS t ht hprod
    rcases hq with rfl | ⟨hqv, hqc⟩
    · -- the source place would be in `S`: `p` fixes `j` to both values
      rw [htv, htup] at hSq
      have : p[j] = some (!b) := (hD j (!b)).2 (by simpa using hSq)
      rw [hj] at this; cases hb : b <;> simp [hb] at this
    · -- a read place in `S` contradicts `s ∈ p`
      have hsq : s[q.1] = q.2 := hten.2 q.1 q.2 hqv hqc
      have : p[q.1] = some (!q.2) := (hD q.1 (!q.2)).2 (by simpa using hSq)
      have := hs q.1 (!q.2) this
      rw [hsq] at this
      cases hq2 : q.2 <;> simp [hq2] at this
  · simp [hji]; exact hs j b hj

/-- **C09 core.** Conflict-free siphons of the implicant net are exactly the trap spaces
    (with the inverted polarity the code uses when it reads a model back). -/
theorem siphon_iff_trapspace (N : Net n) (ts : List (Trans n)) (hF : Faithful N ts)
    (S : Place n → Prop) (p : Space n) (hD : Denotes S p) : Siphon ts S ↔ TrapSpace N p :=
  ⟨trap_of_siphon N ts hF S p hD, siphon_of_trap N ts hF S p hD⟩

end Balm
