import Balm.Perc3
namespace Balm

variable {n : Nat} (N : Net n) (C : ConstOn N)

/-- the network with the variables of `d` overridden by constants -/
def override (d : Space n) : Net n :=
  { f := fun i s => match d[i] with | some b => b | none => N.f i s }

/-- `T` with the driver values added (drivers only on variables free in `T`) -/
def withDrivers (T d : Space n) : Space n :=
  Vector.ofFn fun i => match T[i] with | some b => some b | none => d[i]

theorem withDrivers_get (T d : Space n) (i : Fin n) :
    (withDrivers T d)[i] = match T[i] with | some b => some b | none => d[i] := by
  simp [withDrivers]

/-- closed sets (under the dynamics) -/
def Closed (X : State n → Prop) : Prop := ∀ s, X s → ∀ i, X (step N s i)

theorem Closed.reach {N : Net n} {X : State n → Prop} (hX : Closed N X) {s t : State n}
    (hs : X s) (h : Reach N s t) : X t := by
  induction h with
  | refl => exact hs
  | tail i _ ih => exact hX _ ih i

theorem IsAttr.closed {N : Net n} {A : State n → Prop} (hA : IsAttr N A) : Closed N A := by
  intro s hs i
  exact (hA.2 s hs _).2 (Reach.tail i (Reach.refl s))

/-- in a closed set on which `f j` is constantly `b`, every attractor has `j = b` -/
theorem attr_const (A : State n → Prop) (hA : IsAttr N A) (j : Fin n) (b : Bool)
    (hc : ∀ s, A s → N.f j s = b) : ∀ s, A s → s[j] = b := by
  intro s hs
  let t := step N s j
  have hAt : A t := hA.closed s hs j
  have htj : t[j] = b := by
    show (step N s j)[j] = b
    rw [step_get]; simp; exact hc s hs
  have hts : Reach N t s := (hA.2 t hAt s).1 hs
  -- the value `b` of `j` is invariant along any path inside `A`
  have : ∀ u, Reach N t u → u[j] = b := by
    intro u hu
    induction hu with
    | refl => exact htj
    | tail i hr ih =>
      rw [step_get]
      by_cases hji : j = i
      · subst hji; simp; exact hc _ (hA.closed.reach hAt hr)
      · simp [hji, ih]
  exact this s hts

/-- a trap space of `N` stays a trap space when variables free in it are overridden -/
theorem trap_override (T d : Space n) (hT : TrapSpace N T)
    (hd : ∀ (i : Fin n) (b : Bool), d[i] = some b → T[i] = none) : TrapSpace (override N d) T := by
  intro s hs i j b hj
  rw [step_get]
  by_cases hji : j = i
  · subst hji
    simp only [if_true]
    have hdn : d[j] = none := by
      cases hdj : d[j] with
      | none => rfl
      | some b0 => have := hd j b0 hdj; rw [hj] at this; cases this
    have h1 := hT s hs j j b hj
    rw [step_get] at h1
    simp only [if_true] at h1
    have hdn' : d[j.val] = none := hdn
    simp [override, hdn', h1]
  · simp [hji]; exact hs j b hj

/-- **C06 core (`ldoi_sound`).** `T` a trap space of `N`, `d` driver values on variables free in `T`.
    Every attractor of the overridden network that lies in `T` (and every attractor reachable
    from `T` does, `T` being a trap space of the overridden network) lies in every iterate of the
    percolation *in the original network* of `T ∪ d` – hence satisfies every literal of a motif
    contained in `percolate N (T ∪ d)`, which is exactly the acceptance test of `find_drivers`. -/
theorem ldoi_sound (T d : Space n) (_hT : TrapSpace N T)
    (hd : ∀ (i : Fin n) (b : Bool), d[i] = some b → T[i] = none)
    (A : State n → Prop) (hA : IsAttr (override N d) A) (hAT : ∀ s, A s → T.Mem s) :
    ∀ k, ∀ s, A s → (percIter N C k (withDrivers T d)).Mem s := by
  -- drivers are never re-derived: they are fixed in every iterate
  have hfix : ∀ (k : Nat) (i : Fin n) (b : Bool), d[i] = some b → (percIter N C k (withDrivers T d))[i] = some b := by
    intro k i b hdi
    apply percIter_ext N C k (withDrivers T d) i b
    rw [withDrivers_get]; simp [hd i b hdi, hdi]
  intro k
  induction k with
  | zero =>
    intro s hs i b hi
    simp only [percIter] at hi
    rw [withDrivers_get] at hi
    cases hTi : T[i] with
    | some b0 => simp [hTi] at hi; subst hi; exact hAT s hs i b0 hTi
    | none =>
      simp [hTi] at hi
      -- an overridden variable has a constant function
      exact attr_const (override N d) A hA i b (fun u _ => by simp [override, hi]) s hs
  | succ k ih =>
    intro s hs i b hi
    have hiter : percIter N C (k+1) (withDrivers T d) =
        percStep N C (percIter N C k (withDrivers T d)) := by
      have : ∀ (k : Nat) (p : Space n), percIter N C (k+1) p = percStep N C (percIter N C k p) := by
        intro k
        induction k with
        | zero => intro p; rfl
        | succ k ihk => intro p; exact ihk (percStep N C p)
      exact this k _
    rw [hiter, percStep_get] at hi
    cases hq : (percIter N C k (withDrivers T d))[i] with
    | some b0 => simp [hq] at hi; subst hi; exact ih s hs i b0 hq
    | none =>
      simp [hq] at hi
      -- `i` is not a driver (drivers are fixed in the iterate), so its function is unchanged
      have hdn : d[i] = none := by
        cases hdi : d[i] with
        | none => rfl
        | some b0 => have := hfix k i b0 hdi; rw [hq] at this; cases this
      have hc := (C.spec i _ b).1 hi
      exact attr_const (override N d) A hA i b
        (fun u hu => by
          have hdn' : d[i.val] = none := hdn
          simp [override, hdn']; exact hc u (ih u hu)) s hs

end Balm
