import Balm.PEnvC2
namespace Balm

variable {n : Nat} (N : Net n)

/-- trap spaces that contain every state of `A` -/
def above (A : List (State n)) : List (Space n) :=
  (trapSpaces N).filter fun T => A.all fun s => T.memB s

theorem mem_above (A : List (State n)) (T : Space n) :
    T ∈ above N A ↔ TrapSpace N T ∧ ∀ s ∈ A, T.Mem s := by
  simp [above, mem_trapSpaces, List.all_eq_true, Space.memB_iff]

/-- the meet of all trap spaces containing `A`: a variable is fixed iff one of them fixes it -/
def meetAbove (A : List (State n)) : Space n :=
  Vector.ofFn fun i => (above N A).findSome? fun T => T[i]

theorem meetAbove_get (A : List (State n)) (i : Fin n) :
    (meetAbove N A)[i] = (above N A).findSome? fun T => T[i] := by
  simp [meetAbove]

/-- values fixed by the meet come from a trap space above `A` -/
theorem meet_from (A : List (State n)) (i : Fin n) (b : Bool) (h : (meetAbove N A)[i] = some b) :
    ∃ T ∈ above N A, T[i] = some b := by
  rw [meetAbove_get] at h
  obtain ⟨T, hT, hb⟩ := List.exists_of_findSome?_eq_some h
  exact ⟨T, hT, hb⟩

/-- the meet is below every trap space above `A` (`A` non-empty) -/
theorem meet_le (A : List (State n)) (hA : A ≠ []) (T : Space n) (hT : T ∈ above N A) :
    (meetAbove N A).le T := by
  intro i b hTi
  obtain ⟨s, hs⟩ := List.exists_mem_of_ne_nil A hA
  cases hm : (meetAbove N A)[i] with
  | none =>
    rw [meetAbove_get] at hm
    have := (List.findSome?_eq_none_iff.1 hm) T hT
    rw [hTi] at this; cases this
  | some b' =>
    obtain ⟨T', hT', hb'⟩ := meet_from N A i b' hm
    have h1 := ((mem_above N A T).1 hT).2 s hs i b hTi
    have h2 := ((mem_above N A T').1 hT').2 s hs i b' hb'
    rw [← h1, ← h2]

theorem meet_contains (A : List (State n)) : ∀ s ∈ A, (meetAbove N A).Mem s := by
  intro s hs i b hi
  obtain ⟨T, hT, hb⟩ := meet_from N A i b hi
  exact ((mem_above N A T).1 hT).2 s hs i b hb

theorem meet_trap (A : List (State n)) (hA : A ≠ []) : TrapSpace N (meetAbove N A) := by
  intro s hs j i b hi
  obtain ⟨T, hT, hb⟩ := meet_from N A i b hi
  have hsT : T.Mem s := Space.Mem.of_ext (meet_le N A hA T hT) hs
  exact ((mem_above N A T).1 hT).1 s hsT j i b hb

/-- **the `least` field of the partition environment (C.8), for the concrete model.** For a non-empty
    attractor `A`, `perc (meetAbove A)` is a percolation-closed trap space containing `A` and lying
    inside every percolation-closed trap space that contains `A`. -/
theorem least_spec (A : List (State n)) (hA : A ≠ [])
    (hattr : IsAttr N (fun s => s ∈ A)) :
    GoodSpace N (perc N (meetAbove N A)) ∧
    (∀ s ∈ A, (perc N (meetAbove N A)).Mem s) ∧
    ∀ p, GoodSpace N p → (∀ s ∈ A, p.Mem s) → (perc N (meetAbove N A)).le p := by
  have htrap := meet_trap N A hA
  refine ⟨⟨percIter_trap N (constOnOf N) n _ htrap, percolate_idem N (constOnOf N) _⟩, ?_, ?_⟩
  · exact attr_in_percIter N (constOnOf N) n _ htrap _ hattr (meet_contains N A)
  · intro p hp hin
    have hab : p ∈ above N A := (mem_above N A p).2 ⟨hp.1, hin⟩
    have := perc_mono N htrap (meet_le N A hA p hab)
    rw [hp.2] at this
    exact this

end Balm
