namespace Balm.Partition

/-- what the partition argument needs to know about spaces and the fully expanded diagram -/
structure PEnv (σ : Type) where
  le : σ → σ → Prop                       -- inclusion of spaces
  le_refl' : ∀ a, le a a
  le_trans : ∀ {a b c}, le a b → le b c → le a c
  le_antisymm : ∀ {a b}, le a b → le b a → a = b
  good : σ → Prop                         -- percolation-closed trap space
  rel : σ → Prop                          -- fixes every identity input (needed below the root only)
  root : σ
  root_good : good root
  children : σ → List σ                   -- successor spaces of a node: percolated stable motifs
  child_le : ∀ p c, good p → c ∈ children p → le c p ∧ c ≠ p
  child_good : ∀ p c, good p → c ∈ children p → good c
  /-- every relevant good space strictly inside a node lies inside one of its successors
      (from the specification of the stable motifs and monotonicity of percolation) -/
  cover : ∀ p T, good p → good T → rel T → le T p → T ≠ p → ∃ c ∈ children p, le T c
  wf : WellFounded (fun a b : σ => le a b ∧ a ≠ b)

variable {σ : Type} (E : PEnv σ)

/-- the spaces that occur as nodes of the fully expanded diagram -/
inductive Node : σ → Prop
  | root : Node E.root
  | child {p c} : Node p → c ∈ E.children p → Node c

theorem Node.good {E : PEnv σ} {p : σ} (h : Node E p) : E.good p := by
  induction h with
  | root => exact E.root_good
  | child _ hc ih => exact E.child_good _ _ ih hc

/-- an attractor, seen through the spaces that contain it -/
structure Att (E : PEnv σ) where
  In : σ → Prop
  mono : ∀ {p q}, In p → E.le p q → In q
  least : σ                                -- least percolated trap space containing it
  least_good : E.good least
  least_rel : E.rel least
  least_in : In least
  least_le : ∀ p, E.good p → In p → E.le least p
  in_root : In E.root

/-- own attractor of a node: inside it, inside none of its successors -/
def Own (a : Att E) (p : σ) : Prop := Node E p ∧ a.In p ∧ ∀ c ∈ E.children p, ¬ a.In c

/-- descending from any node that contains the attractor reaches the node of its least space -/
theorem node_least_below (a : Att E) : ∀ p, Node E p → E.le a.least p → Node E a.least := by
  intro p
  induction p using E.wf.induction with
  | _ p ih =>
    intro hp hle
    by_cases heq : a.least = p
    · rw [heq]; exact hp
    · obtain ⟨c, hc, hlc⟩ := E.cover p a.least hp.good a.least_good a.least_rel hle heq
      exact ih c (E.child_le p c hp.good hc) (Node.child hp hc) hlc

theorem node_least (a : Att E) : Node E a.least :=
  node_least_below E a E.root Node.root (a.least_le E.root E.root_good a.in_root)

/-- **C01 partition theorem (abstract form).** In the fully expanded diagram an attractor is own
    for exactly one node: the node of the least percolated trap space containing it. -/
theorem own_iff (a : Att E) (p : σ) : Own E a p ↔ p = a.least := by
  constructor
  · rintro ⟨hn, hin, hno⟩
    have hle := a.least_le p hn.good hin
    apply Classical.byContradiction
    intro hne
    obtain ⟨c, hc, hlc⟩ := E.cover p a.least hn.good a.least_good a.least_rel hle (fun h => hne h.symm)
    exact hno c hc (a.mono a.least_in hlc)
  · rintro rfl
    refine ⟨node_least E a, a.least_in, ?_⟩
    intro c hc hin
    have hcl := E.child_le a.least c a.least_good hc
    have := a.least_le c (E.child_good _ _ a.least_good hc) hin
    exact hcl.2 (E.le_antisymm hcl.1 this)

theorem exists_unique_own (a : Att E) : ∃ p, Own E a p ∧ ∀ q, Own E a q → q = p :=
  ⟨a.least, (own_iff E a a.least).2 rfl, fun q hq => (own_iff E a q).1 hq⟩

end Balm.Partition
