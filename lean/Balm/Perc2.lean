import Balm.Perc
namespace Balm

variable {n : Nat} (N : Net n) (C : ConstOn N)

/-! ### dynamics -/

def step (s : State n) (i : Fin n) : State n := s.set i (N.f i s)

theorem step_get (s : State n) (i j : Fin n) :
    (step N s i)[j] = if j = i then N.f i s else s[j] := by
  unfold step
  by_cases h : j = i
  · subst h; simp
  · have : i.val ≠ j.val := fun hh => h (Fin.ext hh.symm)
    simp [h, Vector.getElem_set_ne, this]

inductive Reach : State n → State n → Prop
  | refl (s) : Reach s s
  | tail {s t} (i : Fin n) : Reach s t → Reach s (step N t i)

theorem Reach.trans {N : Net n} {a b c : State n} (h1 : Reach N a b) (h2 : Reach N b c) : Reach N a c := by
  induction h2 with
  | refl => exact h1
  | tail i _ ih => exact Reach.tail i ih

def TrapSpace (p : Space n) : Prop := ∀ s, p.Mem s → ∀ i, p.Mem (step N s i)

def IsAttr (A : State n → Prop) : Prop :=
  (∃ s, A s) ∧ ∀ s, A s → ∀ t, (A t ↔ Reach N s t)

theorem TrapSpace.reach {N : Net n} {p : Space n} (hp : TrapSpace N p) {s t : State n}
    (hs : p.Mem s) (h : Reach N s t) : p.Mem t := by
  induction h with
  | refl => exact hs
  | tail i _ ih => exact hp _ ih i

/-! ### one percolation step on a trap space -/

/-- the step of a trap space is a trap space -/
theorem percStep_trap (p : Space n) (hp : TrapSpace N p) : TrapSpace N (percStep N C p) := by
  intro s hs i j b hj
  have hsp : p.Mem s := Space.Mem.of_ext (percStep_ext N C p) hs
  rw [percStep_get] at hj
  cases hpj : p[j] with
  | some b0 =>
    simp [hpj] at hj; subst hj
    exact hp s hsp i j b0 hpj
  | none =>
    simp [hpj] at hj
    rw [step_get]
    by_cases hji : j = i
    · subst hji; simp; exact (C.spec j p b).1 hj s hsp
    · simp [hji]
      apply hs j b
      rw [percStep_get]; simp [hpj, hj]

/-- inside a trap space, a variable whose function is constant `b` keeps the value `b` once it has it -/
theorem stays (p : Space n) (hp : TrapSpace N p) (j : Fin n) (b : Bool)
    (hc : ∀ s, p.Mem s → N.f j s = b) {t u : State n} (ht : p.Mem t) (htj : t[j] = b)
    (h : Reach N t u) : u[j] = b := by
  induction h with
  | refl => exact htj
  | tail i hr ih =>
    rw [step_get]
    by_cases hji : j = i
    · subst hji; simp; exact hc _ (hp.reach ht hr)
    · simp [hji, ih]

/-- C01/C02/C06 workhorse: an attractor inside a trap space lies inside its percolation step -/
theorem attr_in_percStep (p : Space n) (hp : TrapSpace N p) (A : State n → Prop)
    (hA : IsAttr N A) (hAp : ∀ s, A s → p.Mem s) : ∀ s, A s → (percStep N C p).Mem s := by
  intro s hs j b hj
  have hsp := hAp s hs
  rw [percStep_get] at hj
  cases hpj : p[j] with
  | some b0 => simp [hpj] at hj; subst hj; exact hsp j b0 hpj
  | none =>
    simp [hpj] at hj
    have hc := (C.spec j p b).1 hj
    -- move `j` to `b`, then we can never come back to a state with `j ≠ b`
    let t := step N s j
    have hst : Reach N s t := Reach.tail j (Reach.refl s)
    have hAt : A t := (hA.2 s hs t).2 hst
    have htj : t[j] = b := by
      show (step N s j)[j] = b
      rw [step_get]; simp; exact hc s hsp
    have hts : Reach N t s := (hA.2 t hAt s).1 hs
    exact stays N p hp j b hc (hAp t hAt) htj hts

/-! ### iterating to the fixed point -/

def percIter : Nat → Space n → Space n
  | 0, p => p
  | k+1, p => percIter k (percStep N C p)

theorem percIter_ext (k : Nat) (p : Space n) : p.Ext (percIter N C k p) := by
  induction k generalizing p with
  | zero => exact Space.Ext.refl p
  | succ k ih => exact Space.Ext.trans (percStep_ext N C p) (ih _)

theorem percIter_trap (k : Nat) (p : Space n) (hp : TrapSpace N p) : TrapSpace N (percIter N C k p) := by
  induction k generalizing p with
  | zero => exact hp
  | succ k ih => exact ih _ (percStep_trap N C p hp)

theorem attr_in_percIter (k : Nat) (p : Space n) (hp : TrapSpace N p) (A : State n → Prop)
    (hA : IsAttr N A) (hAp : ∀ s, A s → p.Mem s) : ∀ s, A s → (percIter N C k p).Mem s := by
  induction k generalizing p with
  | zero => exact hAp
  | succ k ih =>
    exact ih _ (percStep_trap N C p hp) (attr_in_percStep N C p hp A hA hAp)

/-- `q` is closed: everything the oracle derives on `q` is already fixed in `q`
    (to the derived value unless `q` inherited a conflicting given value from `p`) -/
def ClosedOver (p q : Space n) : Prop :=
  ∀ i b, C.c i q = some b → ∃ b', q[i] = some b' ∧ (p[i] = none → b' = b)

theorem ClosedOver.step {p q : Space n} (hpq : p.Ext q) (h : ClosedOver N C p q) :
    ClosedOver N C (percStep N C p) q := by
  intro i b hc
  obtain ⟨b', hb', hbb⟩ := h i b hc
  refine ⟨b', hb', ?_⟩
  intro hnone
  apply hbb
  cases hpi : p[i] with
  | none => rfl
  | some b0 =>
    have := percStep_ext N C p i b0 hpi
    rw [hnone] at this; cases this

/-- least-fixed-point property: every closed extension of `p` extends every iterate -/
theorem percIter_least (k : Nat) (p q : Space n) (hpq : p.Ext q) (hq : ClosedOver N C p q) :
    (percIter N C k p).Ext q := by
  induction k generalizing p with
  | zero => exact hpq
  | succ k ih =>
    exact ih _ (percStep_mono_closed N C p q hpq hq) (ClosedOver.step N C hpq hq)

end Balm
