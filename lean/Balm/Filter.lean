namespace Balm.Filter
open Classical

variable {α : Type}

structure Sys (α : Type) where
  R : α → α → Prop
  refl : ∀ s, R s s
  trans : ∀ {a b c}, R a b → R b c → R a c

def IsAttr (S : Sys α) (A : α → Prop) : Prop :=
  (∃ s, A s) ∧ ∀ s, A s → ∀ t, (A t ↔ S.R s t)

theorem attr_eq_of_meet (S : Sys α) {A B : α → Prop} (hA : IsAttr S A) (hB : IsAttr S B)
    {t : α} (ha : A t) (hb : B t) : ∀ u, A u ↔ B u := by
  intro u
  rw [hA.2 t ha u, hB.2 t hb u]

/-- avoid set seen by candidate `c`: later candidates, children region, closures of found seeds -/
def Avoid (S : Sys α) (K : α → Prop) (rest found : List α) (t : α) : Prop :=
  t ∈ rest ∨ K t ∨ ∃ f ∈ found, S.R f t

noncomputable def filt (S : Sys α) (K : α → Prop) : List α → List α → List α
  | [], found => found
  | c :: rest, found =>
    if ∃ t, S.R c t ∧ Avoid S K rest found t then filt S K rest found
    else filt S K rest (c :: found)

/-- own attractor of the node region `X` with children region `K` -/
def Own (S : Sys α) (X K : α → Prop) (A : α → Prop) : Prop :=
  IsAttr S A ∧ (∀ s, A s → X s) ∧ (∀ s, A s → ¬ K s)

structure Good (S : Sys α) (X K : α → Prop) (found : List α) : Prop where
  inOwn : ∀ f ∈ found, ∃ A, Own S X K A ∧ A f
  distinct : found.Pairwise (fun f g => ∀ A, Own S X K A → A f → ¬ A g)

theorem filt_spec (S : Sys α) (X K : α → Prop)
    (hX : ∀ s t, X s → S.R s t → X t)
    (hK : ∀ s t, K s → S.R s t → K t)
    (hterm : ∀ s, X s → ∃ t A, S.R s t ∧ IsAttr S A ∧ A t) :
    ∀ (rest found : List α),
      (∀ c ∈ rest, X c) →
      Good S X K found →
      (∀ A, Own S X K A → (∃ f ∈ found, A f) ∨ (∃ c ∈ rest, A c)) →
      Good S X K (filt S K rest found) ∧
      (∀ A, Own S X K A → ∃ f ∈ filt S K rest found, A f) := by
  intro rest
  induction rest with
  | nil =>
    intro found _ hg hc
    refine ⟨by simpa [filt] using hg, ?_⟩
    intro A hA
    rcases hc A hA with h | ⟨c, hc, _⟩
    · simpa [filt] using h
    · cases hc
  | cons c rest ih =>
    intro found hin hg hc
    have hcX : X c := hin c (List.mem_cons_self)
    have hin' : ∀ c' ∈ rest, X c' := fun c' h => hin c' (List.mem_cons_of_mem _ h)
    by_cases hrej : ∃ t, S.R c t ∧ Avoid S K rest found t
    · -- rejected
      simp only [filt, hrej, if_true]
      apply ih found hin' hg
      intro A hA
      rcases hc A hA with h | ⟨c', hc', hAc'⟩
      · exact Or.inl h
      · rcases List.mem_cons.1 hc' with rfl | hmem
        · -- the witness is `c` itself: use the rejection witness
          obtain ⟨t, hct, hav⟩ := hrej
          have hAt : A t := (hA.1.2 _ hAc' t).2 hct
          rcases hav with h1 | h2 | ⟨f, hf, hft⟩
          · exact Or.inr ⟨t, h1, hAt⟩
          · exact absurd h2 (hA.2.2 t hAt)
          · obtain ⟨B, hB, hBf⟩ := hg.inOwn f hf
            have hBt : B t := (hB.1.2 _ hBf t).2 hft
            have := attr_eq_of_meet S hA.1 hB.1 hAt hBt
            exact Or.inl ⟨f, hf, (this f).2 hBf⟩
        · exact Or.inr ⟨c', hmem, hAc'⟩
    · -- accepted
      simp only [filt, hrej, if_false]
      have hno : ∀ t, S.R c t → ¬ Avoid S K rest found t := fun t h1 h2 => hrej ⟨t, h1, h2⟩
      obtain ⟨t, A, hct, hAattr, hAt⟩ := hterm c hcX
      have hAX : ∀ s, A s → X s := fun s hs =>
        hX c s hcX (S.trans hct ((hAattr.2 t hAt s).1 hs))
      have hAK : ∀ s, A s → ¬ K s := fun s hs hk =>
        hno s (S.trans hct ((hAattr.2 t hAt s).1 hs)) (Or.inr (Or.inl hk))
      have hOwn : Own S X K A := ⟨hAattr, hAX, hAK⟩
      have hnotfound : ¬ ∃ f ∈ found, A f := by
        rintro ⟨f, hf, hAf⟩
        exact hno t hct (Or.inr (Or.inr ⟨f, hf, (hAattr.2 f hAf t).1 hAt⟩))
      have hAc : A c := by
        rcases hc A hOwn with h | ⟨c', hc', hAc'⟩
        · exact absurd h hnotfound
        · rcases List.mem_cons.1 hc' with rfl | hmem
          · exact hAc'
          · exact absurd (Or.inl hmem)
              (hno c' (S.trans hct ((hAattr.2 t hAt c').1 hAc')))
      have hg' : Good S X K (c :: found) := by
        refine ⟨?_, ?_⟩
        · intro f hf
          rcases List.mem_cons.1 hf with rfl | hf
          · exact ⟨A, hOwn, hAc⟩
          · exact hg.inOwn f hf
        · refine List.pairwise_cons.2 ⟨?_, hg.distinct⟩
          intro g hgm B hB hBc hBg
          have := attr_eq_of_meet S hAattr hB.1 hAc hBc
          exact hnotfound ⟨g, hgm, (this g).2 hBg⟩
      apply ih (c :: found) hin' hg'
      intro B hB
      rcases hc B hB with ⟨f, hf, hBf⟩ | ⟨c', hc', hBc'⟩
      · exact Or.inl ⟨f, List.mem_cons_of_mem _ hf, hBf⟩
      · rcases List.mem_cons.1 hc' with rfl | hmem
        · exact Or.inl ⟨c', List.mem_cons_self, hBc'⟩
        · exact Or.inr ⟨c', hmem, hBc'⟩

end Balm.Filter
