namespace Balm

abbrev State (n : Nat) := Vector Bool n
abbrev Space (n : Nat) := Vector (Option Bool) n

def Space.Mem {n} (p : Space n) (s : State n) : Prop :=
  ∀ (i : Fin n) (b : Bool), p[i] = some b → s[i] = b

/-- `q` extends `p`: fixes everything `p` fixes, to the same value. -/
def Space.Ext {n} (p q : Space n) : Prop :=
  ∀ (i : Fin n) (b : Bool), p[i] = some b → q[i] = some b

theorem Space.Ext.refl {n} (p : Space n) : p.Ext p := fun _ _ h => h
theorem Space.Ext.trans {n} {p q r : Space n} (h1 : p.Ext q) (h2 : q.Ext r) : p.Ext r :=
  fun i b h => h2 i b (h1 i b h)

theorem Space.Mem.of_ext {n} {p q : Space n} {s : State n} (h : p.Ext q) (hs : q.Mem s) : p.Mem s :=
  fun i b hp => hs i b (h i b hp)

/-- semantic network: update function of each variable -/
structure Net (n : Nat) where
  f : Fin n → State n → Bool

/-- abstract constancy oracle with its specification -/
structure ConstOn {n} (N : Net n) where
  c : Fin n → Space n → Option Bool
  spec : ∀ i p b, c i p = some b ↔ ∀ s, p.Mem s → N.f i s = b

variable {n : Nat} (N : Net n) (C : ConstOn N)

def percStep (p : Space n) : Space n :=
  Vector.ofFn fun i => match p[i] with
    | some b => some b
    | none => C.c i p

theorem percStep_get (p : Space n) (i : Fin n) :
    (percStep N C p)[i] = match p[i] with | some b => some b | none => C.c i p := by
  simp [percStep]

theorem percStep_ext (p : Space n) : p.Ext (percStep N C p) := by
  intro i b h
  rw [percStep_get]; simp [h]

/-- every space has a member (spaces are never empty) -/
theorem Space.exists_mem (p : Space n) : ∃ s : State n, p.Mem s :=
  ⟨Vector.ofFn fun i => (p[i]).getD false, by
    intro i b h
    have h' : p[i.val] = some b := h
    simp [h']⟩

/-- monotonicity: if q extends p and q is closed under percStep, then q extends percStep p,
    provided q keeps p's given values (no conflicts introduced) -/
theorem percStep_mono_closed (p q : Space n) (hpq : p.Ext q)
    (hq : ∀ i b, C.c i q = some b → ∃ b', q[i] = some b' ∧ (p[i] = none → b' = b)) :
    (percStep N C p).Ext q := by
  intro i b h
  rw [percStep_get] at h
  cases hp : p[i] with
  | some b0 =>
    simp [hp] at h; subst h; exact hpq i b0 hp
  | none =>
    simp [hp] at h
    -- C.c i p = some b → C.c i q = some b
    have hcq : C.c i q = some b := by
      rw [C.spec]; intro s hs
      exact (C.spec i p b).1 h s (Space.Mem.of_ext hpq hs)
    obtain ⟨b', hb', hbb⟩ := hq i b hcq
    rw [hb', hbb hp]

end Balm
