namespace Balm.SDm

variable {σ : Type} [DecidableEq σ]

/-- what the diagram needs to know about the network -/
structure Env (σ : Type) where
  perc : σ → σ
  maxT : σ → List σ                -- stable motifs of a node space, already sorted by key
  good : σ → Prop                  -- percolation-closed trap space
  perc_good : ∀ p, good p → ∀ m ∈ maxT p, good (perc m)

/-- diagram state: node `i` has space `nodes[i]`; one edge triple per motif, in insertion order -/
structure SD (σ : Type) where
  nodes : List σ
  exp   : List Bool
  edges : List (Nat × Nat × σ)

def ensureNode (s : SD σ) (p : σ) : SD σ × Nat :=
  if p ∈ s.nodes then (s, s.nodes.idxOf p)
  else ({ s with nodes := s.nodes ++ [p], exp := s.exp ++ [false] }, s.nodes.length)

def addMotif (E : Env σ) (i : Nat) (s : SD σ) (m : σ) : SD σ :=
  let r := ensureNode s (E.perc m)
  { r.1 with edges := r.1.edges ++ [(i, r.2, m)] }

def expandOne (E : Env σ) (s : SD σ) (i : Nat) : SD σ :=
  match s.nodes[i]?, s.exp[i]? with
  | some p, some false =>
    let s' := (E.maxT p).foldl (addMotif E i) s
    { s' with exp := s'.exp.set i true }
  | _, _ => s

/-- edges leaving `i`, in order -/
def out (s : SD σ) (i : Nat) : List (Nat × Nat × σ) := s.edges.filter (fun e => e.1 == i)

/-- what the out-edges of an expanded node with space `p` must be -/
def want (E : Env σ) (nodes : List σ) (i : Nat) (ms : List σ) : List (Nat × Nat × σ) :=
  ms.map (fun m => (i, nodes.idxOf (E.perc m), m))

/-- invariant; `part = some (i, done)` means node `i` is being expanded and the motifs in `done`
    have been processed so far -/
structure Inv (E : Env σ) (s : SD σ) (part : Option (Nat × List σ)) : Prop where
  len    : s.exp.length = s.nodes.length
  nodup  : s.nodes.Nodup
  good   : ∀ p ∈ s.nodes, E.good p
  src_lt : ∀ e ∈ s.edges, e.1 < s.nodes.length
  stub   : ∀ j, s.exp[j]? = some false → part.map (·.1) ≠ some j → out s j = []
  full   : ∀ j p, s.exp[j]? = some true → s.nodes[j]? = some p →
             out s j = want E s.nodes j (E.maxT p) ∧ ∀ m ∈ E.maxT p, E.perc m ∈ s.nodes
  cur    : ∀ i done, part = some (i, done) →
             s.exp[i]? = some false ∧ out s i = want E s.nodes i done ∧ ∀ m ∈ done, E.perc m ∈ s.nodes

theorem want_stable (E : Env σ) (nodes extra : List σ) (i : Nat) (ms : List σ)
    (h : ∀ m ∈ ms, E.perc m ∈ nodes) :
    want E (nodes ++ extra) i ms = want E nodes i ms := by
  unfold want
  apply List.map_congr_left
  intro m hm
  simp [List.idxOf_append, h m hm]

theorem out_append (s : SD σ) (j : Nat) (e : Nat × Nat × σ) (nodes' : List σ) (exp' : List Bool) :
    out { nodes := nodes', exp := exp', edges := s.edges ++ [e] } j =
      out s j ++ (if e.1 == j then [e] else []) := by
  simp [out, List.filter_append, List.filter_cons]

/-- processing one more motif keeps the partial invariant -/
theorem addMotif_inv (E : Env σ) (s : SD σ) (i : Nat) (p : σ) (done : List σ) (m : σ)
    (hi : s.nodes[i]? = some p) (hm : m ∈ E.maxT p)
    (h : Inv E s (some (i, done))) :
    Inv E (addMotif E i s m) (some (i, done ++ [m])) ∧
    (addMotif E i s m).nodes[i]? = some p := by
  have hgp : E.good p := h.good p (List.mem_of_getElem? hi)
  have hgq : E.good (E.perc m) := E.perc_good p hgp m hm
  have hilt : i < s.nodes.length := by
    have := (List.getElem?_eq_some_iff.1 hi).1; exact this
  obtain ⟨hcexp, hcout, hcmem⟩ := h.cur i done rfl
  by_cases hq : E.perc m ∈ s.nodes
  · -- the child already exists
    have hs : addMotif E i s m =
        { s with edges := s.edges ++ [(i, s.nodes.idxOf (E.perc m), m)] } := by
      simp [addMotif, ensureNode, hq]
    rw [hs]
    refine ⟨⟨h.len, h.nodup, h.good, ?_, ?_, ?_, ?_⟩, hi⟩
    · intro e he
      rcases List.mem_append.1 he with he | he
      · exact h.src_lt e he
      · simp at he; subst he; exact hilt
    · intro j hj hne
      have hji : i ≠ j := by
        intro hij; subst hij; simp at hne
      have := h.stub j hj (by simpa using fun hh => hji hh)
      simp [out_append, this, hji]
    · intro j p' hj hp'
      have hji : i ≠ j := by
        intro hij; subst hij; rw [hcexp] at hj; cases hj
      have := h.full j p' hj hp'
      exact ⟨by simp [out_append, this.1, hji], this.2⟩
    · intro i' done' heq
      cases heq
      refine ⟨hcexp, ?_, ?_⟩
      · simp [out_append, hcout, want]
      · intro m' hm'
        rcases List.mem_append.1 hm' with hm' | hm'
        · exact hcmem m' hm'
        · simp at hm'; subst hm'; exact hq
  · -- a new node is created
    have hs : addMotif E i s m =
        { nodes := s.nodes ++ [E.perc m], exp := s.exp ++ [false],
          edges := s.edges ++ [(i, s.nodes.length, m)] } := by
      simp [addMotif, ensureNode, hq]
    rw [hs]
    have hidx : (s.nodes ++ [E.perc m]).idxOf (E.perc m) = s.nodes.length := by
      simp [List.idxOf_append, hq]
    refine ⟨⟨?_, ?_, ?_, ?_, ?_, ?_, ?_⟩, ?_⟩
    · simp [h.len]
    · exact List.nodup_append.2 ⟨h.nodup, by simp, by
        intro a ha b hb; simp at hb; subst hb; intro hab; subst hab; exact hq ha⟩
    · intro q hqm
      rcases List.mem_append.1 hqm with hqm | hqm
      · exact h.good q hqm
      · simp at hqm; subst hqm; exact hgq
    · intro e he
      rcases List.mem_append.1 he with he | he
      · have := h.src_lt e he; simp; omega
      · simp at he; subst he; simp; omega
    · intro j hj hne
      have hji : i ≠ j := by
        intro hij; subst hij; simp at hne
      by_cases hjl : j < s.exp.length
      · have hj' : s.exp[j]? = some false := by
          rwa [List.getElem?_append_left hjl] at hj
        have := h.stub j hj' (by simpa using fun hh => hji hh)
        simp [out_append, this, hji]
      · -- the freshly created node: nothing points out of it yet
        have hge : s.nodes.length ≤ j := by rw [← h.len]; omega
        have : out s j = [] := by
          simp only [out, List.filter_eq_nil_iff]
          intro e he
          have := h.src_lt e he
          simp; omega
        simp [out_append, this, hji]
    · intro j p' hj hp'
      have hjl : j < s.exp.length := by
        rcases Nat.lt_or_ge j s.exp.length with hlt | hge
        · exact hlt
        exfalso
        rw [List.getElem?_append_right hge] at hj
        have : j - s.exp.length = 0 ∨ 0 < j - s.exp.length := by omega
        rcases this with h0 | h0
        · simp [h0] at hj
        · have : ([false] : List Bool)[j - s.exp.length]? = none := by
            apply List.getElem?_eq_none; simp; omega
          rw [this] at hj; cases hj
      have hj' : s.exp[j]? = some true := by rwa [List.getElem?_append_left hjl] at hj
      have hp'' : s.nodes[j]? = some p' := by
        rwa [List.getElem?_append_left (by rw [← h.len]; exact hjl)] at hp'
      have hji : i ≠ j := by
        intro hij; subst hij; rw [hcexp] at hj'; cases hj'
      obtain ⟨hout, hmem⟩ := h.full j p' hj' hp''
      refine ⟨?_, fun m' hm' => List.mem_append_left _ (hmem m' hm')⟩
      rw [out_append, want_stable E s.nodes _ j _ hmem]
      simp [hout, hji]
    · intro i' done' heq
      cases heq
      refine ⟨?_, ?_, ?_⟩
      · rw [List.getElem?_append_left (by rw [h.len]; exact hilt)]; exact hcexp
      · rw [out_append]
        simp only [beq_self_eq_true, if_true]
        unfold want
        rw [List.map_append]
        congr 1
        · have := want_stable E s.nodes [E.perc m] i done hcmem
          unfold want at this
          rw [this]; exact hcout
        · simp [hidx]
      · intro m' hm'
        rcases List.mem_append.1 hm' with hm' | hm'
        · exact List.mem_append_left _ (hcmem m' hm')
        · simp at hm'; subst hm'; simp
    · rw [List.getElem?_append_left hilt]; exact hi


theorem foldl_inv (E : Env σ) (i : Nat) (p : σ) :
    ∀ (ms done : List σ) (s : SD σ),
      (∀ m ∈ ms, m ∈ E.maxT p) → s.nodes[i]? = some p → Inv E s (some (i, done)) →
      Inv E (ms.foldl (addMotif E i) s) (some (i, done ++ ms)) ∧
        (ms.foldl (addMotif E i) s).nodes[i]? = some p := by
  intro ms
  induction ms with
  | nil => intro done s _ hi h; simpa using ⟨h, hi⟩
  | cons m ms ih =>
    intro done s hms hi h
    obtain ⟨h1, hi1⟩ := addMotif_inv E s i p done m hi (hms m List.mem_cons_self) h
    have := ih (done ++ [m]) (addMotif E i s m)
      (fun m' hm' => hms m' (List.mem_cons_of_mem _ hm')) hi1 h1
    simpa [List.foldl_cons, List.append_assoc] using this

/-- the central step of C02/C04/C15: expanding one node preserves the invariant -/
theorem expandOne_inv (E : Env σ) (s : SD σ) (i : Nat) (h : Inv E s none) :
    Inv E (expandOne E s i) none := by
  unfold expandOne
  split
  · rename_i p hp he
    -- start the partial invariant with no motif processed
    have h0 : Inv E s (some (i, [])) := by
      refine ⟨h.len, h.nodup, h.good, h.src_lt, ?_, h.full, ?_⟩
      · intro j hj _; exact h.stub j hj (by simp)
      · intro i' done' heq; cases heq
        exact ⟨he, by simpa [want] using h.stub i he (by simp), by simp⟩
    obtain ⟨h1, hi1⟩ := foldl_inv E i p (E.maxT p) [] s (fun _ hm => hm) hp h0
    simp only [List.nil_append] at h1
    obtain ⟨hcexp, hcout, hcmem⟩ := h1.cur i (E.maxT p) rfl
    have hil : i < ((E.maxT p).foldl (addMotif E i) s).exp.length := by
      have := (List.getElem?_eq_some_iff.1 hcexp).1; exact this
    refine ⟨by simpa using h1.len, h1.nodup, h1.good, h1.src_lt, ?_, ?_, ?_⟩
    · intro j hj _
      have hji : i ≠ j := by
        intro hij; subst hij
        rw [List.getElem?_set_self hil] at hj; cases hj
      rw [List.getElem?_set_ne hji] at hj
      exact h1.stub j hj (by simpa using fun hh => hji hh)
    · intro j p' hj hp'
      by_cases hji : i = j
      · subst hji
        have : p' = p := by
          have h2 : ((E.maxT p).foldl (addMotif E i) s).nodes[i]? = some p' := hp'
          rw [hi1] at h2; cases h2; rfl
        subst this
        exact ⟨hcout, hcmem⟩
      · rw [List.getElem?_set_ne hji] at hj
        exact h1.full j p' hj hp'
    · intro i' done' heq; cases heq
  · exact h


/-- fresh diagram: the root only -/
def init (root : σ) : SD σ := { nodes := [root], exp := [false], edges := [] }

theorem init_inv (E : Env σ) (root : σ) (hr : E.good root) : Inv E (init root) none := by
  refine ⟨rfl, by simp [init], ?_, ?_, ?_, ?_, ?_⟩
  · intro p hp; simp [init] at hp; subst hp; exact hr
  · intro e he; simp [init] at he
  · intro j _ _; simp [out, init]
  · intro j p hj _
    simp only [init] at hj
    match j, hj with
    | 0, hj => simp at hj
    | j+1, hj => simp at hj
  · intro i done heq; cases heq

/-- expansion with the stable-motif limit of `_expand_one_node`: the solver is asked for at most
    `max 1 limit` motifs and the error is raised when that many come back (so a shorter answer is
    complete); the error leaves the diagram untouched -/
def expandOneLimited (E : Env σ) (limit : Nat) (s : SD σ) (i : Nat) : SD σ × Bool :=
  match s.nodes[i]?, s.exp[i]? with
  | some p, some false =>
    if decide ((E.maxT p).length ≥ max 1 limit) then (s, false) else (expandOne E s i, true)
  | _, _ => (s, true)

theorem expandOneLimited_inv (E : Env σ) (limit : Nat) (s : SD σ) (i : Nat) (h : Inv E s none) :
    Inv E (expandOneLimited E limit s i).1 none := by
  unfold expandOneLimited
  split
  · split
    · exact h
    · exact expandOne_inv E s i h
  · exact h

/-- C04 core: after ANY sequence of single-node expansions (this is all that BFS, DFS,
    minimal-space, attractor-seed, target-directed and block-without-shortcut drivers do to
    the diagram), with any limit, the invariant holds -/
theorem plain_history_inv (E : Env σ) (limit : Nat) (root : σ) (hr : E.good root) (ops : List Nat) :
    Inv E (ops.foldl (fun s i => (expandOneLimited E limit s i).1) (init root)) none := by
  have : ∀ (ops : List Nat) (s : SD σ), Inv E s none →
      Inv E (ops.foldl (fun s i => (expandOneLimited E limit s i).1) s) none := by
    intro ops
    induction ops with
    | nil => intro s h; exact h
    | cons i ops ih => intro s h; exact ih _ (expandOneLimited_inv E limit s i h)
  exact this ops _ (init_inv E root hr)

/-- non-vacuity: a two-space environment where the root has one motif -/
example : ∃ (E : Env Nat) (s : SD Nat), Inv E s none ∧ s.nodes = [0, 1] ∧ s.exp = [true, false] := by
  let E : Env Nat := { perc := id, maxT := fun p => if p = 0 then [1] else [], good := fun _ => True,
                       perc_good := fun _ _ _ _ => trivial }
  exact ⟨E, expandOne E (init 0) 0, expandOne_inv E _ 0 (init_inv E 0 trivial), by decide, by decide⟩

end Balm.SDm
