import Balm.Impl.Solver
/-!
# Model of the branching logic of `compute_attractor_candidates` (C08)

The model mirrors the (repaired) function up to – and excluding – simulation pruning: the fixed-point
shortcut, the empty-NFVS rule, the heuristic retained set, the non-greedy branch, the "small" branch
with greedy flipping, the regeneration branch (with its inner greedy call), all limit comparisons and
the pseudo-minimal single-candidate shortcut.  The reduced-STG solver is a parameter
`solve : retained → limit → answer`; in the driver it replays the answers the real solver gave (the
transcript), after validating each against `reducedFixedPoints`.  The model also returns the sequence
of solver calls it issued, which must equal the recorded sequence.
-/
namespace Balm.Impl

open Balm

variable {n : Nat}

inductive CandOut (n : Nat) where
  | err
  | ok (cands : List (State n))

structure CandCfg where
  threshold : Nat     -- retained_set_optimization_threshold
  limit : Nat         -- attractor_candidates_limit

/-- solver call log entry: retained map and limit -/
abbrev Call (n : Nat) := Space n × Nat

structure CandSt (n : Nat) where
  retained : Space n
  cands : List (State n)
  calls : List (Call n)

def flipVar (r : Space n) (v : Fin n) : Space n := r.set v ((r[v]).map (!·))

/-- `asp_greedy_retained_set_optimization`; `keys` = the keys of the retained map in dictionary order -/
def greedyPass (solve : Space n → Nat → List (State n)) (avoidEmpty : Bool) :
    List (Fin n) → CandSt n → Bool → CandSt n × Bool × Bool
  -- returns (state, done flag of this pass, early-return flag)
  | [], st, done => (st, done, false)
  | v :: vs, st, done =>
    if st.cands.isEmpty then (st, done, true)
    else if avoidEmpty && st.cands.length == 1 then (st, done, true)
    else
      let r2 := flipVar st.retained v
      let c2 := solve r2 st.cands.length
      let calls := st.calls ++ [(r2, st.cands.length)]
      if c2.length < st.cands.length then greedyPass solve avoidEmpty vs { retained := r2, cands := c2, calls := calls } false
      else greedyPass solve avoidEmpty vs { st with calls := calls } done

def greedyLoop (solve : Space n → Nat → List (State n)) (avoidEmpty : Bool) (keys : List (Fin n)) :
    Nat → CandSt n → CandSt n
  | 0, st => st
  | fuel+1, st =>
    let (st', done, early) := greedyPass solve avoidEmpty keys st true
    if early || done then st' else greedyLoop solve avoidEmpty keys fuel st'

/-- majority value of the update function of `v` on the node's space (`fn_bdd.cardinality()` test) -/
def majority (N : Net n) (node : Space n) (v : Fin n) : Bool :=
  let ss := statesOf node
  decide ((ss.filter fun s => N.f v s).length > (ss.filter fun s => !N.f v s).length)

/-- `make_heuristic_retained_set` as a map (the dictionary order is supplied by the transcript) -/
def heuristicRetained (N : Net n) (node : Space n) (nfvs : List (Fin n)) (avoid : List (Space n)) : Space n :=
  let common (a : Space n) := (nfvs.filter fun v => (a[v]).isSome).length
  let least := avoid.foldl (fun (best : Option (Space n)) a =>
      match best with
      | none => some a
      | some b => if common a < common b then some a else some b) none
  Vector.ofFn fun v =>
    if nfvs.contains v then
      match least.bind (fun a => a[v]) with
      | some b => some b
      | none => some (majority N node v)
    else none

/-- the better of the two one-variable extensions (ties keep the `false` extension) -/
def pickSt (r0 r1 : Space n) (z o : List (State n)) (calls : List (Call n)) : CandSt n :=
  if z.length ≤ o.length then { retained := r0, cands := z, calls := calls }
  else { retained := r1, cands := o, calls := calls }

/-- the regeneration loop body for one NFVS variable -/
def regenVar (solve : Space n → Nat → List (State n)) (cfg : CandCfg) (limitC : Nat) (avoidEmpty : Bool)
    (keysOf : Space n → List (Fin n)) (st : CandSt n) (v : Fin n) : Option (CandSt n) :=
  let r0 := st.retained.set v (some false)
  let z := solve r0 limitC
  let calls := st.calls ++ [(r0, limitC)]
  if z.length ≤ st.cands.length then some { retained := r0, cands := z, calls := calls }
  else
    let r1 := st.retained.set v (some true)
    let o := solve r1 z.length
    let calls := calls ++ [(r1, z.length)]
    if z.length ≥ limitC && o.length ≥ limitC then none
    else if o.length ≤ st.cands.length then some { retained := r1, cands := o, calls := calls }
    else
      let st' : CandSt n := pickSt r0 r1 z o calls
      if st'.cands.length > cfg.threshold then
        some (greedyLoop solve avoidEmpty (keysOf st'.retained) (st'.cands.length + 2) st')
      else some st'

def regenLoop (solve : Space n → Nat → List (State n)) (cfg : CandCfg) (limitC : Nat) (avoidEmpty : Bool)
    (keysOf : Space n → List (Fin n)) : List (Fin n) → CandSt n → Option (CandSt n)
  | [], st => some st
  | v :: vs, st => match regenVar solve cfg limitC avoidEmpty keysOf st v with
    | none => none
    | some st' => regenLoop solve cfg limitC avoidEmpty keysOf vs st'

def fullState (node : Space n) : Option (State n) :=
  if (List.finRange n).all fun i => (node[i]).isSome then some (Vector.ofFn fun i => (node[i]).getD false) else none

/-- `compute_attractor_candidates` without simulation/pint pruning.  `retained0` is the heuristic
    retained set (validated by the driver against `heuristicRetained`), `keys0` its dictionary order;
    `keysOf` gives the dictionary order of a regenerated retained map (NFVS order). -/
def candidatesModel (solve : Space n → Nat → List (State n)) (cfg : CandCfg) (node : Space n)
    (avoidEmpty : Bool) (nfvs : List (Fin n)) (retained0 : Space n) (keys0 : List (Fin n)) (greedy : Bool) :
    CandOut n × List (Call n) :=
  match fullState node with
  | some s => (.ok [s], [])
  | none =>
    if nfvs.isEmpty && !avoidEmpty then (.ok [], [])
    else
      let limitC := max 1 cfg.limit
      let finish (st : CandSt n) : CandOut n × List (Call n) := (.ok st.cands, st.calls)
      if !greedy then
        let c := solve retained0 limitC
        if c.length ≥ limitC then (.err, [(retained0, limitC)]) else (.ok c, [(retained0, limitC)])
      else
        let c := solve retained0 cfg.threshold
        let st0 : CandSt n := { retained := retained0, cands := c, calls := [(retained0, cfg.threshold)] }
        if c.length < cfg.threshold then
          if c.length > 1 || (!avoidEmpty && c.length > 0) then
            finish (greedyLoop solve avoidEmpty keys0 (c.length + 2) st0)
          else finish st0
        else
          let st1 : CandSt n := { retained := top, cands := [], calls := st0.calls }
          let keysOf (r : Space n) : List (Fin n) := nfvs.filter fun v => (r[v]).isSome
          if nfvs.isEmpty then
            let c := solve top limitC
            if c.length ≥ limitC then (.err, st1.calls ++ [(top, limitC)]) else (.ok c, st1.calls ++ [(top, limitC)])
          else
            match regenLoop solve cfg limitC avoidEmpty keysOf nfvs st1 with
            | none => (.err, [])
            | some st => finish st

end Balm.Impl
