import Balm.Impl.Attr
/-!
# Executable model of `compute_attractors_symbolic` and of the seed logic of `node_attractor_seeds`

`biobalm/_sd_attractors/attractor_symbolic.py::compute_attractors_symbolic` walks over the candidate
states of a node.  It keeps an *avoid* set (initially: all candidates and the stable motifs of the
children), removes the current candidate from it, runs `symbolic_attractor_test` (forward
reachability from the candidate; `None` as soon as the avoid set is met, the reachable set
otherwise), and on success records the candidate as a seed and adds its reachable set to the avoid
set.  With `seeds_only` a (pseudo-)minimal node returns its last candidate unchecked *if no seed
has been found so far*.

The model works on full states of the network `N` (the real code works on the network percolated
to the node's space; property C10 ties the two).  `symTest` is the specification of
`symbolic_attractor_test` (partial correctness of the real saturation loop: `AttrTest.exit_none /
exit_some`); the loop around it is modelled literally, including the way the avoid set evolves.
Its specification is `BalmProofs/SymLoopSpec.lean`.
-/
namespace Balm.Impl

open Balm

variable {n : Nat}

/-- `symbolic_attractor_test`: the states reachable from `pivot`, or `none` if one of them is avoided -/
def symTest (N : Net n) (pivot : State n) (avoid : List (State n)) : Option (List (State n)) :=
  let R := reachSet N pivot
  if R.any (fun t => avoid.contains t) then none else some R

structure SymOut (n : Nat) where
  seeds : List (State n)
  sets : Option (List (List (State n)))

/-- the candidate loop: `rest` = candidates still to be examined, `avoid` = current avoid set -/
def symLoop (N : Net n) (seedsOnly minimal : Bool) :
    List (State n) → List (State n) → List (State n) → List (List (State n)) → SymOut n
  | [], _, seeds, sets => ⟨seeds, some sets⟩
  | c :: rest, avoid, seeds, sets =>
    if seedsOnly && minimal && rest.isEmpty && seeds.isEmpty then ⟨[c], none⟩
    else
      let avoid' := avoid.filter (fun t => t != c)
      match symTest N c avoid' with
      | none => symLoop N seedsOnly minimal rest avoid' seeds sets
      | some R => symLoop N seedsOnly minimal rest (avoid' ++ R) (seeds ++ [c]) (sets ++ [R])

/-- states of the node's space `p` that lie in one of the children's stable motifs -/
def motifStates (p : Space n) (motifs : List (Space n)) : List (State n) :=
  (statesOf p).filter fun s => motifs.any fun m => m.memB s

/-- `compute_attractors_symbolic(sd, node, candidates, seeds_only)` for a node with space `p` whose
    outgoing edges carry the stable motifs `motifs` (none for a stub) -/
def symbolicSeeds (N : Net n) (p : Space n) (motifs : List (Space n)) (cands : List (State n))
    (seedsOnly : Bool) : SymOut n :=
  symLoop N seedsOnly motifs.isEmpty cands (cands ++ motifStates p motifs) [] []

/-- the seed part of `SuccessionDiagram.node_attractor_seeds`: no candidate, or a single candidate of
    a (pseudo-)minimal node, is taken as it is; otherwise the candidates go through the loop -/
def nodeSeeds (N : Net n) (p : Space n) (motifs : List (Space n)) (cands : List (State n)) : SymOut n :=
  if cands.isEmpty || (motifs.isEmpty && cands.length == 1) then ⟨cands, none⟩
  else symbolicSeeds N p motifs cands true

/-- `s` lies in the node's space and in one of the motifs -/
def inK (p : Space n) (motifs : List (Space n)) (s : State n) : Bool :=
  p.memB s && motifs.any fun m => m.memB s

def nodupB : List (State n) → Bool
  | [] => true
  | x :: xs => !xs.contains x && nodupB xs

/-- the hypotheses of `symbolicSeeds_spec`, evaluated on one concrete call: `p` is a trap space; the candidates are
    pairwise distinct states of `p` outside the motifs; every attractor inside `p` that meets no motif contains one -/
def symHypB (N : Net n) (p : Space n) (motifs : List (Space n)) (cands : List (State n)) : Bool :=
  isTrapB N p &&
  cands.all (fun c => p.memB c && !inK p motifs c) &&
  nodupB cands &&
  (attractors N).all fun A =>
    !(A.all (fun s => p.memB s && !inK p motifs s)) || cands.any fun c => A.contains c

end Balm.Impl

namespace Balm.Impl

open Balm

variable {n : Nat}

/-- `symbolic_attractor_fallback` on an ordinary node, by the specifications of its parts: the states of the node's
    space outside the successor spaces, minus everything that can reach a successor space (`reach_bwd` of the union of
    the successor spaces); the attractors inside what is left (`xie_beerel`; `transition_guided_reduction` only removes
    states that lie in no attractor of the set).  For a stub there are no successor spaces. -/
def fallbackRegion (N : Net n) (p : Space n) (succSpaces : List (Space n)) : List (State n) :=
  (statesOf p).filter fun s =>
    !(succSpaces.any fun q => q.memB s) && !((reachSet N s).any fun t => succSpaces.any fun q => q.memB t)

def fallbackAttrs (N : Net n) (p : Space n) (succSpaces : List (Space n)) : List (List (State n)) :=
  (attractors N).filter fun A => A.all fun s => (fallbackRegion N p succSpaces).contains s

end Balm.Impl
