import Balm.Impl.Diagram
/-!
# Model of `expand_attractor_seeds` (C04)

First the minimal-space expansion (its result is ignored), then a depth-first traversal from the root
in which an unexpanded successor is followed only if the reduced-transition-graph solver finds a
candidate state in it outside the stable motifs of its already expanded siblings.  Those solver
verdicts are replayed from the transcript (`found`), in the order they are asked for; the structural
state is touched through `expandNode` only.
-/
namespace Balm.Impl

open Balm

variable {n : Nat}

/-- the inner `while len(successors) > 0` loop: returns the remaining successors (head = the one to
    follow, `[]` = node finished) and the unconsumed verdicts -/
def seedScan (d : Diag n) (seen : List Nat) : List Nat → List Bool → List Nat × List Bool
  | [], found => ([], found)
  | s :: rest, found =>
    if seen.contains s then seedScan d seen rest found
    else if d.isExp s then (s :: rest, found)
    else match found with
      | [] => ([], [])                          -- transcript exhausted (reported by the driver)
      | b :: found' => if b then (s :: rest, found') else seedScan d seen rest found'

def seedLoop (c : Ctx n) (szLimit : Option Nat) :
    Nat → Diag n → List Nat → List (Nat × Option (List Nat)) → List Bool → Diag n × Outcome × List Bool
  | 0, d, _, _, found => (d, .ok true, found)
  | _, d, _, [], found => (d, .ok true, found)
  | fuel+1, d, seen, (node, succ?) :: stack, found =>
    let step (d : Diag n) (succ : List Nat) : Diag n × Outcome × List Bool :=
      let (succ', found') := seedScan d seen succ found
      match succ' with
      | [] => seedLoop c szLimit fuel d seen stack found'
      | s :: rest => seedLoop c szLimit fuel d (s :: seen) ((s, none) :: (node, some rest) :: stack) found'
    match succ? with
    | some succ => step d succ
    | none =>
      if hit szLimit d.size && !d.isExp node then (d, .ok false, found)
      else
        let (d', okk) := expandNode c d node
        if !okk then (d', .err, found) else step d' (sortNat (d'.succs node))

/-- `expand_attractor_seeds(size_limit)` given the answer of the `min` solver and the verdicts of the
    reduced-transition-graph solver -/
def expandASeeds (c : Ctx n) (d : Diag n) (szLimit : Option Nat) (allMins : List (Space n)) (found : List Bool) :
    Diag n × Outcome × List Bool :=
  let (d1, o1) := expandMinimalWith c d 0 szLimit false allMins
  match o1 with
  | .err => (d1, .err, found)
  | _ => seedLoop c szLimit (2 * fuelOf n * fuelOf n) d1 [0] [(0, none)] found

end Balm.Impl
