import Balm.Impl.Judge
/-!
# Which regions a skip node may ignore (C05, C16)

`compute_attractor_candidates` and `symbolic_attractor_fallback` let a skip node `S` ignore the
intersection `S ∩ n` with another node `n` when (a) `S ⊄ n`, (b) `n` is not a skip node and every node
below `n` is an ordinary expanded node, and (c) the attractor search in `n` gave an empty answer
(`attractor_candidates == []` or `attractor_seeds == []`).  `skipExclusions` is that rule on a dump of
the real diagram; the harness compares it with the list of avoided spaces the real code hands to the
solver.  `exclusion_sound`: under (b) and (c) every attractor inside `n` is an *own* attractor (inside
the node, inside none of its successors) of an ordinary expanded node reachable from `n` – so it is
reported there and the skip node loses nothing by ignoring it.
-/
namespace Balm.Impl

open Balm

variable {n : Nat}

/-- every node reachable from `i` by a non-empty path (of length ≤ fuel) is expanded and not skipped;
    `false` when the fuel runs out -/
def ordBelow (d : Dump n) : Nat → Nat → Bool
  | 0, _ => false
  | f+1, i => (d.succ i).all fun j => (d.node j).expanded && !(d.node j).skipped && ordBelow d f j

/-- condition (b); paths of a diagram over `n` variables have at most `n` edges -/
def Dump.fullyOrdinary (d : Dump n) (i : Nat) : Bool := !(d.node i).skipped && ordBelow d (n + 2) i

def interS (p q : Space n) : Option (Space n) :=
  if interB p q then some (Vector.ofFn fun i => match p[i] with | some b => some b | none => q[i]) else none

/-- the regions the skip node with space `S` ignores; `emptyOwn` = ids of the nodes with an empty answer -/
def skipExclusions (d : Dump n) (emptyOwn : List Nat) (S : Space n) : List (Space n) :=
  (List.range d.nodes.length).filterMap fun i =>
    if S.leB (d.space i) then none
    else if !d.fullyOrdinary i then none
    else if emptyOwn.contains i then interS S (d.space i) else none

/-- `A` is an own attractor of node `i` -/
def ownOf (d : Dump n) (A : List (State n)) (i : Nat) : Bool :=
  attrIn A (d.space i) && !((d.succ i).any fun j => attrIn A (d.space j))

/-- reachability along the edges of the dump -/
inductive DReach (d : Dump n) : Nat → Nat → Prop
  | refl (i) : DReach d i i
  | step {i j k} : j ∈ d.succ i → DReach d j k → DReach d i k

theorem ordBelow_own (d : Dump n) (A : List (State n)) :
    ∀ (f i : Nat), ordBelow d f i = true → attrIn A (d.space i) = true →
      ∃ m, DReach d i m ∧ ownOf d A m = true ∧
        (m = i ∨ ((d.node m).expanded = true ∧ (d.node m).skipped = false)) := by
  intro f
  induction f with
  | zero => intro i h; simp [ordBelow] at h
  | succ f ih =>
    intro i h hin
    simp only [ordBelow, List.all_eq_true, Bool.and_eq_true, Bool.not_eq_true'] at h
    by_cases hc : (d.succ i).any (fun j => attrIn A (d.space j)) = true
    · obtain ⟨j, hj, hA⟩ := List.any_eq_true.1 hc
      obtain ⟨⟨he, hs⟩, ho⟩ := h j hj
      obtain ⟨m, hr, hown, hm⟩ := ih j ho hA
      refine ⟨m, DReach.step hj hr, hown, Or.inr ?_⟩
      rcases hm with rfl | hm
      · exact ⟨he, hs⟩
      · exact hm
    · refine ⟨i, DReach.refl i, ?_, Or.inl rfl⟩
      simp only [ownOf, Bool.and_eq_true, Bool.not_eq_true']
      exact ⟨hin, by simpa using hc⟩

theorem memB_interS {p q r : Space n} (h : interS p q = some r) (s : State n) (hs : r.memB s = true) :
    q.memB s = true := by
  unfold interS at h
  split at h
  · rename_i hc
    cases h
    rw [Space.memB_iff] at hs ⊢
    intro i b hq
    simp only [interB, List.all_eq_true, List.mem_finRange, true_implies] at hc
    have hci := hc i
    apply hs i b
    simp only [Fin.getElem_fin, Vector.getElem_ofFn]
    cases hp : p[i] with
    | none => simpa using hq
    | some a =>
      have hp' : p[i.val] = some a := hp
      have hq' : q[i.val] = some b := hq
      simp only [Fin.getElem_fin, hp', hq', beq_iff_eq] at hci
      simp [hci]
  · cases h

/-- **C05 (`exclusion_sound`).** A region ignored by a skip node contains only attractors that are own
    attractors of ordinary expanded nodes, provided the nodes flagged as "empty answer" indeed have no
    own attractor (that is C01/C08 for ordinary nodes). -/
theorem exclusion_sound (d : Dump n) (atts : List (List (State n))) (emptyOwn : List Nat) (S q : Space n)
    (hempty : ∀ i ∈ emptyOwn, ∀ A ∈ atts, ownOf d A i = false)
    (hq : q ∈ skipExclusions d emptyOwn S) (A : List (State n)) (hA : A ∈ atts) (hin : attrIn A q = true) :
    ∃ m, ownOf d A m = true ∧ (d.node m).expanded = true ∧ (d.node m).skipped = false := by
  simp only [skipExclusions, List.mem_filterMap, List.mem_range] at hq
  obtain ⟨i, _, hi⟩ := hq
  split at hi
  · cases hi
  · split at hi
    · cases hi
    · rename_i hord
      split at hi
      · rename_i hemp
        simp only [Dump.fullyOrdinary, Bool.not_eq_true, Bool.not_eq_false', Bool.and_eq_true] at hord
        have hinp : attrIn A (d.space i) = true := by
          simp only [attrIn, List.all_eq_true] at hin ⊢
          intro s hs
          exact memB_interS hi s (hin s hs)
        obtain ⟨m, _, hown, hm⟩ := ordBelow_own d A _ i hord.2 hinp
        rcases hm with rfl | hm
        · have := hempty m (by simpa using hemp) A hA
          rw [this] at hown; cases hown
        · exact ⟨m, hown, hm.1, hm.2⟩
      · cases hi

end Balm.Impl
