import Balm.Impl.Diagram
import Balm.Impl.Nfvs
/-!
# Model of `expand_block` without source shortcuts and without the motif-avoidant check (C04)

`expand_source_blocks(sd, check_maa=False, optimize_source_nodes=False)`: a level-wise traversal that
expands a node in the ordinary way (`_expand_one_node`) and then follows only the successors of *one*
block - the smallest of the inclusion-minimal sets "everything the variables of the stable motif
depend on, in the node's percolated network".  The state is touched through `expandNode` only.
-/
namespace Balm.Impl

open Balm

variable {n : Nat}

/-- `u` is a regulator of `v` in the network percolated to `p` (essential dependence inside `p`) -/
def regB (N : Net n) (p : Space n) (u v : Fin n) : Bool := depB N p u v false || depB N p u v true

def bwdStep (N : Net n) (p : Space n) (cur : List (Fin n)) : List (Fin n) :=
  (List.finRange n).filter fun u => cur.contains u || cur.any fun v => regB N p u v

/-- `backward_reachable`: the variables and everything they (transitively) depend on, in index order -/
def iter {α : Type} (f : α → α) : Nat → α → α
  | 0, x => x
  | k+1, x => iter f k (f x)

def bwdReach (N : Net n) (p : Space n) (seed : List (Fin n)) : List (Fin n) :=
  iter (bwdStep N p) n ((List.finRange n).filter seed.contains)

/-- the `motif` attribute of an edge: the first stable motif recorded for it -/
def firstMotif (d : Diag n) (i j : Nat) : Option (Space n) :=
  ((SDm.out d.core i).find? (·.2.1 == j)).map (·.2.2)

/-- variables of the reduced stable motif -/
def reducedKeys (p m : Space n) : List (Fin n) :=
  (List.finRange n).filter fun k => (m[k]).isSome && (p[k]).isNone

def blockOfSucc (N : Net n) (d : Diag n) (node s : Nat) : List (Fin n) :=
  match firstMotif d node s with
  | some m => bwdReach N (d.space node) (reducedKeys (d.space node) m)
  | none => []

/-- successors grouped by block, blocks in order of first appearance -/
def groupBlocks : List (Nat × List (Fin n)) → List (List (Fin n) × List Nat) → List (List (Fin n) × List Nat)
  | [], acc => acc
  | (s, b) :: rest, acc =>
    if acc.any (·.1 == b) then groupBlocks rest (acc.map fun e => if e.1 == b then (e.1, e.2 ++ [s]) else e)
    else groupBlocks rest (acc ++ [(b, [s])])

/-- proper inclusion of canonical (index-ordered, duplicate-free) variable lists -/
def properSubset (a b : List (Fin n)) : Bool := a.all b.contains && decide (a.length < b.length)

/-- the successors to follow: those of the smallest inclusion-minimal block (stable sort, first wins) -/
def chooseBlock (blocks : List (List (Fin n) × List Nat)) : List Nat :=
  let minimal := if blocks.length > 1 then blocks.filter fun b => !(blocks.any fun b2 => properSubset b2.1 b.1) else blocks
  match minimal.mergeSort (fun x y => x.2.length ≤ y.2.length) with
  | [] => []
  | b :: _ => b.2

def addSet (xs : List Nat) (acc : List Nat) : List Nat := xs.foldl (fun a x => if a.contains x then a else a ++ [x]) acc

/-- ids of the nodes that are expanded (the `expanded_before` set taken when the call starts) -/
def expandedIds (d : Diag n) : List Nat := (List.range d.size).filter d.isExp

/-- `before`: nodes that were expanded before the call and have not been met yet.  Such a node is
    traversed through *all* its successors (they were not selected by this procedure); a node expanded
    by the call itself is skipped when it is met again.  A level is a set, so a node occurs at most once
    in it: the nodes of `before` met on a level are removed after the level (`blockLoop`). -/
def blockLevel (c : Ctx n) (szLimit : Option Nat) (before : List Nat) :
    List Nat → Diag n → List Nat → Diag n × List Nat × Option Outcome
  | [], d, next => (d, next, none)
  | node :: rest, d, next =>
    if d.isExp node then
      if before.contains node then blockLevel c szLimit before rest d (addSet (d.succs node) next)
      else blockLevel c szLimit before rest d next
    else if hit szLimit d.size then (d, next, some (.ok false))
    else
      let (d', okk) := expandNode c d node
      if !okk then (d', next, some .err)
      else
        let succ := sortNat (d'.succs node)
        match succ with
        | [] => blockLevel c szLimit before rest d' next
        | [s] => blockLevel c szLimit before rest d' (addSet [s] next)
        | _ =>
          let blocks := groupBlocks (succ.map fun s => (s, blockOfSucc c.N d' node s)) []
          blockLevel c szLimit before rest d' (addSet (chooseBlock blocks) next)

def blockLoop (c : Ctx n) (szLimit : Option Nat) : Nat → Diag n → List Nat → List Nat → Diag n × Outcome
  | 0, d, _, _ => (d, .ok true)
  | fuel+1, d, cur, before =>
    if cur.isEmpty then (d, .ok true) else
    let (d', next, early) := blockLevel c szLimit before (sortNat cur) d []
    match early with
    | some o => (d', o)
    | none => blockLoop c szLimit fuel d' next (before.filter fun b => !cur.contains b)

/-- `expand_block(find_motif_avoidant_attractors=False, optimize_source_nodes=False, size_limit)` -/
def expandBlock (c : Ctx n) (d : Diag n) (szLimit : Option Nat) : Diag n × Outcome :=
  blockLoop c szLimit (fuelOf n) d [0] (expandedIds d)

end Balm.Impl

namespace Balm.Impl

open Balm

variable {n : Nat}

/-! ### the general traversal: source shortcuts and the motif-avoidant check as an oracle

`expand_source_blocks(sd, check_maa, size_limit, optimize_source_nodes)`.  The verdicts "this block has
no motif-avoidant attractor candidate" are outcomes of candidate computations on component
sub-diagrams; the model consumes them from a transcript (`clean`), in the order they are asked for. -/

/-- source variables of the network percolated to `p`: free and with identity update inside `p` -/
def sourcesIn (N : Net n) (p : Space n) : List (Fin n) :=
  (List.finRange n).filter fun i => (p[i]).isNone && (statesOf p).all fun s => N.f i s == s[i]

/-- all valuations of the given variables on top of `p`, in `itertools.product` order -/
def valuations (p : Space n) : List (Fin n) → List (Space n)
  | [] => [p]
  | v :: vs => (valuations (p.set v (some false)) vs) ++ (valuations (p.set v (some true)) vs)

structure BlockCfg where
  checkMaa : Bool
  optSrc : Bool
  szLimit : Option Nat

/-- first clean block, consuming one verdict per block asked -/
def pickClean : List (List (Fin n) × List Nat) → List Bool → Option (List Nat) × List Bool
  | [], clean => (none, clean)
  | b :: bs, [] => pickClean bs []          -- transcript exhausted: treated as "not clean"
  | b :: bs, v :: clean => if v then (some b.2, clean) else pickClean bs clean

def minimalBlocks (blocks : List (List (Fin n) × List Nat)) : List (List (Fin n) × List Nat) :=
  let minimal := if blocks.length > 1 then blocks.filter fun b => !(blocks.any fun b2 => properSubset b2.1 b.1) else blocks
  minimal.mergeSort (fun x y => x.2.length ≤ y.2.length)

def blockLevelX (c : Ctx n) (cfg : BlockCfg) (before : List Nat) :
    List Nat → Diag n → List Nat → List Bool → Diag n × List Nat × List Bool × Option Outcome
  | [], d, next, clean => (d, next, clean, none)
  | node :: rest, d, next, clean =>
    if d.isExp node then
      -- met for the first time in this call and expanded before it: continue through all successors
      if before.contains node then blockLevelX c cfg before rest d (addSet (d.succs node) next) clean
      else blockLevelX c cfg before rest d next clean
    else if hit cfg.szLimit d.size then (d, next, clean, some (.ok false))
    else
      let p := d.space node
      let srcs := sourcesIn c.N p
      if !srcs.isEmpty && cfg.optSrc then
        let expected := d.size + 2 ^ srcs.length
        if expected > c.motifLimit then (d, next, clean, some .err)
        else if hit' cfg.szLimit expected then (d, next, clean, some (.ok false))
        else
          let (d', ids) := (valuations p srcs).foldl (fun (acc : Diag n × List Nat) m =>
              let r := ensureChild c acc.1 (some node) m
              (r.1, acc.2 ++ [r.2])) (d, [])
          blockLevelX c cfg before rest (setExp d' node) (addSet ids next) clean
      else
        let (d', okk) := expandNode c d node
        if !okk then (d', next, clean, some .err)
        else
          let succ := sortNat (d'.succs node)
          match succ with
          | [] => blockLevelX c cfg before rest d' next clean
          | s :: more =>
            if more.isEmpty && !cfg.checkMaa then blockLevelX c cfg before rest d' (addSet [s] next) clean
            else
              let blocks := minimalBlocks (groupBlocks (succ.map fun s => (s, blockOfSucc c.N d' node s)) [])
              if !cfg.checkMaa then
                blockLevelX c cfg before rest d' (addSet (match blocks with | [] => [] | b :: _ => b.2) next) clean
              else
                let (pick, clean') := pickClean blocks clean
                match pick with
                | some nodes => blockLevelX c cfg before rest d' (addSet nodes next) clean'
                | none => blockLevelX c cfg before rest d' (addSet succ next) clean'
where
  /-- `size_limit is not None and x > size_limit` -/
  hit' (lim : Option Nat) (x : Nat) : Bool :=
    match lim with
    | some L => decide (x > L)
    | none => false

def blockLoopX (c : Ctx n) (cfg : BlockCfg) : Nat → Diag n → List Nat → List Nat → List Bool → Diag n × Outcome × List Bool
  | 0, d, _, _, clean => (d, .ok true, clean)
  | fuel+1, d, cur, before, clean =>
    if cur.isEmpty then (d, .ok true, clean) else
    let (d', next, clean', early) := blockLevelX c cfg before (sortNat cur) d [] clean
    match early with
    | some o => (d', o, clean')
    | none => blockLoopX c cfg fuel d' next (before.filter fun b => !cur.contains b) clean'

def expandBlockX (c : Ctx n) (d : Diag n) (cfg : BlockCfg) (clean : List Bool) : Diag n × Outcome × List Bool :=
  blockLoopX c cfg (fuelOf n) d [0] (expandedIds d) clean

end Balm.Impl
