import Balm.Impl.Diagram
import Balm.Impl.Nfvs
/-!
# Model of `expand_block` without source shortcuts and without the motif-avoidant check (C04)

`expand_source_blocks(sd, check_maa=False, optimize_source_nodes=False)`: a level-wise traversal that
expands a node in the ordinary way (`_expand_one_node`) and then follows only the successors of *one*
block - the smallest of the inclusion-minimal sets "everything the variables of the stable motif
depend on, in the node's percolated network".  The state is touched through `expandNode` only.
-/
namespace Balm.Impl

open Balm

variable {n : Nat}

/-- `u` is a regulator of `v` in the network percolated to `p` (essential dependence inside `p`) -/
def regB (N : Net n) (p : Space n) (u v : Fin n) : Bool := depB N p u v false || depB N p u v true

def bwdStep (N : Net n) (p : Space n) (cur : List (Fin n)) : List (Fin n) :=
  (List.finRange n).filter fun u => cur.contains u || cur.any fun v => regB N p u v

/-- `backward_reachable`: the variables and everything they (transitively) depend on, in index order -/
def iter {α : Type} (f : α → α) : Nat → α → α
  | 0, x => x
  | k+1, x => iter f k (f x)

def bwdReach (N : Net n) (p : Space n) (seed : List (Fin n)) : List (Fin n) :=
  iter (bwdStep N p) n ((List.finRange n).filter seed.contains)

/-- the `motif` attribute of an edge: the first stable motif recorded for it -/
def firstMotif (d : Diag n) (i j : Nat) : Option (Space n) :=
  ((SDm.out d.core i).find? (·.2.1 == j)).map (·.2.2)

/-- variables of the reduced stable motif -/
def reducedKeys (p m : Space n) : List (Fin n) :=
  (List.finRange n).filter fun k => (m[k]).isSome && (p[k]).isNone

def blockOfSucc (N : Net n) (d : Diag n) (node s : Nat) : List (Fin n) :=
  match firstMotif d node s with
  | some m => bwdReach N (d.space node) (reducedKeys (d.space node) m)
  | none => []

/-- successors grouped by block, blocks in order of first appearance -/
def groupBlocks : List (Nat × List (Fin n)) → List (List (Fin n) × List Nat) → List (List (Fin n) × List Nat)
  | [], acc => acc
  | (s, b) :: rest, acc =>
    if acc.any (·.1 == b) then groupBlocks rest (acc.map fun e => if e.1 == b then (e.1, e.2 ++ [s]) else e)
    else groupBlocks rest (acc ++ [(b, [s])])

/-- proper inclusion of canonical (index-ordered, duplicate-free) variable lists -/
def properSubset (a b : List (Fin n)) : Bool := a.all b.contains && decide (a.length < b.length)

/-- the successors to follow: those of the smallest inclusion-minimal block (stable sort, first wins) -/
def chooseBlock (blocks : List (List (Fin n) × List Nat)) : List Nat :=
  let minimal := if blocks.length > 1 then blocks.filter fun b => !(blocks.any fun b2 => properSubset b2.1 b.1) else blocks
  match minimal.mergeSort (fun x y => x.2.length ≤ y.2.length) with
  | [] => []
  | b :: _ => b.2

def addSet (xs : List Nat) (acc : List Nat) : List Nat := xs.foldl (fun a x => if a.contains x then a else a ++ [x]) acc

def blockLevel (c : Ctx n) (szLimit : Option Nat) :
    List Nat → Diag n → List Nat → Diag n × List Nat × Option Outcome
  | [], d, next => (d, next, none)
  | node :: rest, d, next =>
    if d.isExp node then blockLevel c szLimit rest d next
    else if hit szLimit d.size then (d, next, some (.ok false))
    else
      let (d', okk) := expandNode c d node
      if !okk then (d', next, some .err)
      else
        let succ := sortNat (d'.succs node)
        match succ with
        | [] => blockLevel c szLimit rest d' next
        | [s] => blockLevel c szLimit rest d' (addSet [s] next)
        | _ =>
          let blocks := groupBlocks (succ.map fun s => (s, blockOfSucc c.N d' node s)) []
          blockLevel c szLimit rest d' (addSet (chooseBlock blocks) next)

def blockLoop (c : Ctx n) (szLimit : Option Nat) : Nat → Diag n → List Nat → Diag n × Outcome
  | 0, d, _ => (d, .ok true)
  | fuel+1, d, cur =>
    if cur.isEmpty then (d, .ok true) else
    let (d', next, early) := blockLevel c szLimit (sortNat cur) d []
    match early with
    | some o => (d', o)
    | none => blockLoop c szLimit fuel d' next

/-- `expand_block(find_motif_avoidant_attractors=False, optimize_source_nodes=False, size_limit)` -/
def expandBlock (c : Ctx n) (d : Diag n) (szLimit : Option Nat) : Diag n × Outcome :=
  blockLoop c szLimit (fuelOf n) d [0]

end Balm.Impl
