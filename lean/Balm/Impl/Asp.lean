import Balm.Impl.Solver
/-!
# The ASP program of `trappist` as data, and its classical models (C09)

`trapProgram` mirrors `_create_clingo_constraints` for forward time: a choice rule and a conflict
constraint per variable (plus "one of the two" for `fix`), a fact per value of `ensure_subspace`
(with the *inverted* polarity of the encoding: value 1 ↦ place `b0_x`), a constraint per avoided
subspace, the siphon rule `pre₁; …; pre_k :- target` per transition, and for `max` the disjunction
of the free places and "source variables are fixed".

`trapProgram_models` characterises the classical models of that rule set; together with
`siphon_iff_trapspace` (for a net that `faithfulOnB` accepted) this gives `models_are_trapspaces`:
the models are exactly the place sets denoting trap spaces inside `ens` that are inside no avoided
subspace.  Which models clingo enumerates (⊆-maximal / ⊆-minimal ones) is assumption E1.
-/
namespace Balm.Impl

open Balm

variable {n : Nat}

inductive Rule (n : Nat) where
  | choice (p : Place n)                       -- `{p}.`
  | noBoth (i : Fin n)                         -- `:- b1_i, b0_i.`
  | either (i : Fin n)                         -- `b1_i ; b0_i.`
  | fact (p : Place n)                         -- `p.`
  | notAll (ps : List (Place n))               -- `:- p1, …, pk.`
  | impl (head : List (Place n)) (body : Place n)   -- `h1; …; hk :- body.`
  | some (ps : List (Place n))                 -- `p1; …; pk.`
  deriving DecidableEq

def Rule.Sat (S : Place n → Prop) : Rule n → Prop
  | .choice _ => True
  | .noBoth i => ¬ (S (i, true) ∧ S (i, false))
  | .either i => S (i, true) ∨ S (i, false)
  | .fact p => S p
  | .notAll ps => ¬ ∀ p ∈ ps, S p
  | .impl head body => S body → ∃ q ∈ head, S q
  | .some ps => ∃ p ∈ ps, S p

/-- the place that *encodes* "variable `i` has value `b`" in a trap-space model (inverted) -/
def encPlace (i : Fin n) (b : Bool) : Place n := (i, !b)

def spacePlaces (p : Space n) : List (Place n) :=
  (List.finRange n).filterMap fun i => (p[i]).map fun b => encPlace i b

/-- pre-places of a transition as the Petri net lists them: own source place and the read places -/
def prePlaces (t : Trans n) : List (Place n) :=
  (t.v, !t.up) :: (List.finRange n).filterMap fun j =>
    if j = t.v then none else (t.c[j]).map fun b => (j, b)

theorem mem_prePlaces (t : Trans n) (q : Place n) : q ∈ prePlaces t ↔ t.pre q := by
  unfold prePlaces Trans.pre
  simp only [List.mem_cons, List.mem_filterMap, List.mem_finRange, true_and]
  constructor
  · rintro (h | ⟨j, hj⟩)
    · exact Or.inl h
    · by_cases hjv : j = t.v
      · simp [hjv] at hj
      · simp only [hjv, if_false, Option.map_eq_some_iff] at hj
        obtain ⟨b, hb, rfl⟩ := hj
        exact Or.inr ⟨hjv, hb⟩
  · rintro (h | ⟨h1, h2⟩)
    · exact Or.inl h
    · right
      refine ⟨q.1, ?_⟩
      simp [h1, h2]

def baseRules (fix : Bool) : List (Rule n) :=
  (List.finRange n).flatMap fun i =>
    [Rule.choice (i, true), Rule.choice (i, false), Rule.noBoth i] ++ (if fix then [Rule.either i] else [])

def ensureRules (ens : Space n) : List (Rule n) := (spacePlaces ens).map Rule.fact

def avoidRules (avoid : List (Space n)) : List (Rule n) := avoid.map fun a => Rule.notAll (spacePlaces a)

def siphonRules (ts : List (Trans n)) : List (Rule n) := ts.map fun t => Rule.impl (prePlaces t) (t.v, t.up)

def freePlaces (ens : Space n) : List (Place n) :=
  (List.finRange n).flatMap fun i => if (ens[i]).isNone then [(i, true), (i, false)] else []

def maxRules (ens : Space n) (srcs : List (Fin n)) : List (Rule n) :=
  if (freePlaces ens).isEmpty then [] else
    Rule.some (freePlaces ens) :: (srcs.filter fun i => (ens[i]).isNone).map fun i => Rule.some [(i, true), (i, false)]

/-- `_create_clingo_constraints(…, reverse_time=False)` -/
def trapProgram (ts : List (Trans n)) (pr : Problem) (ens : Space n) (avoid : List (Space n))
    (srcs : List (Fin n)) : List (Rule n) :=
  baseRules (pr == .fix) ++ ensureRules ens ++ avoidRules avoid ++ siphonRules ts ++
    (if pr == .max then maxRules ens srcs else [])

def Models (prog : List (Rule n)) (S : Place n → Prop) : Prop := ∀ r ∈ prog, r.Sat S

def ConflictFree (S : Place n → Prop) : Prop := ∀ i : Fin n, ¬ (S (i, true) ∧ S (i, false))

/-- **C09 (`trapProgram_models`, `min` problem).** The classical models of the emitted program are
    exactly the conflict-free siphons that contain the places of `ensure_subspace` and do not contain
    all places of any avoided subspace. -/
theorem trapProgram_models_min (ts : List (Trans n)) (ens : Space n) (avoid : List (Space n))
    (srcs : List (Fin n)) (S : Place n → Prop) :
    Models (trapProgram ts .min ens avoid srcs) S ↔
      ConflictFree S ∧ (∀ p ∈ spacePlaces ens, S p) ∧ (∀ a ∈ avoid, ¬ ∀ p ∈ spacePlaces a, S p) ∧ Siphon ts S := by
  unfold Models trapProgram
  have hpr : ((Problem.min == Problem.fix) = false) := by decide
  have hpm : ((Problem.min == Problem.max) = false) := by decide
  simp only [hpr, hpm, if_false, List.append_nil, List.mem_append, Bool.false_eq_true]
  constructor
  · intro h
    refine ⟨?_, ?_, ?_, ?_⟩
    · intro i
      have := h (Rule.noBoth i) (Or.inl (Or.inl (Or.inl (by
        simp only [baseRules, List.mem_flatMap, List.mem_finRange, true_and]
        exact ⟨i, by simp⟩))))
      exact this
    · intro p hp
      have := h (Rule.fact p) (Or.inl (Or.inl (Or.inr (by simp [ensureRules, hp]))))
      exact this
    · intro a ha
      have := h (Rule.notAll (spacePlaces a)) (Or.inl (Or.inr (by
        simp only [avoidRules, List.mem_map]; exact ⟨a, ha, rfl⟩)))
      exact this
    · intro t ht hS
      have := h (Rule.impl (prePlaces t) (t.v, t.up)) (Or.inr (by
        simp only [siphonRules, List.mem_map]; exact ⟨t, ht, rfl⟩))
      obtain ⟨q, hq, hSq⟩ := this hS
      exact ⟨q, (mem_prePlaces t q).1 hq, hSq⟩
  · rintro ⟨hcf, hens, hav, hsi⟩ r hr
    rcases hr with ((hr | hr) | hr) | hr
    · simp only [baseRules, List.mem_flatMap, List.mem_finRange, true_and] at hr
      obtain ⟨i, hi⟩ := hr
      simp at hi
      rcases hi with rfl | rfl | rfl
      · trivial
      · trivial
      · exact hcf i
    · simp only [ensureRules, List.mem_map] at hr
      obtain ⟨p, hp, rfl⟩ := hr
      exact hens p hp
    · simp only [avoidRules, List.mem_map] at hr
      obtain ⟨a, ha, rfl⟩ := hr
      exact hav a ha
    · simp only [siphonRules, List.mem_map] at hr
      obtain ⟨t, ht, rfl⟩ := hr
      intro hS
      obtain ⟨q, hq, hSq⟩ := hsi t ht hS
      exact ⟨q, (mem_prePlaces t q).2 hq, hSq⟩

theorem mem_spacePlaces (p : Space n) (q : Place n) : q ∈ spacePlaces p ↔ p[q.1] = some (!q.2) := by
  unfold spacePlaces encPlace
  simp only [List.mem_filterMap, List.mem_finRange, true_and, Option.map_eq_some_iff]
  constructor
  · rintro ⟨i, b, hb, rfl⟩
    simpa using hb
  · intro h
    exact ⟨q.1, !q.2, h, by simp⟩

/-- **C09.** For a net that is faithful to the network (which `faithfulOnB` decides for the real net),
    the models of the `min` program are exactly the place sets denoting trap spaces of the network
    that lie inside `ens` and inside none of the avoided subspaces. -/
theorem models_are_trapspaces (N : Net n) (ts : List (Trans n)) (hF : Faithful N ts)
    (ens : Space n) (avoid : List (Space n)) (srcs : List (Fin n)) (S : Place n → Prop) (p : Space n)
    (hD : Denotes S p) :
    Models (trapProgram ts .min ens avoid srcs) S ↔
      TrapSpace N p ∧ p.le ens ∧ ∀ a ∈ avoid, ¬ p.le a := by
  rw [trapProgram_models_min]
  have hcf : ConflictFree S := by
    intro i ⟨h1, h2⟩
    have a := (hD i false).2 (by simpa using h1)
    have b := (hD i true).2 (by simpa using h2)
    rw [a] at b; cases b
  have hsub : ∀ (q : Space n), (∀ x ∈ spacePlaces q, S x) ↔ p.le q := by
    intro q
    constructor
    · intro h i b hq
      have := h (i, !b) ((mem_spacePlaces q (i, !b)).2 (by simpa using hq))
      exact (hD i b).2 this
    · intro h x hx
      have hq := (mem_spacePlaces q x).1 hx
      have := h x.1 (!x.2) hq
      have := (hD x.1 (!x.2)).1 this
      simpa using this
  constructor
  · rintro ⟨_, hens, hav, hsi⟩
    refine ⟨(siphon_iff_trapspace N ts hF S p hD).1 hsi, (hsub ens).1 hens, ?_⟩
    intro a ha hle
    exact hav a ha ((hsub a).2 hle)
  · rintro ⟨ht, hens, hav⟩
    refine ⟨hcf, (hsub ens).2 hens, ?_, (siphon_iff_trapspace N ts hF S p hD).2 ht⟩
    intro a ha hall
    exact hav a ha ((hsub a).1 hall)

/-! ### canonical text of the program (compared with the strings passed to `Control.add`) -/

def showPlace (q : Place n) : String := (if q.2 then "p" else "n") ++ toString q.1.val

def sortStr (l : List String) : List String := l.mergeSort (fun a b => a ≤ b)

def Rule.render : Rule n → String
  | .choice p => "{" ++ showPlace p ++ "}."
  | .noBoth i => ":- " ++ String.intercalate ", " (sortStr [showPlace (i, true), showPlace (i, false)]) ++ "."
  | .either i => String.intercalate "; " (sortStr [showPlace (i, true), showPlace (i, false)]) ++ "."
  | .fact p => showPlace p ++ "."
  | .notAll ps => if ps.isEmpty then "#false." else ":- " ++ String.intercalate ", " (sortStr (ps.map showPlace)) ++ "."
  | .impl head body => String.intercalate "; " (sortStr (head.map showPlace)) ++ " :- " ++ showPlace body ++ "."
  | .some ps => String.intercalate "; " (sortStr (ps.map showPlace)) ++ "."

def renderProgram (prog : List (Rule n)) : List String := sortStr (prog.map Rule.render)

end Balm.Impl

namespace Balm.Impl

open Balm

variable {n : Nat}

/-! ### the fixed-point program of `compute_fixed_point_reduced_STG` -/

/-- `compute_fixed_point_reduced_STG_async`: transitions that move a retained variable away from its
    retained value are deleted -/
def reducePN (ts : List (Trans n)) (R : Space n) : List (Trans n) :=
  ts.filter fun t => !(R[t.v] == some (!t.up))

/-- positive encoding of the fixed-point program: value `b` of variable `i` is place `(i, b)` -/
def posPlaces (p : Space n) : List (Place n) :=
  (List.finRange n).filterMap fun i => (p[i]).map fun b => (i, b)

/-- the avoid constraints of the fixed-point program: the loop stops after the first empty subspace
    (`#false.` – nothing else matters) -/
def fpAvoidRules : List (Space n) → List (Rule n)
  | [] => []
  | a :: rest =>
    if (posPlaces a).isEmpty then [Rule.notAll []] else Rule.notAll (posPlaces a) :: fpAvoidRules rest

theorem fpAvoidRules_sat (S : Place n → Prop) : ∀ (avoid : List (Space n)),
    (∀ r ∈ fpAvoidRules avoid, r.Sat S) ↔ ∀ a ∈ avoid, ¬ ∀ p ∈ posPlaces a, S p
  | [] => by simp [fpAvoidRules]
  | a :: rest => by
    unfold fpAvoidRules
    by_cases he : (posPlaces a).isEmpty = true
    · have hnil : posPlaces a = [] := List.isEmpty_iff.1 he
      simp only [he, if_true, List.mem_singleton, forall_eq, Rule.Sat, List.mem_cons, forall_eq_or_imp, hnil]
      simp
    · have ih := fpAvoidRules_sat S rest
      simp only [he, List.mem_cons, forall_eq_or_imp, Bool.false_eq_true, if_false]
      constructor
      · rintro ⟨h1, h2⟩
        exact ⟨h1, ih.1 h2⟩
      · rintro ⟨h1, h2⟩
        exact ⟨h1, ih.2 h2⟩

/-- `_create_clingo_fixed_point_constraints` -/
def fpProgram (ts : List (Trans n)) (ens : Space n) (avoid : List (Space n)) : List (Rule n) :=
  baseRules true ++ (ts.map fun t => Rule.notAll (prePlaces t)) ++ (posPlaces ens).map Rule.fact ++
    fpAvoidRules avoid

/-- the marking of a state: exactly one place per variable -/
def marking (s : State n) : Place n → Prop := fun q => s[q.1] = q.2

theorem mem_posPlaces (p : Space n) (q : Place n) : q ∈ posPlaces p ↔ p[q.1] = some q.2 := by
  unfold posPlaces
  simp only [List.mem_filterMap, List.mem_finRange, true_and, Option.map_eq_some_iff]
  constructor
  · rintro ⟨i, b, hb, rfl⟩; exact hb
  · intro h; exact ⟨q.1, q.2, h, rfl⟩

theorem pre_marking_iff_enabled (t : Trans n) (s : State n) :
    (∀ q ∈ prePlaces t, marking s q) ↔ t.enabled s := by
  unfold Trans.enabled Trans.cubeSat marking
  constructor
  · intro h
    refine ⟨h (t.v, !t.up) ((mem_prePlaces t _).2 (Or.inl rfl)), ?_⟩
    intro j b hj hc
    exact h (j, b) ((mem_prePlaces t _).2 (Or.inr ⟨hj, hc⟩))
  · rintro ⟨h1, h2⟩ q hq
    rcases (mem_prePlaces t q).1 hq with rfl | ⟨hj, hc⟩
    · exact h1
    · exact h2 q.1 q.2 hj hc

/-- **C09 (reduced-STG solver).** For a net faithful to the network, the marking of a state `s` is a
    model of the fixed-point program of the reduced net iff `s` lies in `ens`, in no avoided subspace,
    and every variable either agrees with its update function or sits on its retained value – the
    specification `mem_reducedFixedPoints` of the reference the real solver is compared with. -/
theorem fp_models_iff (N : Net n) (ts : List (Trans n)) (hF : Faithful N ts) (R ens : Space n)
    (avoid : List (Space n)) (s : State n) :
    Models (fpProgram (reducePN ts R) ens avoid) (marking s) ↔
      ens.Mem s ∧ (∀ a ∈ avoid, ¬ a.Mem s) ∧ ∀ i : Fin n, N.f i s = s[i] ∨ R[i] = some s[i] := by
  unfold Models fpProgram
  simp only [List.mem_append]
  have hmemPos : ∀ (p : Space n), (∀ q ∈ posPlaces p, marking s q) ↔ p.Mem s := by
    intro p
    constructor
    · intro h i b hp
      exact h (i, b) ((mem_posPlaces p (i, b)).2 hp)
    · intro h q hq
      exact h q.1 q.2 ((mem_posPlaces p q).1 hq)
  constructor
  · intro h
    refine ⟨?_, ?_, ?_⟩
    · apply (hmemPos ens).1
      intro q hq
      exact h (Rule.fact q) (Or.inl (Or.inr (List.mem_map.2 ⟨q, hq, rfl⟩)))
    · intro a ha hm
      have hall : ∀ r ∈ fpAvoidRules avoid, r.Sat (marking s) := fun r hr => h r (Or.inr hr)
      exact (fpAvoidRules_sat (marking s) avoid).1 hall a ha ((hmemPos a).2 hm)
    · intro i
      by_cases hfi : N.f i s = s[i]
      · exact Or.inl hfi
      · right
        -- the variable can move; a transition for it is enabled, so it must have been deleted
        have hmove : s[i] = !(N.f i s) ∧ N.f i s = N.f i s := by
          refine ⟨?_, rfl⟩
          cases hf : N.f i s <;> cases hs : s[i] <;> simp_all
        obtain ⟨t, ht, htv, htu, hen⟩ := (hF s i (N.f i s)).2 hmove
        subst htv
        apply Classical.byContradiction
        intro hR
        have hkeep : t ∈ reducePN ts R := by
          unfold reducePN
          simp only [List.mem_filter, Bool.not_eq_true', beq_eq_false_iff_ne, ne_eq]
          refine ⟨ht, ?_⟩
          intro hc
          apply hR
          rw [hc, htu, hmove.1]
        have := h (Rule.notAll (prePlaces t)) (Or.inl (Or.inl (Or.inr (List.mem_map.2 ⟨t, hkeep, rfl⟩))))
        exact this ((pre_marking_iff_enabled t s).2 hen)
  · rintro ⟨hens, hav, hfix⟩ r hr
    rcases hr with ((hr | hr) | hr) | hr
    · simp only [baseRules, List.mem_flatMap, List.mem_finRange, true_and] at hr
      obtain ⟨i, hi⟩ := hr
      simp at hi
      rcases hi with rfl | rfl | rfl | rfl
      · trivial
      · trivial
      · intro ⟨h1, h2⟩
        simp only [marking] at h1 h2
        rw [h1] at h2; cases h2
      · simp only [Rule.Sat, marking]
        cases s[i] <;> simp
    · obtain ⟨t, ht, rfl⟩ := List.mem_map.1 hr
      intro hall
      have hen := (pre_marking_iff_enabled t s).1 hall
      unfold reducePN at ht
      simp only [List.mem_filter, Bool.not_eq_true', beq_eq_false_iff_ne, ne_eq] at ht
      have hcan := (hF s t.v t.up).1 ⟨t, ht.1, rfl, rfl, hen⟩
      rcases hfix t.v with h | h
      · rw [hcan.2] at h
        rw [hcan.1] at h
        cases hu : t.up <;> simp [hu] at h
      · apply ht.2
        rw [h, hcan.1]
    · obtain ⟨q, hq, rfl⟩ := List.mem_map.1 hr
      exact (hmemPos ens).2 hens q hq
    · have : ∀ a ∈ avoid, ¬ ∀ p ∈ posPlaces a, marking s p := fun a ha hall => hav a ha ((hmemPos a).1 hall)
      exact (fpAvoidRules_sat (marking s) avoid).2 this r hr

end Balm.Impl
