import Balm.Impl.Block
import Balm.Impl.Control
/-!
# Model of `expand_scc` (source-SCC expansion; `biobalm/_sd_algorithms/expand_source_SCCs.py`)

The traversal: the source variables of the root are fast-forwarded into their valuations; then, level by level, the
source strongly connected components of a node's percolated network are found (`source_SCCs`: non-trivial SCCs of the
regulatory graph that nothing outside regulates, sorted by names), each component's own succession diagram is built
*recursively by the same procedure* on the component network (`component_subdiagram`), and attached to the main
diagram (`attach_scc_subdiagram`: every inner node extended by the attachment point's space, inner edges copied with
their first stable motif, minimal inner nodes become the next attachment points).  With no or one source SCC, or when
nothing could be attached, the node is expanded in the ordinary way.

The component network is represented over the same variables: component variables keep their update functions (read
with the node's fixed values imposed), all other variables become constants; the inner diagram's spaces then differ
from the real ones only by those constants, which `compPart` removes again.  The motif-avoidance side effects of the
real code touch the attractor caches only and are not part of this structural model.  The names enter through `rank`
(position of each variable's name in sorted order): `source_SCCs` sorts the components by their name lists.
-/
namespace Balm.Impl

open Balm

variable {n : Nat}

def lexLe : List Nat → List Nat → Bool
  | [], _ => true
  | _ :: _, [] => false
  | a :: as, b :: bs => if a < b then true else if b < a then false else lexLe as bs

/-- `source_SCCs(percolated network of p)`: components as index-sorted variable lists, sorted by their name lists -/
def sourceSCCs (N : Net n) (p : Space n) (rank : Fin n → Nat) : List (List (Fin n)) :=
  let free := (List.finRange n).filter fun i => (p[i]).isNone
  let comps := free.foldl (fun (acc : List (List (Fin n))) v =>
      let B := bwdReach N p [v]
      let scc := B.filter fun u => (bwdReach N p [u]).contains v
      let nontrivial := decide (scc.length > 1) || regB N p v v
      if nontrivial && B.all scc.contains && !acc.contains scc then acc ++ [scc] else acc) []
  comps.mergeSort fun a b => lexLe (a.map rank) (b.map rank)

/-- the state `s` with the fixed values of `p` imposed -/
def overlay (p : Space n) (s : State n) : State n := Vector.ofFn fun j => (p[j]).getD s[j]

/-- the component network over the same variables -/
def subNet (N : Net n) (p : Space n) (comp : List (Fin n)) : Net n :=
  ⟨fun i s => if comp.contains i then N.f i (overlay p s) else (p[i]).getD false⟩

def subCtx (c : Ctx n) (p : Space n) (comp : List (Fin n)) : Ctx n := Ctx.mk' (subNet c.N p comp) c.motifLimit

/-- the part of a space that speaks about the component -/
def compPart (comp : List (Fin n)) (sp : Space n) : Space n :=
  Vector.ofFn fun i => if comp.contains i then sp[i] else none

/-- `_ensure_edge` (no new node) -/
def addEdge (d : Diag n) (a b : Nat) (m : Space n) : Diag n :=
  { d with core := { d.core with edges := d.core.edges ++ [(a, b, m)] } }

/-- `attach_scc_subdiagram`: returns the new diagram and the main ids of the inner minimal nodes -/
def sccAttach (c : Ctx n) (d : Diag n) (dsub : Diag n) (comp : List (Fin n)) (attachAt : Nat) : Diag n × List Nat :=
  if dsub.size == 1 then (d, [attachAt]) else
  let attachSpace := d.space attachAt
  let r1 := (List.range dsub.size).foldl (fun (acc : Diag n × List Nat × List Nat) k =>
      if k == 0 then (acc.1, acc.2.1 ++ [attachAt], acc.2.2) else
      let ext := unionSp (compPart comp (dsub.space k)) attachSpace
      let r := ensureChild c acc.1 none ext
      let isMin := dsub.isExp k && (dsub.succs k).isEmpty
      (if isMin then r.1 else setExp r.1 r.2, acc.2.1 ++ [r.2], if isMin then acc.2.2 ++ [r.2] else acc.2.2))
    (d, [], [])
  let idmap := r1.2.1
  let d2 := (List.range dsub.size).foldl (fun (d : Diag n) a =>
      (dsub.succs a).foldl (fun (d : Diag n) b =>
        match firstMotif dsub a b with
        | some m => addEdge d (idmap[a]?.getD 0) (idmap[b]?.getD 0) (compPart comp m)
        | none => d) d) r1.1
  (setExp d2 attachAt, r1.2.2)

/-- ordinary expansion of `node`; its successors join the next level -/
def normalStep (c : Ctx n) (node : Nat) (next : List Nat) (d : Diag n) : Diag n × List Nat × Bool :=
  let r := expandNode c d node
  if !r.2 then (r.1, next, false) else (r.1, addSet (r.1.succs node) next, true)

/-- all components of one node: every component diagram is expanded (recursively, by `sub`) and attached at each of the
    current attachment points; an error raised while a component diagram is expanded (stable-motif limit) leaves what
    was attached so far -/
def sccAttachAll (sub : Ctx n → Diag n × Outcome) (c : Ctx n) (p : Space n) (node : Nat)
    (comps : List (List (Fin n))) (d : Diag n) : Diag n × List Nat × Bool :=
  comps.foldl (fun (acc : Diag n × List Nat × Bool) comp =>
      if !acc.2.2 then acc else
      let r := sub (subCtx c p comp)
      match r.2 with
      | .err => (acc.1, acc.2.1, false)
      | _ =>
        let x := acc.2.1.foldl (fun (a : Diag n × List Nat) at_ =>
          let x := sccAttach c a.1 r.1 comp at_
          (x.1, a.2 ++ x.2)) (acc.1, [])
        (x.1, x.2, true)) (d, [node], true)

/-- one node of a level; `sub` expands the diagram of a component context (the recursive call) -/
def sccNode (sub : Ctx n → Diag n × Outcome) (c : Ctx n) (rank : Fin n → Nat) (d : Diag n) (node : Nat) (next : List Nat) :
    Diag n × List Nat × Bool :=
  match sourceSCCs c.N (d.space node) rank with
  | [] => normalStep c node next d
  | [_] => normalStep c node next d
  | comps =>
    let r := sccAttachAll sub c (d.space node) node comps d
    if !r.2.2 then (r.1, next, false)
    else if r.2.1 == [node] then normalStep c node next r.1 else (r.1, addSet r.2.1 next, true)

def sccLevel (sub : Ctx n → Diag n × Outcome) (c : Ctx n) (rank : Fin n → Nat) :
    List Nat → Diag n → List Nat → Diag n × List Nat × Bool
  | [], d, next => (d, next, true)
  | node :: rest, d, next =>
    let (d', next', okk) := sccNode sub c rank d node next
    if !okk then (d', next', false) else sccLevel sub c rank rest d' next'

def sccLoop (sub : Ctx n → Diag n × Outcome) (c : Ctx n) (rank : Fin n → Nat) : Nat → Diag n → List Nat → Diag n × Outcome
  | 0, d, _ => (d, .ok true)
  | fuel+1, d, cur =>
    if cur.isEmpty then (d, .ok true) else
    let (d', next, okk) := sccLevel sub c rank (sortNat cur) d []
    if !okk then (d', .err) else sccLoop sub c rank fuel d' next

/-- `expand_source_SCCs(sd, check_maa)`; the outer fuel bounds the recursion depth over component diagrams -/
def expandScc (rank : Fin n → Nat) : Nat → Ctx n → Diag n → Diag n × Outcome
  | 0, _, d => (d, .ok true)
  | fuel+1, c, d =>
    let sub := fun (c' : Ctx n) => expandScc rank fuel c' (initDiag c')
    let rootSp := d.space 0
    let srcs := sourcesIn c.N rootSp
    if srcs.isEmpty then sccLoop sub c rank (fuelOf n) d [0]
    else if 2 ^ srcs.length > c.motifLimit then (d, .err)
    else
      let r := (valuations rootSp srcs).foldl (fun (acc : Diag n × List Nat) m =>
          let x := ensureChild c acc.1 (some 0) m
          (x.1, acc.2 ++ [x.2])) (d, [])
      sccLoop sub c rank (fuelOf n) (setExp r.1 0) (addSet r.2 [])

end Balm.Impl
