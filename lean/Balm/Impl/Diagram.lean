import Balm.Concrete
import Balm.KeyBits
import Balm.Expr
/-!
# `Impl.Diagram` – the executable model of `SuccessionDiagram`'s structural state machine

The diagram state is `SDm.SD (Space n)` (the very structure the invariant theorems of `SDm`,
`Full`, `Concrete` are about) plus the list of skip nodes.  Single-node expansion *is*
`SDm.expandOneLimited` over the environment `implEnv`, whose stable-motif oracle is
`maxTrapsIn` sorted by the code's own integer key (`space_unique_key`).  The traversal drivers
(`expand_bfs`, `expand_dfs`, `expand_to_target`, `expand_minimal_spaces`, `skip_to_minimal`,
`skip_remaining`) are fuelled structural recursions that touch the state only through
single-node expansion or through the explicit skip-edge insertions.
-/
namespace Balm.Impl

open Balm Balm.SDm

variable {n : Nat}

/-- items of the Python dictionary of a space: `(variable index, value)` -/
def spaceItems (p : Space n) : List (Nat × Bool) :=
  (List.finRange n).filterMap fun i => (p[i]).map fun b => (i.val, b)

/-- `space_unique_key` -/
def spaceKey (p : Space n) : Nat := KeyBits.keyItems (spaceItems p)

/-- identity inputs (`extract_source_variables`): the update function is the variable itself -/
def isInputB (N : Net n) (i : Fin n) : Bool :=
  (allStates n).all fun s => N.f i s == s[i]

def inputs (N : Net n) : List (Fin n) := (List.finRange n).filter (isInputB N)

def top : Space n := Vector.replicate n none

/-- stable motifs of a node in the order `_expand_one_node` processes them -/
def sortedMax (N : Net n) (p : Space n) (srcs : List (Fin n)) : List (Space n) :=
  (maxTrapsIn N p srcs).mergeSort (fun a b => spaceKey a ≤ spaceKey b)

theorem mem_sortedMax (N : Net n) (p : Space n) (srcs : List (Fin n)) (m : Space n) :
    m ∈ sortedMax N p srcs ↔ m ∈ maxTrapsIn N p srcs := by
  unfold sortedMax
  exact List.mem_mergeSort

/-- the environment of the diagram state machine as the code uses it: sources only at the root,
    motifs in key order -/
def implEnv (N : Net n) (root : Space n) (srcs : List (Fin n)) : SDm.Env (Space n) where
  perc := perc N
  maxT := fun p => if p = root then sortedMax N p srcs else sortedMax N p []
  good := GoodSpace N
  perc_good := by
    intro p _ m hm
    have hcand : ∃ s, motifCand N p s m = true := by
      split at hm
      · exact ⟨srcs, ((mem_maxTrapsIn N p srcs m).1 ((mem_sortedMax N p srcs m).1 hm)).1⟩
      · exact ⟨[], ((mem_maxTrapsIn N p [] m).1 ((mem_sortedMax N p [] m).1 hm)).1⟩
    obtain ⟨s, hs⟩ := hcand
    have htrap := motifCand_trap N hs
    exact ⟨percIter_trap N (constOnOf N) n m htrap, percolate_idem N (constOnOf N) m⟩

/-- model state -/
structure Diag (n : Nat) where
  core : SDm.SD (Space n)
  skipped : List Nat

/-- result of an operation: `ok b` = returned `b`; `err` = raised the stable-motif limit error -/
inductive Outcome where
  | ok (b : Bool)
  | err
  deriving Repr, BEq, DecidableEq

structure Ctx (n : Nat) where
  N : Net n
  root : Space n
  srcs : List (Fin n)
  motifLimit : Nat

def Ctx.env (c : Ctx n) : SDm.Env (Space n) := implEnv c.N c.root c.srcs

def Ctx.mk' (N : Net n) (motifLimit : Nat) : Ctx n :=
  { N := N, root := perc N top, srcs := inputs N, motifLimit := motifLimit }

def initDiag (c : Ctx n) : Diag n := { core := SDm.init c.root, skipped := [] }

def Diag.size (d : Diag n) : Nat := d.core.nodes.length
def Diag.isExp (d : Diag n) (i : Nat) : Bool := d.core.exp[i]?.getD false
def Diag.space (d : Diag n) (i : Nat) : Space n := d.core.nodes[i]?.getD top

/-- successor ids in edge-insertion order, without repetition (`dag.successors`) -/
def Diag.succs (d : Diag n) (i : Nat) : List Nat :=
  ((SDm.out d.core i).map (·.2.1)).eraseDups

def sortNat (l : List Nat) : List Nat := l.mergeSort (· ≤ ·)

/-- `_expand_one_node`: returns `false` when the stable-motif limit error is raised -/
def expandNode (c : Ctx n) (d : Diag n) (i : Nat) : Diag n × Bool :=
  let r := SDm.expandOneLimited c.env c.motifLimit d.core i
  ({ d with core := r.1 }, r.2)

/-- `limit is not None and x >= limit` -/
def hit (lim : Option Nat) (x : Nat) : Bool :=
  match lim with
  | some L => decide (x ≥ L)
  | none => false

/-! ### BFS -/

def addSeen (succ : List Nat) (acc : List Nat × List Nat) : List Nat × List Nat :=
  succ.foldl (fun a x => if a.1.contains x then a else (x :: a.1, a.2 ++ [x])) acc

/-- one BFS level; returns state, seen, next level and `none` (level finished) or the early outcome -/
def bfsLevel (c : Ctx n) (szLimit : Option Nat) :
    List Nat → Diag n → List Nat → List Nat → Diag n × List Nat × List Nat × Option Outcome
  | [], d, seen, next => (d, seen, next, none)
  | node :: rest, d, seen, next =>
    if hit szLimit d.size && !d.isExp node then
      (d, seen, next, some (.ok false))
    else
      let (d', okk) := expandNode c d node
      if !okk then (d', seen, next, some .err)
      else
        let (seen', next') := addSeen (sortNat (d'.succs node)) (seen, next)
        bfsLevel c szLimit rest d' seen' next'

def bfsLoop (c : Ctx n) (lvLimit szLimit : Option Nat) :
    Nat → Diag n → List Nat → List Nat → Nat → Diag n × Outcome
  | 0, d, _, _, _ => (d, .ok true)
  | fuel+1, d, seen, cur, level =>
    if cur.isEmpty then (d, .ok true) else
    let (d', seen', next, early) := bfsLevel c szLimit cur d seen []
    match early with
    | some o => (d', o)
    | none =>
      if hit lvLimit level then (d', .ok false)
      else bfsLoop c lvLimit szLimit fuel d' seen' next (level + 1)

/-- `3^n + 1` bounds the number of nodes, hence of BFS levels -/
def fuelOf (n : Nat) : Nat := 3 ^ n + 2

def expandBfs (c : Ctx n) (d : Diag n) (start : Nat) (lvLimit szLimit : Option Nat) : Diag n × Outcome :=
  bfsLoop c lvLimit szLimit (fuelOf n) d [start] [start] 0

/-! ### DFS -/

def dropSeen (seen : List Nat) : List Nat → List Nat
  | [] => []
  | x :: xs => if seen.contains x then dropSeen seen xs else x :: xs

/-- the stack holds `(node, remaining successors in ascending order)`; `none` = not yet computed.
    (The Python keeps the list reversed and pops from the back; the head here is its last element.) -/
def dfsLoop (c : Ctx n) (stackLimit szLimit : Option Nat) :
    Nat → Diag n → List Nat → List (Nat × Option (List Nat)) → Bool → Diag n × Outcome
  | 0, d, _, _, complete => (d, .ok complete)
  | _, d, _, [], complete => (d, .ok complete)
  | fuel+1, d, seen, (node, succ?) :: stack, complete =>
    let step (d : Diag n) (succ : List Nat) : Diag n × Outcome :=
      let succ := dropSeen seen succ
      match succ with
      | [] => dfsLoop c stackLimit szLimit fuel d seen stack complete
      | s :: restSucc =>
        if hit stackLimit stack.length then
          dfsLoop c stackLimit szLimit fuel d seen stack false
        else
          dfsLoop c stackLimit szLimit fuel d (s :: seen) ((s, none) :: (node, some restSucc) :: stack) complete
    match succ? with
    | some succ => step d succ
    | none =>
      if hit szLimit d.size && !d.isExp node then
        (d, .ok false)
      else
        let (d', okk) := expandNode c d node
        if !okk then (d', .err) else step d' (sortNat (d'.succs node))

def expandDfs (c : Ctx n) (d : Diag n) (start : Nat) (stackLimit szLimit : Option Nat) : Diag n × Outcome :=
  dfsLoop c stackLimit szLimit (2 * fuelOf n * (fuelOf n)) d [start] [(start, none)] true

/-! ### target-directed BFS -/

def interB (p q : Space n) : Bool :=
  (List.finRange n).all fun i => match p[i], q[i] with
    | some a, some b => a == b
    | _, _ => true

def targetLevel (c : Ctx n) (target : Space n) (szLimit : Option Nat) :
    List Nat → Diag n → List Nat → List Nat → Diag n × List Nat × List Nat × Option Outcome
  | [], d, seen, next => (d, seen, next, none)
  | node :: rest, d, seen, next =>
    let sp := d.space node
    if !interB sp target then targetLevel c target szLimit rest d seen next
    else if sp.leB target && sp != target then targetLevel c target szLimit rest d seen next
    else if hit szLimit d.size && !d.isExp node then
      (d, seen, next, some (.ok false))
    else
      let (d', okk) := expandNode c d node
      if !okk then (d', seen, next, some .err)
      else
        let (seen', next') := addSeen (sortNat (d'.succs node)) (seen, next)
        targetLevel c target szLimit rest d' seen' next'

def targetLoop (c : Ctx n) (target : Space n) (szLimit : Option Nat) :
    Nat → Diag n → List Nat → List Nat → Diag n × Outcome
  | 0, d, _, _ => (d, .ok true)
  | fuel+1, d, seen, cur =>
    if cur.isEmpty then (d, .ok true) else
    let (d', seen', next, early) := targetLevel c target szLimit cur d seen []
    match early with
    | some o => (d', o)
    | none => targetLoop c target szLimit fuel d' seen' next

def expandToTarget (c : Ctx n) (d : Diag n) (target : Space n) (szLimit : Option Nat) : Diag n × Outcome :=
  targetLoop c target szLimit (fuelOf n) d [0] [0]

/-! ### skipping -/

/-- minimal trap spaces inside `p` -/
def minTrapsIn (N : Net n) (p : Space n) : List (Space n) :=
  let cands := (trapSpaces N).filter fun q => q.leB p
  cands.filter fun q => !(cands.any fun r => (r != q) && r.leB q)

/-- `_ensure_node(parent, motif)` for an arbitrary motif: node of `perc motif`, edge with the motif -/
def ensureChild (c : Ctx n) (d : Diag n) (parent : Option Nat) (motif : Space n) : Diag n × Nat :=
  let r := SDm.ensureNode d.core (perc c.N motif)
  match parent with
  | none => ({ d with core := r.1 }, r.2)
  | some i => ({ d with core := { r.1 with edges := r.1.edges ++ [(i, r.2, motif)] } }, r.2)

def setExp (d : Diag n) (i : Nat) : Diag n :=
  { d with core := { d.core with exp := d.core.exp.set i true } }

/-- `skip_to_minimal` given the solver's answer (minimal trap spaces inside the node, any order) -/
def skipToMinimalWith (c : Ctx n) (d : Diag n) (i : Nat) (mins : List (Space n)) : Diag n × Bool :=
  if d.isExp i then (d, false)
  else if mins.length == 1 && mins.head? == some (d.space i) then (setExp d i, true)
  else
    let d' := mins.foldl (fun d m => let r := ensureChild c d (some i) m; setExp r.1 r.2) d
    ({ setExp d' i with skipped := i :: d'.skipped }, true)

/-- `skip_remaining` given the solver's answer at the root -/
def skipRemainingWith (c : Ctx n) (d : Diag n) (mins : List (Space n)) : Diag n × Nat :=
  let (d1, ids) := mins.foldl (fun (acc : Diag n × List (Nat × Space n)) m =>
      let r := ensureChild c acc.1 none m
      (setExp r.1 r.2, acc.2 ++ [(r.2, m)])) (d, [])
  (List.range d1.size).foldl (fun (acc : Diag n × Nat) i =>
      if acc.1.isExp i then acc else
      let sp := acc.1.space i
      let core' := ids.foldl (fun (co : SDm.SD (Space n)) im =>
          if im.2.leB sp then { co with edges := co.edges ++ [(i, im.1, im.2)] } else co) acc.1.core
      ({ setExp { acc.1 with core := core' } i with skipped := i :: acc.1.skipped }, acc.2 + 1)) (d1, 0)

/-! ### minimal-space expansion -/

def removeFirst (x : Space n) : List (Space n) → List (Space n)
  | [] => []
  | y :: ys => if y == x then ys else y :: removeFirst x ys

/-- `make_skip_node` of `expand_minimal_spaces` -/
def makeSkipNode (c : Ctx n) (d : Diag n) (i : Nat) (allMins : List (Space n)) : Diag n :=
  if d.isExp i then d else
  let sp := d.space i
  let d' := allMins.foldl (fun d m =>
      if m.leB sp then let r := ensureChild c d (some i) m; setExp r.1 r.2 else d) d
  { setExp d' i with skipped := i :: d'.skipped }

/-- inner `while len(successors) > 0` loop: drops visited successors, and – when no remaining
    minimal trap space lies in the *current node* – drops (and optionally skips) all of them -/
def minDrop (c : Ctx n) (skip : Bool) (allMins : List (Space n)) (nodeHasMin : Bool) (seen : List Nat) :
    List Nat → Diag n → List Nat × Diag n
  | [], d => ([], d)
  | x :: xs, d =>
    if seen.contains x then minDrop c skip allMins nodeHasMin seen xs d
    else if !nodeHasMin then
      minDrop c skip allMins nodeHasMin seen xs (if skip then makeSkipNode c d x allMins else d)
    else (x :: xs, d)

def minLoop (c : Ctx n) (szLimit : Option Nat) (skip : Bool) (allMins : List (Space n)) :
    Nat → Diag n → List Nat → List (Space n) → List (Nat × Option (List Nat)) → Diag n × Outcome
  | 0, d, _, _, _ => (d, .ok true)
  | _, d, _, _, [] => (d, .ok true)
  | fuel+1, d, seen, mins, (node, succ?) :: stack =>
    let step (d : Diag n) (succ : List Nat) : Diag n × Outcome :=
      let sp := d.space node
      let nodeHasMin := mins.any fun m => m.leB sp
      let (succ', d') := minDrop c skip allMins nodeHasMin seen succ d
      match succ' with
      | [] =>
        let isMin := d'.isExp node && (d'.succs node).isEmpty
        minLoop c szLimit skip allMins fuel d' seen (if isMin then removeFirst (d'.space node) mins else mins) stack
      | s :: rest =>
        minLoop c szLimit skip allMins fuel d' (s :: seen) mins ((s, none) :: (node, some rest) :: stack)
    match succ? with
    | some succ => step d succ
    | none =>
      if hit szLimit d.size && !d.isExp node then
        (d, .ok false)
      else
        let (d', okk) := expandNode c d node
        if !okk then (d', .err) else step d' (sortNat (d'.succs node))

def expandMinimalWith (c : Ctx n) (d : Diag n) (start : Nat) (szLimit : Option Nat) (skip : Bool)
    (allMins : List (Space n)) : Diag n × Outcome :=
  minLoop c szLimit skip allMins (2 * fuelOf n * fuelOf n) d [start] allMins [(start, none)]

/-! ### depth -/

/-- length of the longest path ending in `i` (the graph is acyclic; `fuel` ≥ number of nodes) -/
def longestTo (edges : List (Nat × Nat)) : Nat → Nat → Nat
  | 0, _ => 0
  | fuel+1, i =>
    (edges.filter (fun e => e.2 == i)).foldl (fun acc e => max acc (longestTo edges fuel e.1 + 1)) 0

def Diag.pairs (d : Diag n) : List (Nat × Nat) := (d.core.edges.map fun e => (e.1, e.2.1)).eraseDups

def Diag.depth (d : Diag n) (i : Nat) : Nat := longestTo d.pairs d.size i

end Balm.Impl
