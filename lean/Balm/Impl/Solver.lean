import Balm.Impl.Strict
import Balm.Impl.Judge
import Balm.Siphon
/-!
# Reference semantics of the two solvers (C09) and the Petri-net faithfulness judge (C10)

`solveRef` is what `trappist` is specified to return: the ⊆-minimal / ⊆-maximal non-trivial /
total trap spaces of the network or of its time reversal, inside `ens`, not inside an avoided
subspace, fixing the designated sources (for `max`).  `reducedFixedPoints` is the specification of
`compute_fixed_point_reduced_STG`.  `faithfulOnB` decides the enabledness clause of C10 for a
(restricted) net given as a list of transitions.
-/
namespace Balm.Impl

open Balm

variable {n : Nat}

/-- trap space of the time-reversed dynamics: no transition enters the space from outside -/
def isRevTrapB (N : Net n) (p : Space n) : Bool :=
  (allStates n).all fun s => p.memB s ||
    (List.finRange n).all fun i => (step N s i == s) || !p.memB (step N s i)

inductive Problem | min | max | fix
  deriving DecidableEq

def solveRef (N : Net n) (rev : Bool) (pr : Problem) (ens : Space n) (avoid : List (Space n))
    (srcs : List (Fin n)) : List (Space n) :=
  let T := (allSpaces n).filter fun p => if rev then isRevTrapB N p else isTrapB N p
  let C := T.filter fun t => t.leB ens && !(avoid.any fun a => t.leB a)
  match pr with
  | .min => C.filter fun t => !(C.any fun u => u != t && u.leB t)
  | .max =>
    let C2 := C.filter fun t =>
      ((List.finRange n).any fun i => (t[i]).isSome && (ens[i]).isNone) && srcs.all fun i => (t[i]).isSome
    C2.filter fun t => !(C2.any fun u => u != t && t.leB u)
  | .fix => C.filter fun t => (List.finRange n).all fun i => (t[i]).isSome

/-- states of `ens`, outside the avoided subspaces, in which no transition is enabled once every
    transition that moves a retained variable away from its retained value has been removed -/
def reducedFixedPoints (N : Net n) (R ens : Space n) (avoid : List (Space n)) : List (State n) :=
  (statesOf ens).filter fun s =>
    !(avoid.any fun a => a.memB s) &&
    (List.finRange n).all fun i => (N.f i s == s[i]) || (R[i] == some s[i])

def transEnabledB (t : Trans n) (s : State n) : Bool :=
  (s[t.v] == !t.up) && (List.finRange n).all fun j => j == t.v || match t.c[j] with
    | some b => s[j] == b
    | none => true

/-- on every state of `ens`, for every variable free in `ens` and every direction: some transition
    of that kind is enabled iff the update function disagrees with the current value that way;
    and no transition touches a variable fixed by `ens` -/
def faithfulOnB (N : Net n) (ens : Space n) (ts : List (Trans n)) : Option String :=
  firstSome
    [ check (ts.all fun t => (ens[t.v]).isNone) "a transition changes a variable that is fixed by the subspace",
      check (ts.all fun t => (List.finRange n).all fun j => (ens[j]).isNone || (t.c[j]).isNone)
        "a transition tests a variable that is fixed by the subspace",
      check ((statesOf ens).all fun s => (List.finRange n).all fun v => (ens[v]).isSome ||
          [false, true].all fun up =>
            (ts.any fun t => t.v == v && t.up == up && transEnabledB t s) == ((s[v] == !up) && (N.f v s == up)))
        "enabled transitions differ from the update functions on some state of the subspace" ]

/-- `faithfulOnB` for the transitions of a single variable `v` (used function by function on networks
    that are too large for whole-state enumeration: the harness sends the sub-network induced by the
    support of `f_v`) -/
def faithfulVarB (N : Net n) (ts : List (Trans n)) (v : Fin n) : Option String :=
  check ((allStates n).all fun s => [false, true].all fun up =>
      (ts.any fun t => t.v == v && t.up == up && transEnabledB t s) == ((s[v] == !up) && (N.f v s == up)))
    "enabled transitions of the variable differ from its update function on some state"

end Balm.Impl
