/-!
# The attractor-cache protocol of `NodeData` (C14) and its transparency under reclaim/pickle (C16)

Ghost-tag model.  Every node carries a version `ver` – how often it has been given successors –
and three cache fields (`seeds`, `cands`, `sets`), each either absent or tagged with the version of
the successor set it was computed for.  The operations are those of the (repaired) code:

* `giveSucc i`  – any path that turns a stub into a node with successors (`_expand_one_node`,
  `skip_to_minimal`, `skip_remaining`, the skip nodes of `expand_minimal_spaces`,
  `attach_scc_subdiagram`): the three fields are discarded;
* `shortcut i`  – source-node shortcuts of block / SCC expansion: candidates discarded, seeds and
  sets overwritten with the (empty) answer for the new successors;
* `query i w`   – `node_attractor_candidates/seeds/sets(compute=True)`: fields that are absent may be
  computed, for the *current* successors; present fields are returned as they are;
* `markEmpty i` – block expansion / SCC attachment record "no attractor here" for the current successors;
* `reclaim`     – `reclaim_node_data`: candidates dropped where seeds are known;
* `addNode`     – `_ensure_node` creating a stub.

`Fresh` says that every present field carries the current version.  `history_fresh` is C14's
"cached attractor data is never stale" for every history; `unrepaired_skip_is_stale` shows that the
statement fails for the skip operation as it was before the repair.
-/
namespace Balm.Cache

structure CNode where
  ver : Nat
  seeds : Option Nat
  cands : Option Nat
  sets : Option Nat
  deriving DecidableEq, Repr

abbrev CState := List CNode

structure Which where
  seeds : Bool
  cands : Bool
  sets : Bool
  deriving DecidableEq

inductive COp where
  | addNode
  | giveSucc (i : Nat)
  | shortcut (i : Nat)
  | query (i : Nat) (w : Which)
  | markEmpty (i : Nat)
  | reclaim
  deriving DecidableEq

def fill (present : Option Nat) (want : Bool) (ver : Nat) : Option Nat :=
  match present with
  | some t => some t
  | none => if want then some ver else none

def stepNode (op : COp) (j : Nat) (nd : CNode) : CNode :=
  match op with
  | .addNode => nd
  | .giveSucc i => if i = j then { ver := nd.ver + 1, seeds := none, cands := none, sets := none } else nd
  | .shortcut i =>
    if i = j then { ver := nd.ver + 1, seeds := some (nd.ver + 1), cands := none, sets := some (nd.ver + 1) } else nd
  | .query i w =>
    if i = j then { nd with seeds := fill nd.seeds w.seeds nd.ver, cands := fill nd.cands w.cands nd.ver,
                            sets := fill nd.sets w.sets nd.ver } else nd
  | .markEmpty i => if i = j then { nd with seeds := some nd.ver, sets := some nd.ver } else nd
  | .reclaim => if nd.seeds.isSome then { nd with cands := none } else nd

def mapIdx (f : Nat → CNode → CNode) : Nat → CState → CState
  | _, [] => []
  | k, nd :: rest => f k nd :: mapIdx f (k + 1) rest

def step (s : CState) (op : COp) : CState :=
  match op with
  | .addNode => s ++ [{ ver := 0, seeds := none, cands := none, sets := none }]
  | op => mapIdx (stepNode op) 0 s

def FreshNode (nd : CNode) : Prop :=
  (∀ t, nd.seeds = some t → t = nd.ver) ∧ (∀ t, nd.cands = some t → t = nd.ver) ∧ (∀ t, nd.sets = some t → t = nd.ver)

def Fresh (s : CState) : Prop := ∀ nd ∈ s, FreshNode nd

theorem fill_fresh {present : Option Nat} {want : Bool} {ver : Nat}
    (h : ∀ t, present = some t → t = ver) : ∀ t, fill present want ver = some t → t = ver := by
  intro t ht
  unfold fill at ht
  cases present with
  | some u => exact h t ht
  | none =>
    by_cases hw : want
    · simp [hw] at ht; exact ht.symm
    · simp [hw] at ht

theorem stepNode_fresh (op : COp) (j : Nat) (nd : CNode) (h : FreshNode nd) : FreshNode (stepNode op j nd) := by
  obtain ⟨h1, h2, h3⟩ := h
  cases op with
  | addNode => exact ⟨h1, h2, h3⟩
  | giveSucc i =>
    unfold stepNode
    by_cases hij : i = j
    · simp [hij, FreshNode]
    · simp [hij]; exact ⟨h1, h2, h3⟩
  | shortcut i =>
    unfold stepNode
    by_cases hij : i = j
    · simp only [hij, if_true, FreshNode]
      refine ⟨?_, ?_, ?_⟩ <;> intro t ht <;> simp at ht <;> omega
    · simp [hij]; exact ⟨h1, h2, h3⟩
  | query i w =>
    unfold stepNode
    by_cases hij : i = j
    · simp only [hij, if_true, FreshNode]
      exact ⟨fill_fresh h1, fill_fresh h2, fill_fresh h3⟩
    · simp [hij]; exact ⟨h1, h2, h3⟩
  | markEmpty i =>
    unfold stepNode
    by_cases hij : i = j
    · simp only [hij, if_true, FreshNode]
      refine ⟨?_, h2, ?_⟩ <;> intro t ht <;> simp at ht <;> omega
    · simp [hij]; exact ⟨h1, h2, h3⟩
  | reclaim =>
    unfold stepNode
    by_cases hs : nd.seeds.isSome
    · simp only [hs, if_true, FreshNode]
      exact ⟨h1, by intro t ht; simp at ht, h3⟩
    · simp [hs]; exact ⟨h1, h2, h3⟩

theorem mapIdx_fresh (f : Nat → CNode → CNode) (hf : ∀ j nd, FreshNode nd → FreshNode (f j nd)) :
    ∀ (k : Nat) (s : CState), Fresh s → Fresh (mapIdx f k s) := by
  intro k s
  induction s generalizing k with
  | nil => intro _ nd hnd; simp [mapIdx] at hnd
  | cons a rest ih =>
    intro h nd hnd
    simp only [mapIdx, List.mem_cons] at hnd
    rcases hnd with rfl | hnd
    · exact hf k a (h a List.mem_cons_self)
    · exact ih (k + 1) (fun x hx => h x (List.mem_cons_of_mem _ hx)) nd hnd

/-- every operation of the protocol keeps all cached data current -/
theorem step_fresh (s : CState) (op : COp) (h : Fresh s) : Fresh (step s op) := by
  cases op with
  | addNode =>
    intro nd hnd
    simp only [step, List.mem_append, List.mem_singleton] at hnd
    rcases hnd with hnd | rfl
    · exact h nd hnd
    · simp [FreshNode]
  | giveSucc i => exact mapIdx_fresh _ (stepNode_fresh _) 0 s h
  | shortcut i => exact mapIdx_fresh _ (stepNode_fresh _) 0 s h
  | query i w => exact mapIdx_fresh _ (stepNode_fresh _) 0 s h
  | markEmpty i => exact mapIdx_fresh _ (stepNode_fresh _) 0 s h
  | reclaim => exact mapIdx_fresh _ (stepNode_fresh _) 0 s h

/-- **C14.** After every history of operations, every cached field of every node was computed for
    the node's current successor set. -/
theorem history_fresh (ops : List COp) : Fresh (ops.foldl step []) := by
  have : ∀ (ops : List COp) (s : CState), Fresh s → Fresh (ops.foldl step s) := by
    intro ops
    induction ops with
    | nil => intro s h; exact h
    | cons op ops ih => intro s h; exact ih _ (step_fresh s op h)
  exact this ops [] (by intro nd hnd; cases hnd)

/-- non-vacuity: a history in which a stub is queried, then expanded, then queried again -/
example : (([COp.addNode, .query 0 ⟨true, true, false⟩, .giveSucc 0, .query 0 ⟨true, false, true⟩] : List COp).foldl step [])
    = [{ ver := 1, seeds := some 1, cands := none, sets := some 1 }] := by decide

/-- the skip operation as it was before the repair: successors are added, nothing is discarded -/
def unrepairedSkip (i : Nat) (s : CState) : CState :=
  mapIdx (fun j nd => if i = j then { nd with ver := nd.ver + 1 } else nd) 0 s

/-- … and it breaks the invariant: seeds computed for the stub survive with a stale tag -/
theorem unrepaired_skip_is_stale :
    ¬ Fresh (unrepairedSkip 0 (([COp.addNode, .query 0 ⟨true, true, false⟩] : List COp).foldl step [])) := by
  intro h
  have := h { ver := 1, seeds := some 0, cands := some 0, sets := none } (by decide)
  have h1 := this.1 0 rfl
  simp at h1

/-! ### C16: reclaim and pickle are transparent -/

/-- what a node reports: `node_attractor_candidates` falls back to the seeds once the candidates
    were reclaimed; seeds and sets are reported as stored -/
def reportedCands (nd : CNode) : Option Nat := match nd.cands with | some t => some t | none => nd.seeds

/-- two copies of a node that differ at most by reclaimed candidates: candidates may differ once the
    seeds are known (the API then reports the seeds in their place, and C08 only constrains a
    candidate list up to covering) -/
def RelNode (a b : CNode) : Prop :=
  a.ver = b.ver ∧ a.seeds = b.seeds ∧ a.sets = b.sets ∧ (a.cands = b.cands ∨ a.seeds.isSome)

theorem relNode_refl (a : CNode) : RelNode a a := ⟨rfl, rfl, rfl, Or.inl rfl⟩

/-- `reclaim_node_data` relates every node to itself -/
theorem relNode_reclaim (j : Nat) (a : CNode) : RelNode a (stepNode .reclaim j a) := by
  unfold stepNode
  by_cases hs : a.seeds.isSome
  · simp only [hs, if_true]; exact ⟨rfl, rfl, rfl, Or.inr hs⟩
  · simp [hs]; exact relNode_refl a

/-- related nodes are observationally equal: same version (successor set), same seeds, same sets,
    and candidates are reported by one exactly when they are reported by the other -/
theorem relNode_obs {a b : CNode} (h : RelNode a b) :
    a.ver = b.ver ∧ a.seeds = b.seeds ∧ a.sets = b.sets ∧
      ((reportedCands a).isSome = (reportedCands b).isSome) := by
  obtain ⟨hv, hs, hse, hc⟩ := h
  refine ⟨hv, hs, hse, ?_⟩
  unfold reportedCands
  rcases hc with hc | hsome
  · rw [hc, hs]
  · have hsb : b.seeds.isSome := by rw [← hs]; exact hsome
    cases a.cands <;> cases b.cands <;> simp [hsome, hsb]

theorem fill_isSome_of_isSome {p : Option Nat} {w : Bool} {v : Nat} (h : p.isSome) : (fill p w v).isSome := by
  cases p with
  | some t => simp [fill]
  | none => cases h

/-- **C16 (bisimulation step).** Every operation maps related nodes to related nodes – so inserting
    `reclaim_node_data` (or a pickle round trip, which is the identity on this state) anywhere in a
    history never changes a later observation. -/
theorem stepNode_rel (op : COp) (j : Nat) {a b : CNode} (h : RelNode a b) :
    RelNode (stepNode op j a) (stepNode op j b) := by
  obtain ⟨hv, hs, hse, hc⟩ := h
  cases op with
  | addNode => exact ⟨hv, hs, hse, hc⟩
  | giveSucc i =>
    unfold stepNode
    by_cases hij : i = j
    · simp only [hij, if_true]; exact ⟨by simp [hv], rfl, rfl, Or.inl rfl⟩
    · simp [hij]; exact ⟨hv, hs, hse, hc⟩
  | shortcut i =>
    unfold stepNode
    by_cases hij : i = j
    · simp only [hij, if_true]; exact ⟨by simp [hv], by simp [hv], by simp [hv], Or.inl rfl⟩
    · simp [hij]; exact ⟨hv, hs, hse, hc⟩
  | markEmpty i =>
    unfold stepNode
    by_cases hij : i = j
    · simp only [hij, if_true]
      exact ⟨hv, by simp [hv], by simp [hv], Or.inr (by simp)⟩
    · simp [hij]; exact ⟨hv, hs, hse, hc⟩
  | reclaim =>
    unfold stepNode
    by_cases hsome : a.seeds.isSome
    · have hsb : b.seeds.isSome := by rw [← hs]; exact hsome
      simp only [hsome, hsb, if_true]; exact ⟨hv, hs, hse, Or.inl rfl⟩
    · have hsb : ¬ b.seeds.isSome := by rw [← hs]; exact hsome
      simp only [hsome, hsb]
      exact ⟨hv, hs, hse, hc⟩
  | query i w =>
    unfold stepNode
    by_cases hij : i = j
    · simp only [hij, if_true]
      refine ⟨hv, by rw [hs, hv], by rw [hse, hv], ?_⟩
      rcases hc with hc | hsome
      · left; rw [hc, hv]
      · right; exact fill_isSome_of_isSome hsome
    · simp [hij]; exact ⟨hv, hs, hse, hc⟩

/-- lifting to whole states -/
def Rel : CState → CState → Prop
  | [], [] => True
  | a :: as, b :: bs => RelNode a b ∧ Rel as bs
  | _, _ => False

theorem mapIdx_rel (f : Nat → CNode → CNode) (hf : ∀ j a b, RelNode a b → RelNode (f j a) (f j b)) :
    ∀ (k : Nat) (s t : CState), Rel s t → Rel (mapIdx f k s) (mapIdx f k t) := by
  intro k s
  induction s generalizing k with
  | nil => intro t h; cases t with
    | nil => simp [mapIdx, Rel]
    | cons _ _ => simp [Rel] at h
  | cons a rest ih =>
    intro t h
    cases t with
    | nil => simp [Rel] at h
    | cons b bs =>
      simp only [Rel] at h
      simp only [mapIdx, Rel]
      exact ⟨hf k a b h.1, ih (k + 1) bs h.2⟩

theorem rel_append (s t : CState) (h : Rel s t) (x : CNode) : Rel (s ++ [x]) (t ++ [x]) := by
  induction s generalizing t with
  | nil => cases t with
    | nil => simp [Rel, relNode_refl]
    | cons _ _ => simp [Rel] at h
  | cons a rest ih =>
    cases t with
    | nil => simp [Rel] at h
    | cons b bs =>
      simp only [Rel] at h
      simp only [List.cons_append, Rel]
      exact ⟨h.1, ih bs h.2⟩

/-- **C16.** The relation is a bisimulation for every operation … -/
theorem step_rel (s t : CState) (op : COp) (h : Rel s t) : Rel (step s op) (step t op) := by
  cases op with
  | addNode => exact rel_append s t h _
  | giveSucc i => exact mapIdx_rel _ (fun j a b hab => stepNode_rel _ j hab) 0 s t h
  | shortcut i => exact mapIdx_rel _ (fun j a b hab => stepNode_rel _ j hab) 0 s t h
  | query i w => exact mapIdx_rel _ (fun j a b hab => stepNode_rel _ j hab) 0 s t h
  | markEmpty i => exact mapIdx_rel _ (fun j a b hab => stepNode_rel _ j hab) 0 s t h
  | reclaim => exact mapIdx_rel _ (fun j a b hab => stepNode_rel _ j hab) 0 s t h

/-- … and a reclaim relates a state to itself -/
theorem rel_reclaim (s : CState) : Rel s (step s .reclaim) := by
  have : ∀ (k : Nat) (s : CState), Rel s (mapIdx (stepNode .reclaim) k s) := by
    intro k s
    induction s generalizing k with
    | nil => simp [mapIdx, Rel]
    | cons a rest ih => simp only [mapIdx, Rel]; exact ⟨relNode_reclaim k a, ih (k + 1)⟩
  exact this 0 s

/-- hence: run any history `ops2` after `ops1`, with or without a reclaim in between – the final
    states are related, i.e. observationally equal (`relNode_obs`) -/
theorem reclaim_transparent (ops1 ops2 : List COp) :
    Rel (ops2.foldl step (ops1.foldl step [])) (ops2.foldl step (step (ops1.foldl step []) .reclaim)) := by
  have : ∀ (ops : List COp) (s t : CState), Rel s t → Rel (ops.foldl step s) (ops.foldl step t) := by
    intro ops
    induction ops with
    | nil => intro s t h; exact h
    | cons op ops ih => intro s t h; exact ih _ _ (step_rel s t op h)
  exact this ops2 _ _ (rel_reclaim _)

end Balm.Cache
