import Balm.Impl.Diagram
/-!
# `percolate_space_strict`, `percolation_conflicts`, single-node LDOIs and single drivers

`percStrict` mirrors the hand-written loop of `biobalm.space_utils.percolate_space_strict`:
variables with globally constant update functions are never candidates; a candidate whose
function is constant on the current restriction is recorded (also when it is a *given* variable
and the value agrees), dropped silently when it conflicts with a given value, and the restriction
grows only by non-conflicting values.  The candidate set is iterated in an arbitrary order
(`order`), the Python iterates a `set` of strings.
-/
namespace Balm.Impl

open Balm

variable {n : Nat}

def isConstFn (N : Net n) (i : Fin n) : Bool := (constOnB (N.f i) top).isSome

structure StrictSt (n : Nat) where
  restriction : Space n
  result : Space n
  cands : List (Fin n)
  changed : Bool

/-- the body of the loop for one candidate `v` -/
def strictStep (N : Net n) (st : StrictSt n) (v : Fin n) : StrictSt n :=
  match constOnB (N.f v) st.restriction with
  | none => st
  | some b =>
    match st.restriction[v] with
    | some g =>
      if g != b then { st with cands := st.cands.filter (· != v) }
      else { restriction := st.restriction.set v (some b), result := st.result.set v (some b),
             cands := st.cands.filter (· != v), changed := true }
    | none =>
      { restriction := st.restriction.set v (some b), result := st.result.set v (some b),
        cands := st.cands.filter (· != v), changed := true }

/-- one `for var in copy(candidates)` pass -/
def strictPass (N : Net n) (st : StrictSt n) : StrictSt n :=
  st.cands.foldl (strictStep N) { st with changed := false }

def strictLoop (N : Net n) : Nat → StrictSt n → StrictSt n
  | 0, st => st
  | fuel+1, st =>
    let st' := strictPass N st
    if st'.changed then strictLoop N fuel st' else st'

/-- `percolate_space_strict(network, space)` for the candidate iteration order `order` -/
def percStrict (N : Net n) (space : Space n) (order : List (Fin n)) : Space n :=
  (strictLoop N (n + 1)
    { restriction := space, result := top, cands := order.filter fun v => !isConstFn N v, changed := true }).result

/-- `percolation_conflicts` on an already percolated space -/
def conflictsOf (N : Net n) (perc : Space n) : List (Fin n) :=
  (List.finRange n).filter fun v => match perc[v] with
    | none => false
    | some b => match constOnB (N.f v) perc with
      | some fv => fv != b
      | none => false

end Balm.Impl
