import Balm.Impl.Attr
/-!
# A verified checker for negative feedback vertex sets (C08, assumption E5)

Candidate computation relies on the set `nfvs` returned by AEON being a *negative* feedback vertex set
of the node's percolated network: every cycle of the signed influence graph with an odd number of
negative edges passes through it.  That the set AEON returns has this property is checked per case by
`checkNfvs` against a certificate (a rank and a two-colouring of the remaining variables, computed by
untrusted code): an edge between remaining variables either strictly decreases the rank, or keeps the
rank and changes the colour exactly when it is negative.  `checkNfvs_sound`: if the check passes, every
closed walk among the remaining variables, over the *semantic* signed dependencies of the update
functions inside the node's space, has an even number of negative edges.
-/
namespace Balm.Impl

open Balm

variable {n : Nat}

/-- inside `p`, raising `u` can raise (`neg = false`) / lower (`neg = true`) the update function of `v` -/
def depB (N : Net n) (p : Space n) (u v : Fin n) (neg : Bool) : Bool :=
  (statesOf p).any fun s =>
    !s[u] && (statesOf p).contains (s.set u true) &&
      (if neg then N.f v s && !N.f v (s.set u true) else !N.f v s && N.f v (s.set u true))

structure NCert (n : Nat) where
  rank : Fin n → Nat
  col : Fin n → Bool

/-- the variables that remain: free in `p` and not in the feedback vertex set -/
def remains (p : Space n) (nfvs : List (Fin n)) (u : Fin n) : Bool := (p[u]).isNone && !nfvs.contains u

def edgeOk (c : NCert n) (u v : Fin n) (neg : Bool) : Bool :=
  decide (c.rank v < c.rank u) || (c.rank v == c.rank u && (c.col v == (c.col u != neg)))

def checkNfvs (N : Net n) (p : Space n) (nfvs : List (Fin n)) (c : NCert n) : Bool :=
  (List.finRange n).all fun u => (List.finRange n).all fun v =>
    !(remains p nfvs u && remains p nfvs v) ||
      ((!depB N p u v false || edgeOk c u v false) && (!depB N p u v true || edgeOk c u v true))

/-- the first violated edge, for the failure message -/
def badEdge (N : Net n) (p : Space n) (nfvs : List (Fin n)) (c : NCert n) : Option (Fin n × Fin n) :=
  ((List.finRange n).flatMap fun u => (List.finRange n).map fun v => (u, v)).find? fun e =>
    remains p nfvs e.1 && remains p nfvs e.2 &&
      ((depB N p e.1 e.2 false && !edgeOk c e.1 e.2 false) || (depB N p e.1 e.2 true && !edgeOk c e.1 e.2 true))

/-- walks over signed dependencies among the remaining variables; the Boolean is the parity of the
    number of negative edges -/
inductive SWalk (N : Net n) (p : Space n) (nfvs : List (Fin n)) : Fin n → Fin n → Bool → Prop
  | nil (u) : SWalk N p nfvs u u false
  | cons {u v w : Fin n} {par : Bool} (neg : Bool) :
      remains p nfvs u = true → remains p nfvs v = true → depB N p u v neg = true →
      SWalk N p nfvs v w par → SWalk N p nfvs u w (par != neg)

theorem walk_rank (N : Net n) (p : Space n) (nfvs : List (Fin n)) (c : NCert n)
    (h : checkNfvs N p nfvs c = true) {u w : Fin n} {par : Bool} (hw : SWalk N p nfvs u w par) :
    c.rank w ≤ c.rank u ∧ (c.rank w = c.rank u → c.col w = (c.col u != par)) := by
  induction hw with
  | nil u => exact ⟨Nat.le_refl _, fun _ => by simp⟩
  | @cons u v w par neg hu hv hd _ ih =>
    simp only [checkNfvs, List.all_eq_true, List.mem_finRange, true_implies] at h
    have huv := h u v
    rw [hu, hv] at huv
    simp only [Bool.and_self, Bool.not_true, Bool.false_or, Bool.and_eq_true, Bool.or_eq_true,
      Bool.not_eq_true'] at huv
    have hok : edgeOk c u v neg = true := by
      cases neg
      · rcases huv.1 with h1 | h1
        · rw [hd] at h1; cases h1
        · exact h1
      · rcases huv.2 with h1 | h1
        · rw [hd] at h1; cases h1
        · exact h1
    simp only [edgeOk, Bool.or_eq_true, decide_eq_true_eq, Bool.and_eq_true, beq_iff_eq] at hok
    obtain ⟨ih1, ih2⟩ := ih
    rcases hok with hlt | ⟨heq, hcol⟩
    · exact ⟨by omega, fun e => by omega⟩
    · refine ⟨by omega, fun e => ?_⟩
      have : c.rank w = c.rank v := by omega
      rw [ih2 this, hcol]
      cases c.col u <;> cases neg <;> cases par <;> rfl

/-- **C08 / E5 (`checkNfvs_sound`).** A set that passes the check meets every negative cycle. -/
theorem checkNfvs_sound (N : Net n) (p : Space n) (nfvs : List (Fin n)) (c : NCert n)
    (h : checkNfvs N p nfvs c = true) (u : Fin n) (par : Bool) (hw : SWalk N p nfvs u u par) : par = false := by
  have := (walk_rank N p nfvs c h hw).2 rfl
  cases par
  · rfl
  · exfalso
    cases hc : c.col u <;> rw [hc] at this <;> cases this

end Balm.Impl

namespace Balm.Impl
open Balm

/-- non-vacuity: the negative two-cycle `x ← ¬y, y ← x`; `{x}` is a negative feedback vertex set with the
    trivial certificate, the empty set is rejected with every certificate of the shape below -/
def exampleNegCycle : Net 2 := Net.ofExprs #v[.not (.var 1), .var 0]

example : checkNfvs exampleNegCycle (Vector.replicate 2 none) [⟨0, by omega⟩]
    { rank := fun _ => 0, col := fun _ => false } = true := by decide

example : checkNfvs exampleNegCycle (Vector.replicate 2 none) []
    { rank := fun _ => 0, col := fun i => i.val == 1 } = false := by decide

example : checkNfvs exampleNegCycle (Vector.replicate 2 none) []
    { rank := fun i => i.val, col := fun _ => false } = false := by decide

end Balm.Impl
