import Balm.Impl.Attr
/-!
# Judges: the property predicates, executable, evaluated on a dump of the *real* diagram

A `Dump` is what the harness reads off the Python object (`sd.dag`, `node_data`): per node its
space, depth, `expanded`, `skipped`; per edge its `all_motifs` list.  `judgeStrict` decides the
strict invariant of C02/C04/C15 (every expanded ordinary node has exactly the percolated stable
motifs as successors, with exactly those motifs on the edges; stubs have no successors; node spaces
are pairwise distinct percolation-closed trap spaces; the root is `perc ⊤`), the weak clause for
skip nodes (C03/C05), and the metadata clauses of C20 (depth = longest root path).
-/
namespace Balm.Impl

open Balm

variable {n : Nat}

structure DNode (n : Nat) where
  space : Space n
  depth : Nat
  expanded : Bool
  skipped : Bool

structure Dump (n : Nat) where
  nodes : List (DNode n)
  edges : List (Nat × Nat × List (Space n))

def Dump.space (d : Dump n) (i : Nat) : Space n := (d.nodes[i]?.map (·.space)).getD top

def Dump.succ (d : Dump n) (i : Nat) : List Nat := (d.edges.filter (·.1 == i)).map (·.2.1)

def Dump.pairs (d : Dump n) : List (Nat × Nat) := d.edges.map fun e => (e.1, e.2.1)

/-- diagram state of the model corresponding to a dump (edge triples grouped per edge) -/
def Dump.toDiag (d : Dump n) : Diag n :=
  { core := { nodes := d.nodes.map (·.space), exp := d.nodes.map (·.expanded),
              edges := d.edges.flatMap fun e => e.2.2.map fun m => (e.1, e.2.1, m) },
    skipped := (List.range d.nodes.length).filter fun i => (d.nodes[i]?.map (·.skipped)).getD false }

def firstSome (l : List (Option String)) : Option String := l.findSome? id

def check (b : Bool) (msg : String) : Option String := if b then none else some msg

def Dump.node (d : Dump n) (i : Nat) : DNode n :=
  d.nodes[i]?.getD { space := top, depth := 0, expanded := false, skipped := false }

def Dump.outs (d : Dump n) (i : Nat) : List (Nat × Nat × List (Space n)) := d.edges.filter (·.1 == i)

def chkRoot (c : Ctx n) (d : Dump n) : Option String :=
  check (decide (d.nodes.length > 0) && d.space 0 == c.root) "root is not the percolation of the whole space"

def chkDistinct (d : Dump n) : Option String :=
  check ((d.nodes.map (·.space)).eraseDups.length == d.nodes.length) "a trap space appears as two nodes"

def chkTrap (c : Ctx n) (d : Dump n) (i : Nat) : Option String :=
  check (isTrapB c.N (d.node i).space) s!"node {i} is not a trap space"

def chkPerc (c : Ctx n) (d : Dump n) (i : Nat) : Option String :=
  check (perc c.N (d.node i).space == (d.node i).space) s!"node {i} is not closed under percolation"

def chkTargets (d : Dump n) (i : Nat) : Option String :=
  check ((d.outs i).all fun e => decide (e.2.1 < d.nodes.length) && e.2.1 != i) s!"node {i} has an edge to a missing node or itself"

def chkMotifs (d : Dump n) (i : Nat) : Option String :=
  check ((d.outs i).all fun e => !e.2.2.isEmpty) s!"node {i} has an edge without motif"

/-- the successor clause, by kind of node: stub / skip node / ordinary expanded node -/
def chkKind (c : Ctx n) (mins : List (Space n)) (d : Dump n) (i : Nat) : Option String :=
  let nd := d.node i
  let p := nd.space
  let outs := d.outs i
  if !nd.expanded then check outs.isEmpty s!"unexpanded node {i} has successors"
  else if nd.skipped then
    firstSome
      [ check (outs.all fun e => (d.space e.2.1).leB p && d.space e.2.1 != p)
          s!"skip node {i} has a successor that is not strictly inside it",
        check ((mins.filter fun m => m.leB p).all fun m => m == p || outs.any fun e => m.leB (d.space e.2.1))
          s!"skip node {i} misses a minimal trap space" ]
  else
    check ((outs.flatMap fun e => e.2.2.map fun m => (d.space e.2.1, m)).isPerm
        ((c.env.maxT p).map fun m => (perc c.N m, m)))
      s!"expanded node {i}: successors/motifs differ from the percolated maximal trap spaces"

def chkDepth (d : Dump n) (checkDepth : Bool) (i : Nat) : Option String :=
  if checkDepth then
    check ((d.node i).depth == longestTo d.pairs d.nodes.length i)
      s!"depth of node {i} is {(d.node i).depth}, longest root path is {longestTo d.pairs d.nodes.length i}"
  else none

def nodeChecks (c : Ctx n) (mins : List (Space n)) (d : Dump n) (checkDepth : Bool) (i : Nat) : List (Option String) :=
  [chkTrap c d i, chkPerc c d i, chkTargets d i, chkMotifs d i, chkKind c mins d i, chkDepth d checkDepth i]

/-- `none` = the dump satisfies the invariant; `some reason` otherwise -/
def judgeStrict (c : Ctx n) (d : Dump n) (checkDepth : Bool := true) : Option String :=
  let mins := minTrapsIn c.N c.root
  firstSome ([chkRoot c d, chkDistinct d] ++
    (List.range d.nodes.length).map fun i => firstSome (nodeChecks c mins d checkDepth i))

/-- nodes without successors that are expanded (`minimal_trap_spaces()`) -/
def Dump.leaves (d : Dump n) : List (Space n) :=
  ((List.range d.nodes.length).filter fun i =>
    (d.nodes[i]?.map (·.expanded)).getD false && (d.succ i).isEmpty).map d.space

/-- C03: the diagram's minimal trap spaces are exactly the network's, each once -/
def judgeLeaves (c : Ctx n) (d : Dump n) : Option String :=
  let want := minTrapsIn c.N c.root
  let got := d.leaves
  firstSome
    [ check (got.eraseDups.length == got.length) "a minimal trap space is listed twice",
      check (got.all want.contains) "a spurious minimal trap space is listed",
      check (want.all got.contains) "a minimal trap space of the network is missing" ]

/-- no unexpanded node -/
def judgeComplete (d : Dump n) : Option String :=
  check (d.nodes.all (·.expanded)) "an unexpanded node remains"

end Balm.Impl

namespace Balm.Impl

open Balm

variable {n : Nat}

/-- ids reachable from `start` along edges (including `start`) -/
def reachIds (pairs : List (Nat × Nat)) : Nat → List Nat → List Nat → List Nat
  | 0, _, seen => seen
  | _, [], seen => seen
  | fuel+1, x :: fr, seen =>
    let new := ((pairs.filter (·.1 == x)).map (·.2)).eraseDups.filter fun y => !seen.contains y && !fr.contains y
    reachIds pairs fuel (fr ++ new) (seen ++ new)

def Dump.reach (d : Dump n) (start : Nat) : List Nat :=
  reachIds d.pairs (d.nodes.length + 1) [start] [start]

def Dump.isExp (d : Dump n) (i : Nat) : Bool := (d.nodes[i]?.map (·.expanded)).getD false

/-- the computed set is closed: it contains `start` and every successor of its members (checked, so
    that the soundness of the judge does not depend on how the set was computed) -/
def Dump.closedFrom (d : Dump n) (start : Nat) (S : List Nat) : Bool :=
  S.contains start && S.all fun x => (d.succ x).all S.contains

/-- C15: an unrestricted BFS/DFS from `start` that returned `true` left no stub below `start` -/
def judgeTrueComplete (d : Dump n) (start : Nat) : Option String :=
  firstSome
    [ check (d.closedFrom start (d.reach start)) s!"internal: the reachable set of node {start} is not closed",
      check ((d.reach start).all d.isExp) s!"returned True but an unexpanded node is reachable from node {start}" ]

/-- C15: a size-limited run returns `false` only if an unexpanded node remains below `start` -/
def judgeFalseHasStub (d : Dump n) (start : Nat) : Option String :=
  check ((d.reach start).any fun i => !d.isExp i) s!"returned False although no unexpanded node is reachable from node {start}"

/-- `find_node` : the node whose space equals the query exactly -/
def Dump.find (d : Dump n) (p : Space n) : Option Nat :=
  let i := (d.nodes.map (·.space)).idxOf p
  if i < d.nodes.length then some i else none

/-- model of `SuccessionDiagram.is_subgraph` -/
def isSubgraph (a b : Dump n) : Bool :=
  (List.range a.nodes.length).all fun i =>
    !a.isExp i ||
    match b.find (a.space i) with
    | none => false
    | some oi =>
      let osucc := if b.isExp oi then b.succ oi else []
      (a.succ i).all fun s =>
        match b.find (a.space s) with
        | none => false
        | some os => osucc.contains os

/-- specification of `is_subgraph` on the abstract diagrams: every expanded node of `a` is a node of
    `b`, and every edge of `a` (as a pair of spaces) is an edge of `b` -/
def subgraphSpec (a b : Dump n) : Bool :=
  (List.range a.nodes.length).all fun i =>
    !a.isExp i ||
    ((b.nodes.map (·.space)).contains (a.space i) &&
      (a.succ i).all fun s => b.pairs.any fun e => b.space e.1 == a.space i && b.space e.2 == a.space s)

end Balm.Impl

namespace Balm.Impl

open Balm

variable {n : Nat}

/-- the successor clause of the *weak* invariant (the one `Skip.attach_weak` / `skip_completion` are about): a stub has
    no successors; the successors of an expanded node - however it got them: stable motifs, source-variable valuations,
    skip edges, an attached sub-diagram - are trap spaces strictly inside it that together contain every minimal trap
    space inside it -/
def chkKindWeak (mins : List (Space n)) (d : Dump n) (i : Nat) : Option String :=
  let nd := d.node i
  let p := nd.space
  let outs := d.outs i
  if !nd.expanded then check outs.isEmpty s!"unexpanded node {i} has successors"
  else
    firstSome
      [ check (outs.all fun e => (d.space e.2.1).leB p && d.space e.2.1 != p)
          s!"node {i} has a successor that is not strictly inside it",
        check ((mins.filter fun m => m.leB p).all fun m => m == p || outs.any fun e => m.leB (d.space e.2.1))
          s!"node {i}: a minimal trap space inside it lies in none of its successors" ]

/-- weak invariant of a diagram built with shortcuts (source-variable valuations, skip nodes, attached sub-diagrams) -/
def judgeWeak (c : Ctx n) (d : Dump n) : Option String :=
  let mins := minTrapsIn c.N c.root
  firstSome ([chkRoot c d, chkDistinct d] ++
    (List.range d.nodes.length).map fun i =>
      firstSome [chkTrap c d i, chkPerc c d i, chkTargets d i, chkKindWeak mins d i, chkDepth d true i])

end Balm.Impl
