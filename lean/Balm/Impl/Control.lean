import Balm.Impl.Judge
import Balm.Ldoi
/-!
# Control: model of `find_drivers` / `successions_to_target` and the judge of C06

`findDrivers` mirrors the size-ascending enumeration with the superset skip (on variable *sets*)
of `biobalm.control.find_drivers`; `successionsOf` mirrors `successions_to_target` on a dump of the
diagram; `judgeForces` is the semantic clause of C06: every attractor of the overridden network
that is reachable from the previous trap space has the motif's values.
-/
namespace Balm.Impl

open Balm

variable {n : Nat}

/-- `a | b` on Python dictionaries: values of `b` win -/
def unionSp (a b : Space n) : Space n :=
  Vector.ofFn fun i => match b[i] with | some v => some v | none => a[i]

/-- the fixed variables of a space -/
def dom (p : Space n) : List (Fin n) := (List.finRange n).filter fun i => (p[i]).isSome

/-- all sublists of length `k`, in the order of `itertools.combinations` -/
def combos {α : Type} : List α → Nat → List (List α)
  | _, 0 => [[]]
  | [], _+1 => []
  | x :: xs, k+1 => (combos xs k).map (x :: ·) ++ combos xs (k+1)

/-- all Boolean assignments to the given variables, in the order of `product([0,1], repeat=k)` -/
def assignments : List (Fin n) → List (List (Fin n × Bool))
  | [] => [[]]
  | v :: vs => [false, true].flatMap fun b => (assignments vs).map ((v, b) :: ·)

def spaceOfAssign (l : List (Fin n × Bool)) : Space n :=
  Vector.ofFn fun i => (l.find? (·.1 == i)).map (·.2)

/-- the acceptance test: the whole target is contained in the LDOI of `driver | assume_fixed` -/
def drives (N : Net n) (assume target d : Space n) : Bool :=
  let l := perc N (unionSp d assume)
  (List.finRange n).all fun i => match target[i] with
    | some b => l[i] == some b
    | none => true

/-- `find_drivers`; `internal = true` restricts to the target's own variables with the target's
    values.  The result is a list of driver assignments (as spaces), in enumeration order. -/
def findDrivers (N : Net n) (assume target : Space n) (internal : Bool) (bound : Option Nat)
    (forbidden : List (Fin n)) : List (Space n) :=
  let inner : Space n := Vector.ofFn fun i => if (assume[i]).isSome then none else target[i]
  let pool := ((if internal then dom inner else List.finRange n).filter fun i => !forbidden.contains i)
  let maxSize := bound.getD (dom inner).length
  (List.range (maxSize + 1)).foldl (fun (found : List (Space n)) size =>
    (combos pool size).foldl (fun (found : List (Space n)) set =>
      if found.any (fun d => (dom d).all set.contains) then found
      else if internal then
        let d : Space n := Vector.ofFn fun i => if set.contains i then inner[i] else none
        if drives N assume target d then found ++ [d] else found
      else
        (assignments set).foldl (fun found a =>
          let d := spaceOfAssign a
          if drives N assume target d then found ++ [d] else found) found) found) []

/-- semantic clause of C06 for one override: in the network with `d` overridden, every attractor
    reachable from a state of `prev` satisfies the motif -/
def judgeForces (N : Net n) (prev d motif : Space n) : Option String :=
  let N' := override N d
  let tbl := reachTable N'
  let starts := statesOf prev
  let bad := starts.any fun s =>
    (lookupReach tbl s).any fun t => inAttrB tbl t && !(motif.memB t)
  firstSome
    [ check (drives N prev motif d) "the logical domain of influence of the override does not contain the motif",
      check (!bad) "an attractor of the overridden network reachable from the previous trap space violates the motif" ]

/-! ### successions -/

def simplePaths (pairs : List (Nat × Nat)) (tgt : Nat) : Nat → Nat → List Nat → List (List Nat)
  | 0, _, _ => []
  | fuel+1, cur, visited =>
    if cur == tgt then [[cur]]
    else
      ((pairs.filter (·.1 == cur)).map (·.2)).eraseDups.flatMap fun nxt =>
        if visited.contains nxt then [] else
        (simplePaths pairs tgt fuel nxt (nxt :: visited)).map (cur :: ·)

def cartesian {α : Type} : List (List α) → List (List α)
  | [] => [[]]
  | l :: ls => l.flatMap fun x => (cartesian ls).map (x :: ·)

def reduceMotif (parent m : Space n) : Space n :=
  Vector.ofFn fun i => if (parent[i]).isSome then none else m[i]

/-- `successions_to_target` (without `skip_feedforward_successions`) on a dump of the diagram -/
def successionsOf (d : Dump n) (target : Space n) : List (List (Space n)) :=
  let sz := d.nodes.length
  let ids := List.range sz
  let isMin (i : Nat) := d.isExp i && (d.succ i).isEmpty
  let hot := ids.filter fun s =>
    let sp := d.space s
    !interB sp target || (!(sp.leB target) && isMin s)
  let desc (s : Nat) := d.reach s
  let clean (s : Nat) := !((desc s).any hot.contains)
  let preds (s : Nat) := (d.pairs.filter (·.2 == s)).map (·.1)
  let found := ids.any clean
  let res := ids.flatMap fun s =>
    if !clean s then [] else
    if !((preds s).any fun p => !clean p) then [] else
    (simplePaths d.pairs s (sz + 1) 0 [0]).flatMap fun path =>
      let steps := (path.zip path.tail).map fun (x, y) =>
        ((d.edges.filter fun e => e.1 == x && e.2.1 == y).flatMap (·.2.2)).map (reduceMotif (d.space x))
      cartesian steps
  if found && res.isEmpty then [[]] else res

end Balm.Impl
