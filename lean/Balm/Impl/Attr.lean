import Balm.Impl.Diagram
/-!
# Executable asynchronous reachability and attractors

`reachSet N s` is a work-list closure under the asynchronous successor relation; `attractors N`
lists the terminal strongly connected sets.  Their specifications (`mem_reachSet`,
`attractors_spec`) are proved in `BalmProofs/ReachSpec.lean`.
-/
namespace Balm.Impl

open Balm

variable {n : Nat}

def succsOf (N : Net n) (s : State n) : List (State n) := (List.finRange n).map (step N s)

def addNew (seen : List (State n)) (ts : List (State n)) : List (State n) :=
  ts.foldl (fun acc t => if seen.contains t || acc.contains t then acc else acc ++ [t]) []

def reachLoop (N : Net n) : Nat → List (State n) → List (State n) → List (State n)
  | 0, _, seen => seen
  | _, [], seen => seen
  | k+1, s :: fr, seen =>
    let new := addNew seen (succsOf N s)
    reachLoop N k (fr ++ new) (seen ++ new)

def reachSet (N : Net n) (s : State n) : List (State n) := reachLoop N (2 ^ n) [s] [s]

/-- reach sets of all states, in `allStates` order -/
def reachTable (N : Net n) : List (State n × List (State n)) :=
  (allStates n).map fun s => (s, reachSet N s)

def lookupReach (tbl : List (State n × List (State n))) (s : State n) : List (State n) :=
  match tbl.find? (fun e => e.1 == s) with
  | some e => e.2
  | none => []

/-- `s` lies in an attractor iff everything reachable from it reaches it back -/
def inAttrB (tbl : List (State n × List (State n))) (s : State n) : Bool :=
  (lookupReach tbl s).all fun t => (lookupReach tbl t).contains s

/-- the attractors (terminal strongly connected sets), each as the reach set of its first state in
    `allStates` order -/
def attractorsOf (tbl : List (State n × List (State n))) : List (List (State n)) :=
  tbl.foldl (fun acc e =>
    if inAttrB tbl e.1 && !(acc.any fun A => A.contains e.1) then acc ++ [e.2] else acc) []

def attractors (N : Net n) : List (List (State n)) := attractorsOf (reachTable N)

/-- attractor `A` lies inside the space `p` (attractors inside trap spaces: one state suffices, but
    the judge checks all) -/
def attrIn (A : List (State n)) (p : Space n) : Bool := A.all fun s => p.memB s

/-- own attractors of a node: inside the node's space, inside none of the given successor spaces -/
def ownAttrs (atts : List (List (State n))) (p : Space n) (succSpaces : List (Space n)) :
    List (List (State n)) :=
  atts.filter fun A => attrIn A p && !(succSpaces.any fun q => attrIn A q)

end Balm.Impl
