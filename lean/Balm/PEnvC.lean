import Balm.Concrete
import Balm.Leaves
namespace Balm

variable {n : Nat} (N : Net n)

theorem Space.le_antisymm {p q : Space n} (h1 : p.le q) (h2 : q.le p) : p = q := by
  apply Vector.ext
  intro i hi
  cases hp : p[i] with
  | none =>
    cases hq : q[i] with
    | none => rfl
    | some b =>
      have := h1 ⟨i, hi⟩ b (by simpa using hq)
      have hp' : p[i] = some b := by simpa using this
      rw [hp] at hp'; cases hp'
  | some b =>
    have := h2 ⟨i, hi⟩ b (by simpa using hp)
    have hq' : q[i] = some b := by simpa using this
    rw [hq']

/-- in a percolated trap space nothing the oracle derives contradicts a fixed value -/
theorem closed_of_trap_fixed (q : Space n) (hq : TrapSpace N q)
    (hfix : percStep N (constOnOf N) q = q) (base : Space n) :
    ClosedOver N (constOnOf N) base q := by
  intro i b hc
  have hget := percStep_get N (constOnOf N) q i
  rw [hfix] at hget
  cases hqi : q[i] with
  | none =>
    rw [hqi] at hget
    simp at hget
    rw [hc] at hget; cases hget
  | some b' =>
    refine ⟨b', rfl, fun _ => ?_⟩
    -- `f i` is constantly `b` on `q`, `q` fixes `i` to `b'` and is a trap space
    obtain ⟨s, hs⟩ := Space.exists_mem q
    have hf : N.f i s = b := ((constOnOf N).spec i q b).1 hc s hs
    have hstay := hq s hs i i b' hqi
    rw [step_get] at hstay
    simp only [if_true] at hstay
    rw [hf] at hstay
    exact hstay.symm

/-- percolation is monotone on trap spaces: a smaller trap space percolates to a smaller space -/
theorem perc_mono {p q : Space n} (hp : TrapSpace N p) (hle : p.le q) : (perc N p).le (perc N q) := by
  -- `perc p` is a closed extension of `q`, `perc q` is the least one
  unfold Space.le perc percolate
  apply percIter_least
  · exact Space.Ext.trans hle (percIter_ext N (constOnOf N) n p)
  · exact closed_of_trap_fixed N _ (percIter_trap N (constOnOf N) n p hp)
      (percolate_fixed N (constOnOf N) p) q

theorem perc_le (p : Space n) : (perc N p).le p := percIter_ext N (constOnOf N) n p

/-- a space is *relevant* for the root rule if it fixes every identity input -/
def FixesAll (srcs : List (Fin n)) (T : Space n) : Prop := ∀ i ∈ srcs, (T[i]).isSome = true

/-- **the `cover` field of the partition environment, for the concrete model (C01/C02).** Every
    percolation-closed trap space strictly inside a node (fixing the inputs when the node is the
    root) lies inside the percolation of one of the node's stable motifs. -/
theorem concrete_cover (root : Space n) (srcs : List (Fin n)) (p T : Space n)
    (hT : GoodSpace N T) (hrel : p = root → FixesAll srcs T) (hle : T.le p) (hne : T ≠ p) :
    ∃ m ∈ (refEnv N root srcs).maxT p, T.le (perc N m) := by
  have hcand : ∀ s, (p = root → s = srcs) → (p ≠ root → s = []) → motifCand N p s T = true := by
    intro s h1 h2
    simp only [motifCand, Bool.and_eq_true, bne_iff_ne, ne_eq, List.all_eq_true]
    refine ⟨⟨⟨(isTrapB_iff N T).2 hT.1, (Space.leB_iff T p).2 hle⟩, hne⟩, ?_⟩
    intro i hi
    by_cases hpr : p = root
    · rw [h1 hpr] at hi; exact hrel hpr i hi
    · rw [h2 hpr] at hi; cases hi
  have hup : ∀ m, T.le m → T.le (perc N m) := by
    intro m hTm
    have := perc_mono N hT.1 hTm
    rw [hT.2] at this; exact this
  by_cases hpr : p = root
  · obtain ⟨m, hm, hTm⟩ := exists_max_above N p srcs (n - free T) T (Nat.le_refl _)
      (hcand srcs (fun _ => rfl) (fun h => absurd hpr h))
    refine ⟨m, ?_, hup m hTm⟩
    simp only [refEnv, hpr, if_true]; rw [← hpr]; exact hm
  · obtain ⟨m, hm, hTm⟩ := exists_max_above N p [] (n - free T) T (Nat.le_refl _)
      (hcand [] (fun h => absurd h hpr) (fun _ => rfl))
    refine ⟨m, ?_, hup m hTm⟩
    simp only [refEnv, hpr, if_false]; exact hm

end Balm
