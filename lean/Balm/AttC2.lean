import Balm.AttC
namespace Balm

variable {n : Nat} (N : Net n)

/-- an attractor of the concrete network as an `Att` of the partition environment -/
def attOf (srcs : List (Fin n)) (A : List (State n)) (hA : A ≠ [])
    (hattr : IsAttr N (fun s => s ∈ A))
    (hsrc : FixesAll srcs (perc N (meetAbove N A))) : Partition.Att (penv N srcs) where
  In := fun p => ∀ s ∈ A, p.Mem s
  mono := fun hin hle s hs => Space.Mem.of_ext hle (hin s hs)
  least := perc N (meetAbove N A)
  least_good := (least_spec N A hA hattr).1
  least_rel := hsrc
  least_in := (least_spec N A hA hattr).2.1
  least_le := fun p hp hin => (least_spec N A hA hattr).2.2 p hp hin
  in_root := attr_in_percIter N (constOnOf N) n _ (top_trap N) _ hattr
    (fun s _ => by intro i b h; simp at h)

/-- **C01 partition theorem for the concrete model.** For every network and every attractor `A`, in
    the fully expanded diagram there is exactly one node for which `A` is *own* (inside the node's
    space, inside no successor's space): the node of `perc (meetAbove A)`. Together with the per-node
    exactness of the candidate filter (C.2) this is "every attractor is represented by exactly one
    seed in the whole diagram". -/
theorem concrete_exists_unique_own (srcs : List (Fin n)) (A : List (State n)) (hA : A ≠ [])
    (hattr : IsAttr N (fun s => s ∈ A))
    (hsrc : FixesAll srcs (perc N (meetAbove N A))) :
    ∃ p, Partition.Own (penv N srcs) (attOf N srcs A hA hattr hsrc) p ∧
      ∀ q, Partition.Own (penv N srcs) (attOf N srcs A hA hattr hsrc) q → q = p :=
  Partition.exists_unique_own (penv N srcs) (attOf N srcs A hA hattr hsrc)

end Balm
