namespace Balm.Skip

/-- order facts about trap spaces needed for skip completion -/
structure WEnv (σ : Type) where
  le : σ → σ → Bool
  le_refl : ∀ a, le a a = true
  le_trans : ∀ {a b c}, le a b = true → le b c = true → le a c = true
  le_antisymm : ∀ {a b}, le a b = true → le b a = true → a = b
  good : σ → Prop                           -- percolation-closed trap space
  isMin : σ → Prop                          -- minimal trap space of the network
  min_good : ∀ m, isMin m → good m
  min_minimal : ∀ m q, isMin m → good q → le q m = true → q = m
  has_min : ∀ p, good p → ∃ m, isMin m ∧ le m p = true
  root : σ
  mins : List σ                             -- answer of the `min` solver at the root
  mins_spec : ∀ m, m ∈ mins ↔ isMin m ∧ le m root = true

variable {σ : Type} [DecidableEq σ]

/-- space-level view of a diagram (ids forgotten; C03/C05 do not mention them) -/
structure WSD (σ : Type) where
  nodes : List σ
  exp : σ → Bool
  edges : List (σ × σ)

/-- weak invariant: what every kind of expanded node (ordinary, skip, shortcut, attached) guarantees -/
structure InvWeak (E : WEnv σ) (s : WSD σ) : Prop where
  good : ∀ p ∈ s.nodes, E.good p
  below : ∀ p ∈ s.nodes, E.le p E.root = true
  stub : ∀ p, s.exp p = false → ∀ e ∈ s.edges, e.1 ≠ p
  edge : ∀ e ∈ s.edges, e.1 ∈ s.nodes ∧ e.2 ∈ s.nodes ∧ E.le e.2 e.1 = true ∧ e.2 ≠ e.1
  cov : ∀ p ∈ s.nodes, s.exp p = true → ∀ m, E.isMin m → E.le m p = true →
          m = p ∨ ∃ c, (p, c) ∈ s.edges ∧ E.le m c = true

def newNodes (E : WEnv σ) (s : WSD σ) : List σ := s.nodes ++ E.mins.filter (fun m => m ∉ s.nodes)
def exp1 (E : WEnv σ) (s : WSD σ) (p : σ) : Bool := s.exp p || decide (p ∈ E.mins)
def stubs (E : WEnv σ) (s : WSD σ) : List σ := (newNodes E s).filter (fun p => exp1 E s p = false)
def skipEdges (E : WEnv σ) (s : WSD σ) : List (σ × σ) :=
  (stubs E s).flatMap (fun p => (E.mins.filter (fun m => E.le m p)).map (fun m => (p, m)))

/-- `skip_remaining` -/
def skipRemaining (E : WEnv σ) (s : WSD σ) : WSD σ :=
  { nodes := newNodes E s, exp := fun _ => true, edges := s.edges ++ skipEdges E s }

theorem mem_skipEdges (E : WEnv σ) (s : WSD σ) (e : σ × σ) :
    e ∈ skipEdges E s ↔ e.1 ∈ stubs E s ∧ e.2 ∈ E.mins ∧ E.le e.2 e.1 = true := by
  simp only [skipEdges, List.mem_flatMap, List.mem_map, List.mem_filter]
  constructor
  · rintro ⟨p, hp, m, ⟨hm, hle⟩, rfl⟩; exact ⟨hp, hm, hle⟩
  · rintro ⟨h1, h2, h3⟩; exact ⟨e.1, h1, e.2, ⟨h2, h3⟩, rfl⟩

theorem mem_stubs (E : WEnv σ) (s : WSD σ) (p : σ) :
    p ∈ stubs E s ↔ p ∈ s.nodes ∧ s.exp p = false ∧ p ∉ E.mins := by
  simp only [stubs, newNodes, exp1, List.mem_filter, List.mem_append, Bool.or_eq_false_iff,
    decide_eq_false_iff_not, decide_eq_true_eq]
  constructor
  · rintro ⟨h | ⟨h, _⟩, h2, h3⟩
    · exact ⟨h, h2, h3⟩
    · exact absurd h h3
  · rintro ⟨h1, h2, h3⟩; exact ⟨Or.inl h1, h2, h3⟩

/-- a minimal trap space that is a node and expanded has no outgoing edge -/
theorem min_no_out (E : WEnv σ) (s : WSD σ) (h : InvWeak E s) (m : σ) (hm : E.isMin m) :
    ∀ e ∈ s.edges, e.1 ≠ m := by
  intro e he heq
  obtain ⟨_, h2, h3, h4⟩ := h.edge e he
  rw [heq] at h3 h4
  exact h4 (E.min_minimal m e.2 hm (h.good e.2 h2) h3)

/-- **C03 core (`skip_completion`).** After `skip_remaining` on any diagram satisfying the weak
    invariant: the invariant still holds, no node is unexpanded, and the nodes without successors
    are exactly the minimal trap spaces of the network (all of them are nodes). -/
theorem skip_completion (E : WEnv σ) (s : WSD σ) (h : InvWeak E s) :
    InvWeak E (skipRemaining E s) ∧
    (∀ m, E.isMin m → E.le m E.root = true → m ∈ (skipRemaining E s).nodes) ∧
    (∀ p ∈ (skipRemaining E s).nodes,
        (∀ e ∈ (skipRemaining E s).edges, e.1 ≠ p) ↔ E.isMin p) := by
  have hnodes : ∀ p, p ∈ newNodes E s ↔ p ∈ s.nodes ∨ p ∈ E.mins := by
    intro p
    simp only [newNodes, List.mem_append, List.mem_filter, decide_eq_true_eq]
    constructor
    · rintro (h1 | ⟨h1, _⟩); exact Or.inl h1; exact Or.inr h1
    · rintro (h1 | h1)
      · exact Or.inl h1
      · by_cases hp : p ∈ s.nodes
        · exact Or.inl hp
        · exact Or.inr ⟨h1, hp⟩
  have hinv : InvWeak E (skipRemaining E s) := by
    refine ⟨?_, ?_, ?_, ?_, ?_⟩
    · intro p hp
      rcases (hnodes p).1 hp with h1 | h1
      · exact h.good p h1
      · exact E.min_good p ((E.mins_spec p).1 h1).1
    · intro p hp
      rcases (hnodes p).1 hp with h1 | h1
      · exact h.below p h1
      · exact ((E.mins_spec p).1 h1).2
    · intro p hp; simp [skipRemaining] at hp
    · intro e he
      rcases List.mem_append.1 he with he | he
      · obtain ⟨a, b, c, d⟩ := h.edge e he
        exact ⟨(hnodes _).2 (Or.inl a), (hnodes _).2 (Or.inl b), c, d⟩
      · obtain ⟨h1, h2, h3⟩ := (mem_skipEdges E s e).1 he
        obtain ⟨h1a, _, h1c⟩ := (mem_stubs E s e.1).1 h1
        refine ⟨(hnodes _).2 (Or.inl h1a), (hnodes _).2 (Or.inr h2), h3, ?_⟩
        intro heq; rw [heq] at h2; exact h1c h2
    · intro p hp _ m hm hle
      by_cases hpm : p ∈ E.mins
      · -- p itself is minimal
        left
        exact E.min_minimal p m ((E.mins_spec p).1 hpm).1 (E.min_good m hm) hle
      · have hps : p ∈ s.nodes := by
          rcases (hnodes p).1 hp with h1 | h1
          · exact h1
          · exact absurd h1 hpm
        have hmm : m ∈ E.mins := (E.mins_spec m).2 ⟨hm, E.le_trans hle (h.below p hps)⟩
        cases hexp : s.exp p with
        | true =>
          rcases h.cov p hps hexp m hm hle with h1 | ⟨c, hc, hmc⟩
          · exact Or.inl h1
          · exact Or.inr ⟨c, List.mem_append_left _ hc, hmc⟩
        | false =>
          right
          refine ⟨m, List.mem_append_right _ ?_, E.le_refl m⟩
          exact (mem_skipEdges E s (p, m)).2 ⟨(mem_stubs E s p).2 ⟨hps, hexp, hpm⟩, hmm, hle⟩
  refine ⟨hinv, ?_, ?_⟩
  · intro m hm hle
    exact (hnodes m).2 (Or.inr ((E.mins_spec m).2 ⟨hm, hle⟩))
  · intro p hp
    constructor
    · intro hleaf
      obtain ⟨m, hm, hle⟩ := E.has_min p (hinv.good p hp)
      rcases hinv.cov p hp rfl m hm hle with h1 | ⟨c, hc, _⟩
      · rw [← h1]; exact hm
      · exact absurd rfl (hleaf (p, c) hc)
    · intro hm
      exact min_no_out E _ hinv p hm

/-! ### giving a stub successors by any rule (source shortcuts, skipping, sub-diagram attachment) -/

/-- a stub `p` receives the successors `cs` and is marked expanded -/
def attach (s : WSD σ) (p : σ) (cs : List σ) : WSD σ :=
  { nodes := s.nodes ++ cs.filter (fun c => c ∉ s.nodes),
    exp := fun q => if q = p then true else s.exp q,
    edges := s.edges ++ cs.map (fun c => (p, c)) }

/-- **C03/C14 core (`attach_weak`).** Let `p` be an unexpanded node and `cs` percolation-closed trap
    spaces strictly inside `p` that together contain every minimal trap space of `p` (or `p` is itself
    minimal and `cs` is empty).  Giving `p` the successors `cs` keeps the weak invariant - whatever
    rule produced `cs`: the valuations of the source variables (`source_valuations_cover`), the
    minimal trap spaces (skip nodes), or the nodes of an attached sub-diagram. -/
theorem attach_weak (E : WEnv σ) (s : WSD σ) (h : InvWeak E s) (p : σ) (cs : List σ)
    (hp : p ∈ s.nodes) (hstub : s.exp p = false)
    (hgood : ∀ c ∈ cs, E.good c) (hlt : ∀ c ∈ cs, E.le c p = true ∧ c ≠ p)
    (hcov : ∀ m, E.isMin m → E.le m p = true → m = p ∨ ∃ c ∈ cs, E.le m c = true)
    (hnew : ∀ c ∈ cs, c ∉ s.nodes → s.exp c = false) :
    InvWeak E (attach s p cs) := by
  have hnodes : ∀ q, q ∈ (attach s p cs).nodes ↔ q ∈ s.nodes ∨ q ∈ cs := by
    intro q
    simp only [attach, List.mem_append, List.mem_filter, decide_eq_true_eq]
    constructor
    · rintro (h1 | ⟨h1, _⟩); exact Or.inl h1; exact Or.inr h1
    · rintro (h1 | h1)
      · exact Or.inl h1
      · by_cases hq : q ∈ s.nodes
        · exact Or.inl hq
        · exact Or.inr ⟨h1, hq⟩
  refine ⟨?_, ?_, ?_, ?_, ?_⟩
  · intro q hq
    rcases (hnodes q).1 hq with h1 | h1
    · exact h.good q h1
    · exact hgood q h1
  · intro q hq
    rcases (hnodes q).1 hq with h1 | h1
    · exact h.below q h1
    · exact E.le_trans (hlt q h1).1 (h.below p hp)
  · intro q hq e he
    have hqp : q ≠ p := by
      intro e1; subst e1; simp [attach] at hq
    have hq' : s.exp q = false := by simpa [attach, hqp] using hq
    rcases List.mem_append.1 he with he | he
    · exact h.stub q hq' e he
    · obtain ⟨c, _, rfl⟩ := List.mem_map.1 he
      exact fun e1 => hqp e1.symm
  · intro e he
    rcases List.mem_append.1 he with he | he
    · obtain ⟨a, b, c, d⟩ := h.edge e he
      exact ⟨(hnodes _).2 (Or.inl a), (hnodes _).2 (Or.inl b), c, d⟩
    · obtain ⟨c, hc, rfl⟩ := List.mem_map.1 he
      exact ⟨(hnodes _).2 (Or.inl hp), (hnodes _).2 (Or.inr hc), (hlt c hc).1, (hlt c hc).2⟩
  · intro q hq hexp m hm hle
    by_cases hqp : q = p
    · subst hqp
      rcases hcov m hm hle with h1 | ⟨c, hc, hmc⟩
      · exact Or.inl h1
      · exact Or.inr ⟨c, List.mem_append_right _ (List.mem_map.2 ⟨c, hc, rfl⟩), hmc⟩
    · have hexp' : s.exp q = true := by simpa [attach, hqp] using hexp
      have hqs : q ∈ s.nodes := by
        rcases (hnodes q).1 hq with h1 | h1
        · exact h1
        · -- a child that is a new node is created unexpanded
          by_cases hq2 : q ∈ s.nodes
          · exact hq2
          · rw [hnew q h1 hq2] at hexp'; cases hexp'
      rcases h.cov q hqs hexp' m hm hle with h1 | ⟨c, hc, hmc⟩
      · exact Or.inl h1
      · exact Or.inr ⟨c, List.mem_append_left _ hc, hmc⟩

end Balm.Skip
