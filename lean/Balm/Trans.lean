import Balm.Perc2
/-!
# Transition systems: isomorphisms (C17) and independent products (C18)

The semantic content of "results do not depend on the presentation" and of "results compose across
independent sub-networks", stated for arbitrary transition systems:

* a bijection on states that commutes with the one-step relation maps reachability to reachability
  and attractors to attractors (`Iso.reach`, `Iso.attr`) – variable renaming, declaration reordering
  and encoding a variable by its negation all induce such a bijection on the states of a network;
* in the asynchronous product of two systems, reachability is component-wise (`reach_prod`) and the
  attractors are exactly the products of attractors of the components (`attr_prod`).

`tsOf N` is the transition system of a network, so both apply to `Net`.
-/
namespace Balm.TSys

structure TS (α : Type) where
  step : α → α → Prop

variable {α β : Type}

inductive Reach (A : TS α) : α → α → Prop
  | refl (a) : Reach A a a
  | tail {a b c} : Reach A a b → A.step b c → Reach A a c

theorem Reach.trans {A : TS α} {a b c : α} (h1 : Reach A a b) (h2 : Reach A b c) : Reach A a c := by
  induction h2 with
  | refl => exact h1
  | tail _ hs ih => exact Reach.tail ih hs

theorem Reach.head {A : TS α} {a b c : α} (hs : A.step a b) (h : Reach A b c) : Reach A a c :=
  Reach.trans (Reach.tail (Reach.refl a) hs) h

/-- attractor: non-empty, and from each of its states exactly its states are reachable -/
def IsAttr (A : TS α) (X : α → Prop) : Prop :=
  (∃ a, X a) ∧ ∀ a, X a → ∀ b, (X b ↔ Reach A a b)

/-! ### isomorphisms -/

structure Iso (A : TS α) (B : TS β) where
  f : α → β
  g : β → α
  gf : ∀ a, g (f a) = a
  fg : ∀ b, f (g b) = b
  step : ∀ a a', A.step a a' ↔ B.step (f a) (f a')

theorem Iso.reach {A : TS α} {B : TS β} (φ : Iso A B) (a a' : α) :
    Reach A a a' ↔ Reach B (φ.f a) (φ.f a') := by
  constructor
  · intro h
    induction h with
    | refl => exact Reach.refl _
    | tail _ hs ih => exact Reach.tail ih ((φ.step _ _).1 hs)
  · intro h
    have key : ∀ b', Reach B (φ.f a) b' → Reach A a (φ.g b') := by
      intro b' hb
      induction hb with
      | refl => rw [φ.gf]; exact Reach.refl _
      | @tail b c _ hs ih =>
        apply Reach.tail ih
        rw [φ.step, φ.fg, φ.fg]
        exact hs
    have := key _ h
    rwa [φ.gf] at this

/-- **C17.** A state bijection that commutes with the dynamics maps attractors to attractors. -/
theorem Iso.attr {A : TS α} {B : TS β} (φ : Iso A B) (X : α → Prop) (hX : IsAttr A X) :
    IsAttr B (fun b => X (φ.g b)) := by
  obtain ⟨⟨a0, ha0⟩, hcl⟩ := hX
  refine ⟨⟨φ.f a0, by simpa [φ.gf] using ha0⟩, ?_⟩
  intro b hb b'
  have := hcl (φ.g b) hb (φ.g b')
  show X (φ.g b') ↔ Reach B b b'
  rw [this, φ.reach, φ.fg, φ.fg]

/-! ### asynchronous products -/

def prod (A : TS α) (B : TS β) : TS (α × β) where
  step := fun p q => (A.step p.1 q.1 ∧ p.2 = q.2) ∨ (p.1 = q.1 ∧ B.step p.2 q.2)

theorem reach_left {A : TS α} {B : TS β} {a a' : α} (b : β) (h : Reach A a a') :
    Reach (prod A B) (a, b) (a', b) := by
  induction h with
  | refl => exact Reach.refl _
  | tail _ hs ih => exact Reach.tail ih (Or.inl ⟨hs, rfl⟩)

theorem reach_right {A : TS α} {B : TS β} (a : α) {b b' : β} (h : Reach B b b') :
    Reach (prod A B) (a, b) (a, b') := by
  induction h with
  | refl => exact Reach.refl _
  | tail _ hs ih => exact Reach.tail ih (Or.inr ⟨rfl, hs⟩)

/-- **C18.** Reachability in the product of two independent systems is component-wise. -/
theorem reach_prod (A : TS α) (B : TS β) (p q : α × β) :
    Reach (prod A B) p q ↔ Reach A p.1 q.1 ∧ Reach B p.2 q.2 := by
  constructor
  · intro h
    induction h with
    | refl => exact ⟨Reach.refl _, Reach.refl _⟩
    | @tail b c _ hs ih =>
      rcases hs with ⟨hs, heq⟩ | ⟨heq, hs⟩
      · exact ⟨Reach.tail ih.1 hs, heq ▸ ih.2⟩
      · exact ⟨heq ▸ ih.1, Reach.tail ih.2 hs⟩
  · rintro ⟨h1, h2⟩
    have e1 : Reach (prod A B) (p.1, p.2) (q.1, p.2) := reach_left p.2 h1
    have e2 : Reach (prod A B) (q.1, p.2) (q.1, q.2) := reach_right q.1 h2
    exact Reach.trans e1 e2

/-- **C18.** The product of an attractor of `A` and an attractor of `B` is an attractor of the
    product system … -/
theorem attr_prod_of (A : TS α) (B : TS β) (X : α → Prop) (Y : β → Prop)
    (hX : IsAttr A X) (hY : IsAttr B Y) : IsAttr (prod A B) (fun p => X p.1 ∧ Y p.2) := by
  obtain ⟨⟨a0, ha0⟩, hXc⟩ := hX
  obtain ⟨⟨b0, hb0⟩, hYc⟩ := hY
  refine ⟨⟨(a0, b0), ha0, hb0⟩, ?_⟩
  rintro ⟨a, b⟩ ⟨ha, hb⟩ ⟨a', b'⟩
  rw [reach_prod]
  exact ⟨fun ⟨h1, h2⟩ => ⟨(hXc a ha a').1 h1, (hYc b hb b').1 h2⟩,
    fun ⟨h1, h2⟩ => ⟨(hXc a ha a').2 h1, (hYc b hb b').2 h2⟩⟩

/-- … and every attractor of the product system is such a product: its projections are attractors of
    the components and it is their product. -/
theorem attr_prod_iff (A : TS α) (B : TS β) (Z : α × β → Prop) (hZ : IsAttr (prod A B) Z) :
    IsAttr A (fun a => ∃ b, Z (a, b)) ∧ IsAttr B (fun b => ∃ a, Z (a, b)) ∧
      ∀ p, Z p ↔ (∃ b, Z (p.1, b)) ∧ (∃ a, Z (a, p.2)) := by
  obtain ⟨⟨⟨a0, b0⟩, h0⟩, hcl⟩ := hZ
  have hrect : ∀ a b a' b', Z (a, b) → Z (a', b') → Z (a, b') := by
    intro a b a' b' h1 h2
    -- from (a,b) reach (a',b'), hence b ↝ b'; then (a,b) ↝ (a,b')
    have hr := (hcl (a, b) h1 (a', b')).1 h2
    rw [reach_prod] at hr
    exact (hcl (a, b) h1 (a, b')).2 ((reach_prod A B (a, b) (a, b')).2 ⟨Reach.refl _, hr.2⟩)
  refine ⟨⟨⟨a0, b0, h0⟩, ?_⟩, ⟨⟨b0, a0, h0⟩, ?_⟩, ?_⟩
  · rintro a ⟨b, hab⟩ a'
    constructor
    · rintro ⟨b', hab'⟩
      have := (hcl (a, b) hab (a', b')).1 hab'
      exact ((reach_prod A B _ _).1 this).1
    · intro hr
      exact ⟨b, (hcl (a, b) hab (a', b)).2 ((reach_prod A B (a, b) (a', b)).2 ⟨hr, Reach.refl _⟩)⟩
  · rintro b ⟨a, hab⟩ b'
    constructor
    · rintro ⟨a', hab'⟩
      have := (hcl (a, b) hab (a', b')).1 hab'
      exact ((reach_prod A B _ _).1 this).2
    · intro hr
      exact ⟨a, (hcl (a, b) hab (a, b')).2 ((reach_prod A B (a, b) (a, b')).2 ⟨Reach.refl _, hr⟩)⟩
  · rintro ⟨a, b⟩
    constructor
    · intro h; exact ⟨⟨b, h⟩, ⟨a, h⟩⟩
    · rintro ⟨⟨b', h1⟩, ⟨a', h2⟩⟩
      exact hrect a b' a' b h1 h2

/-! ### the transition system of a network -/

/-- asynchronous dynamics of a network as a transition system (self-loops `step s i = s` included,
    they change neither reachability nor attractors) -/
def tsOf {n : Nat} (N : Net n) : TS (State n) where
  step := fun s t => ∃ i, t = Balm.step N s i

theorem reach_tsOf {n : Nat} (N : Net n) (s t : State n) : Reach (tsOf N) s t ↔ Balm.Reach N s t := by
  constructor
  · intro h
    induction h with
    | refl => exact Balm.Reach.refl _
    | tail _ hs ih =>
      obtain ⟨i, rfl⟩ := hs
      exact Balm.Reach.tail i ih
  · intro h
    induction h with
    | refl => exact Reach.refl _
    | tail i _ ih => exact Reach.tail ih ⟨i, rfl⟩

theorem isAttr_tsOf {n : Nat} (N : Net n) (X : State n → Prop) : IsAttr (tsOf N) X ↔ Balm.IsAttr N X := by
  unfold IsAttr Balm.IsAttr
  simp only [reach_tsOf]

end Balm.TSys
