import Balm.Skip
namespace Balm.Skip

variable {σ : Type} [DecidableEq σ]

/-- attractors seen through the spaces that contain them, for the skip-node argument -/
structure WAtt (E : WEnv σ) where
  In : σ → Prop
  mono : ∀ {p q}, In p → E.le p q = true → In q
  /-- in a network without motif-avoidant attractors every attractor lies in a minimal trap space -/
  inMin : σ
  inMin_min : E.isMin inMin
  inMin_in : In inMin
  /-- a trap space that contains the attractor contains that minimal trap space
      (the intersection with it is a trap space containing the attractor, hence the whole of it) -/
  below : ∀ p, E.good p → In p → E.le inMin p = true

/-- own attractor of a node (space-level view): inside the node, inside no successor -/
def OwnW (E : WEnv σ) (s : WSD σ) (a : WAtt E) (p : σ) : Prop :=
  p ∈ s.nodes ∧ a.In p ∧ ∀ c, (p, c) ∈ s.edges → ¬ a.In c

/-- **C05 core (`skip_no_maa_exactly_once`).** In a diagram satisfying the weak invariant with no
    unexpanded node – in particular after `skip_remaining`, with any number of skip nodes – an
    attractor of a network without motif-avoidant attractors is own for exactly one node: the leaf of
    its minimal trap space. Inner nodes and skip nodes own nothing, so whatever subset of their own
    attractors they report (skip nodes may exclude regions), every attractor is reported exactly
    once as soon as leaves report exactly their own. -/
theorem own_iff_leaf (E : WEnv σ) (s : WSD σ) (h : InvWeak E s)
    (hall : ∀ p ∈ s.nodes, s.exp p = true) (a : WAtt E) (hnode : a.inMin ∈ s.nodes) (p : σ) :
    OwnW E s a p ↔ p = a.inMin := by
  constructor
  · rintro ⟨hp, hin, hno⟩
    have hle := a.below p (h.good p hp) hin
    rcases h.cov p hp (hall p hp) a.inMin a.inMin_min hle with heq | ⟨c, hc, hmc⟩
    · exact heq.symm
    · exact absurd (a.mono a.inMin_in hmc) (hno c hc)
  · rintro rfl
    refine ⟨hnode, a.inMin_in, ?_⟩
    intro c hc _
    exact min_no_out E s h a.inMin a.inMin_min (a.inMin, c) hc rfl

end Balm.Skip
