namespace Balm.Cand

/-- the reduced-STG solver as the candidate computation sees it -/
structure Solver (Ret α : Type) where
  fp : Ret → List α                       -- the true (complete) fixed-point set for a retained map
  solve : Ret → Nat → List α              -- solver answer under a solution limit
  sub : ∀ R L, ∀ x ∈ solve R L, x ∈ fp R
  len_le : ∀ R L, (solve R L).length ≤ max L 1
  complete_of_lt : ∀ R L, (solve R L).length < max L 1 → ∀ x ∈ fp R, x ∈ solve R L

variable {Ret α Var : Type}

/-- `C` is the complete candidate set of the retained map `R` -/
def Complete (S : Solver Ret α) (C : List α) (R : Ret) : Prop := ∀ x, x ∈ C ↔ x ∈ S.fp R

theorem complete_solve (S : Solver Ret α) (R : Ret) (L : Nat) (h : (S.solve R L).length < max L 1) :
    Complete S (S.solve R L) R :=
  fun x => ⟨S.sub R L x, S.complete_of_lt R L h x⟩

/-- state of the regeneration loop -/
structure St (Ret α : Type) where
  R : Ret
  C : List α
  deriving DecidableEq

/-- invariant of the regeneration loop (after the repairs F4a–F4c): the pair is valid and small -/
def Valid (S : Solver Ret α) (L : Nat) (st : St Ret α) : Prop :=
  Complete S st.C st.R ∧ st.C.length < max L 1

/-- one iteration of the *repaired* regeneration loop for variable `v`
    (`set R v b` extends the retained map). `none` = the resource-limit error. -/
def regenStep (S : Solver Ret α) (set : Ret → Var → Bool → Ret) (L : Nat)
    (st : St Ret α) (v : Var) : Option (St Ret α) :=
  let R0 := set st.R v false
  let Z := S.solve R0 L
  if Z.length ≤ st.C.length then some ⟨R0, Z⟩
  else
    let R1 := set st.R v true
    let O := S.solve R1 Z.length
    if max L 1 ≤ Z.length ∧ max L 1 ≤ O.length then none
    else if O.length ≤ st.C.length then some ⟨R1, O⟩
    else if O.length < Z.length then some ⟨R1, O⟩
    else some ⟨R0, Z⟩                      -- tie: keep `zero`, which is known to be complete (F4b)

/-- the first iteration may start from the unsolved pair `(∅, [])`; all later ones from a valid pair -/
def Pre (S : Solver Ret α) (L : Nat) (st : St Ret α) : Prop := st.C = [] ∨ Valid S L st

theorem regenStep_valid (S : Solver Ret α) (set : Ret → Var → Bool → Ret) (L : Nat)
    (st st' : St Ret α) (v : Var) (hpre : Pre S L st)
    (h : regenStep S set L st v = some st') : Valid S L st' := by
  have hC : st.C.length < max L 1 := by
    rcases hpre with h0 | hv
    · rw [h0]; simp; omega
    · exact hv.2
  unfold regenStep at h
  simp only at h
  split at h
  · -- zero does not increase the count: it is below the limit, hence complete
    rename_i hle
    cases h
    have hlt : (S.solve (set st.R v false) L).length < max L 1 := by omega
    exact ⟨complete_solve S _ L hlt, hlt⟩
  · rename_i hgt
    have hZpos : 1 ≤ (S.solve (set st.R v false) L).length := by omega
    have hOle := S.len_le (set st.R v true) (S.solve (set st.R v false) L).length
    have hZle := S.len_le (set st.R v false) L
    have hmax : max (S.solve (set st.R v false) L).length 1 = (S.solve (set st.R v false) L).length := by
      omega
    split at h
    · cases h
    · rename_i hnoerr
      split at h
      · -- one is not larger than the previous set: strictly below its own limit
        rename_i hO
        cases h
        have hlt : (S.solve (set st.R v true) (S.solve (set st.R v false) L).length).length
            < max (S.solve (set st.R v false) L).length 1 := by omega
        refine ⟨complete_solve S _ _ hlt, ?_⟩
        show (S.solve (set st.R v true) (S.solve (set st.R v false) L).length).length < max L 1
        omega
      · split at h
        · rename_i hOZ
          cases h
          have hlt : (S.solve (set st.R v true) (S.solve (set st.R v false) L).length).length
              < max (S.solve (set st.R v false) L).length 1 := by omega
          refine ⟨complete_solve S _ _ hlt, ?_⟩
          show (S.solve (set st.R v true) (S.solve (set st.R v false) L).length).length < max L 1
          omega
        · -- tie: |one| = |zero|; no error was raised, so zero is below the global limit
          rename_i hOZ
          cases h
          have hlt : (S.solve (set st.R v false) L).length < max L 1 := by
            rcases Nat.lt_or_ge (S.solve (set st.R v false) L).length (max L 1) with h1 | h1
            · exact h1
            · exfalso; apply hnoerr; constructor <;> omega
          exact ⟨complete_solve S _ L hlt, hlt⟩

/-- the whole loop over the NFVS -/
def regen (S : Solver Ret α) (set : Ret → Var → Bool → Ret) (L : Nat) :
    List Var → St Ret α → Option (St Ret α)
  | [], st => some st
  | v :: vs, st => match regenStep S set L st v with
    | none => none
    | some st' => regen S set L vs st'

theorem regen_valid (S : Solver Ret α) (set : Ret → Var → Bool → Ret) (L : Nat) :
    ∀ (vs : List Var) (st st' : St Ret α), vs ≠ [] → Pre S L st →
      regen S set L vs st = some st' → Valid S L st'
  | [], _, _, hne, _, _ => absurd rfl hne
  | v :: vs, st, st', _, hpre, h => by
    simp only [regen] at h
    cases hstep : regenStep S set L st v with
    | none => simp [hstep] at h
    | some st1 =>
      simp only [hstep] at h
      have hv := regenStep_valid S set L st st1 v hpre hstep
      cases vs with
      | nil => simp [regen] at h; subst h; exact hv
      | cons w ws => exact regen_valid S set L (w :: ws) st1 st' (by simp) (Or.inr hv) h

/-- the repaired top level of the regeneration branch: with an empty NFVS the empty retained map is
    solved once (F4c); limit comparisons use `max L 1` and `≥` (F4a) -/
def regenTop (S : Solver Ret α) (set : Ret → Var → Bool → Ret) (L : Nat) (empty : Ret)
    (U : List Var) : Option (List α) :=
  match U with
  | [] => let C := S.solve empty L
          if max L 1 ≤ C.length then none else some C
  | _ => (regen S set L U ⟨empty, []⟩).map (·.C)

/-- **C08 core.** Whatever the limit value (0 included), the NFVS (empty included) and the solver's
    enumeration order, the regeneration branch either raises the limit error or returns the
    *complete* fixed-point set of some retained map – which covers every own attractor by E6. -/
theorem regenTop_complete (S : Solver Ret α) (set : Ret → Var → Bool → Ret) (L : Nat) (empty : Ret)
    (U : List Var) (C : List α) (h : regenTop S set L empty U = some C) :
    ∃ R, Complete S C R := by
  unfold regenTop at h
  cases U with
  | nil =>
    simp only at h
    split at h
    · cases h
    · rename_i hlt
      cases h
      exact ⟨empty, complete_solve S empty L (by omega)⟩
  | cons v vs =>
    simp only [Option.map_eq_some_iff] at h
    obtain ⟨st', hst, rfl⟩ := h
    exact ⟨st'.R, (regen_valid S set L (v :: vs) _ st' (by simp) (Or.inl rfl) hst).1⟩

end Balm.Cand

namespace Balm.Cand

/-- the canonical solver: enumerate the true set and truncate (`solution_limit=0` still yields one) -/
def Solver.ofFp {Ret α : Type} (fp : Ret → List α) : Solver Ret α where
  fp := fp
  solve := fun R L => (fp R).take (max L 1)
  sub := fun R L x hx => List.mem_of_mem_take hx
  len_le := fun R L => by simp [List.length_take]; omega
  complete_of_lt := fun R L h x hx => by
    have : (fp R).length ≤ max L 1 ∨ max L 1 < (fp R).length := by omega
    rcases this with h1 | h1
    · rw [List.take_of_length_le h1]; exact hx
    · simp [List.length_take] at h; omega

/-- the *unrepaired* last branch of the loop: on the path where `one` was solved with limit `|zero|`
    the code compares `|zero| < |one|` (never true) and otherwise keeps `one` -/
def regenStepOriginal (S : Solver Ret α) (set : Ret → Var → Bool → Ret) (L : Nat)
    (st : St Ret α) (v : Var) : Option (St Ret α) :=
  let R0 := set st.R v false
  let Z := S.solve R0 L
  if Z.length ≤ st.C.length then some ⟨R0, Z⟩
  else
    let R1 := set st.R v true
    let O := S.solve R1 Z.length
    if Z.length = L ∧ O.length = L then none
    else if O.length ≤ st.C.length then some ⟨R1, O⟩
    else if Z.length < O.length then some ⟨R0, Z⟩
    else some ⟨R1, O⟩

/-- **F4b as a checked witness.** A solver, a limit and a valid starting pair for which the original
    step keeps a truncated list: the retained map `true` has fixed points 3, 4, 5 but only 3, 4 are
    returned. (Retained maps are modelled by `Option Bool`: `none` = nothing chosen yet.) -/
theorem original_tie_unsound :
    let S : Solver (Option Bool) Nat := Solver.ofFp fun
      | none => [0] | some false => [1, 2] | some true => [3, 4, 5]
    let st : St (Option Bool) Nat := ⟨none, [0]⟩
    Valid S 10 st ∧
    ∃ st', regenStepOriginal S (fun _ (_ : Unit) b => some b) 10 st () = some st' ∧
      ¬ Complete S st'.C st'.R := by
  refine ⟨⟨fun x => by simp [Complete, Solver.ofFp], by decide⟩, ⟨some true, [3, 4]⟩, by decide, ?_⟩
  intro h
  have := (h 5).2 (by simp [Solver.ofFp])
  simp at this

/-- on the same input the repaired step keeps the complete `zero` -/
example :
    let S : Solver (Option Bool) Nat := Solver.ofFp fun
      | none => [0] | some false => [1, 2] | some true => [3, 4, 5]
    regenStep S (fun _ (_ : Unit) b => some b) 10 ⟨none, [0]⟩ () = some ⟨some false, [1, 2]⟩ := by
  decide

end Balm.Cand
