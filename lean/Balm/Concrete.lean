import Balm.MaxT
import Balm.SDm
namespace Balm

variable {n : Nat} (N : Net n)

/-- percolation of the concrete network (executable) -/
def perc (p : Space n) : Space n := percolate N (constOnOf N) p

/-- a node space: a percolation-closed trap space -/
def GoodSpace (p : Space n) : Prop := TrapSpace N p ∧ perc N p = p

theorem motifCand_trap {p : Space n} {srcs : List (Fin n)} {m : Space n}
    (h : motifCand N p srcs m = true) : TrapSpace N m := by
  simp only [motifCand, Bool.and_eq_true] at h
  exact (isTrapB_iff N m).1 h.1.1.1

/-- the environment of the diagram state machine (C.4) for a concrete network: identity inputs
    `srcs` are only imposed at the root space -/
def refEnv (root : Space n) (srcs : List (Fin n)) : SDm.Env (Space n) where
  perc := perc N
  maxT := fun p => if p = root then maxTrapsIn N p srcs else maxTrapsIn N p []
  good := GoodSpace N
  perc_good := by
    intro p _ m hm
    have hcand : ∃ s, motifCand N p s m = true := by
      split at hm
      · exact ⟨srcs, ((mem_maxTrapsIn N p srcs m).1 hm).1⟩
      · exact ⟨[], ((mem_maxTrapsIn N p [] m).1 hm).1⟩
    obtain ⟨s, hs⟩ := hcand
    have htrap := motifCand_trap N hs
    exact ⟨percIter_trap N (constOnOf N) n m htrap, percolate_idem N (constOnOf N) m⟩

/-- **C04 for the concrete, executable model.** For every network `N` (any number of variables), every
    motif limit and every sequence of single-node expansions, the diagram built from the root
    `perc ⊤` satisfies the strict invariant: nodes are pairwise distinct percolation-closed trap
    spaces, unexpanded nodes have no successor, and every expanded node has exactly the percolations
    of its stable motifs as successors with exactly those motifs on the edges, in order. -/
theorem concrete_plain_history_inv (srcs : List (Fin n)) (limit : Nat) (ops : List Nat)
    (hroot : TrapSpace N (Vector.replicate n none)) :
    let root := perc N (Vector.replicate n none)
    SDm.Inv (refEnv N root srcs)
      (ops.foldl (fun s i => (SDm.expandOneLimited (refEnv N root srcs) limit s i).1) (SDm.init root)) none := by
  intro root
  apply SDm.plain_history_inv
  exact ⟨percIter_trap N (constOnOf N) n _ hroot, percolate_idem N (constOnOf N) _⟩

/-- the whole state space is a trap space -/
theorem top_trap : TrapSpace N (Vector.replicate n none) := by
  intro s _ i j b hj
  simp at hj

end Balm
