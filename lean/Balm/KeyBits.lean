namespace Balm.KeyBits

/-- the code's key: `key |= (v + 2) << (2 * index)` over the items of the space dictionary,
    in whatever order the dictionary yields them -/
def keyItems (items : List (Nat × Bool)) : Nat :=
  items.foldl (fun k iv => k ||| ((iv.2.toNat + 2) <<< (2 * iv.1))) 0

theorem foldl_or_testBit (items : List (Nat × Bool)) (k0 j : Nat) :
    (items.foldl (fun k iv => k ||| ((iv.2.toNat + 2) <<< (2 * iv.1))) k0).testBit j =
      (k0.testBit j || items.any (fun iv => ((iv.2.toNat + 2) <<< (2 * iv.1)).testBit j)) := by
  induction items generalizing k0 with
  | nil => simp
  | cons iv items ih =>
    simp only [List.foldl_cons, List.any_cons]
    rw [ih, Nat.testBit_or, Bool.or_assoc]

theorem two_three_testBit (b : Bool) (d : Nat) :
    (b.toNat + 2).testBit d = (decide (d = 1) || (decide (d = 0) && b)) := by
  match d with
  | 0 => cases b <;> decide
  | 1 => cases b <;> decide
  | d + 2 =>
    have hlt : b.toNat + 2 < 2 ^ (d + 2) := by
      have h4 : b.toNat + 2 < 4 := by cases b <;> decide
      have : (4 : Nat) ≤ 2 ^ (d + 2) := by
        have : 2 ^ 2 ≤ 2 ^ (d + 2) := Nat.pow_le_pow_right (by decide) (by omega)
        simpa using this
      omega
    rw [Nat.testBit_lt_two_pow hlt]
    simp

theorem cell_testBit (b : Bool) (i j : Nat) :
    ((b.toNat + 2) <<< (2 * i)).testBit j =
      (decide (j = 2 * i + 1) || (decide (j = 2 * i) && b)) := by
  rw [Nat.testBit_shiftLeft, two_three_testBit]
  by_cases h : 2 * i ≤ j
  · have e1 : (j - 2 * i = 1) ↔ (j = 2 * i + 1) := by omega
    have e0 : (j - 2 * i = 0) ↔ (j = 2 * i) := by omega
    simp [h, e1, e0]
  · have hne1 : j ≠ 2 * i + 1 := by omega
    have hne0 : j ≠ 2 * i := by omega
    have hge : ¬ (j ≥ 2 * i) := by omega
    simp [hge, hne1, hne0]

/-- bit `2i+1` of the key says whether variable `i` is fixed -/
theorem key_fixed_bit (items : List (Nat × Bool)) (i : Nat) :
    (keyItems items).testBit (2 * i + 1) = items.any (fun iv => iv.1 == i) := by
  unfold keyItems
  rw [foldl_or_testBit]
  simp only [Nat.zero_testBit, Bool.false_or]
  congr 1
  funext iv
  rw [cell_testBit]
  by_cases hi : iv.1 = i
  · have h1 : 2 * i + 1 = 2 * iv.1 + 1 := by omega
    simp [h1, hi]
  · have h2 : ¬ (2 * i + 1 = 2 * iv.1) := by omega
    have h3 : ¬ (2 * i = 2 * iv.1) := by omega
    simp [h2, h3, hi]

/-- bit `2i` of the key is the value of variable `i` -/
theorem key_value_bit (items : List (Nat × Bool)) (i : Nat) :
    (keyItems items).testBit (2 * i) = items.any (fun iv => iv.1 == i && iv.2) := by
  unfold keyItems
  rw [foldl_or_testBit]
  simp only [Nat.zero_testBit, Bool.false_or]
  congr 1
  funext iv
  rw [cell_testBit]
  have h1 : ¬ (2 * i = 2 * iv.1 + 1) := by omega
  by_cases hi : iv.1 = i
  · have h2 : 2 * i = 2 * iv.1 := by omega
    simp [h1, h2, hi]
  · have h2 : ¬ (2 * i = 2 * iv.1) := by omega
    simp [h1, h2, hi]

/-- **C02/C04/C20 (`key_injective`, on the code's own bit arithmetic).** Two dictionaries with the
    same key fix the same variables to the same values – whatever their iteration order. -/
theorem key_injective (a b : List (Nat × Bool)) (h : keyItems a = keyItems b) (i : Nat) :
    (a.any (fun iv => iv.1 == i) = b.any (fun iv => iv.1 == i)) ∧
    (a.any (fun iv => iv.1 == i && iv.2) = b.any (fun iv => iv.1 == i && iv.2)) := by
  constructor
  · rw [← key_fixed_bit, ← key_fixed_bit, h]
  · rw [← key_value_bit, ← key_value_bit, h]

example : keyItems [(0, true), (2, false)] = keyItems [(2, false), (0, true)] := by decide
example : keyItems [(0, true), (2, false)] = 35 := by decide

end Balm.KeyBits
