import Balm.Dnf
import Balm.Siphon
namespace Balm

variable {n : Nat}

/-- the function whose implicants become the transitions moving `v` to `up`:
    `f_v ∧ ¬x_v` for `up = true`, `¬f_v ∧ x_v` for `up = false` -/
def moveFn (N : Net n) (v : Fin n) (up : Bool) : State n → Bool :=
  fun s => (N.f v s == up) && (s[v] == !up)

/-- transitions created by `_create_transitions` from the cubes of one direction of one variable -/
def transOf (v : Fin n) (up : Bool) (cubes : List (Space n)) : List (Trans n) :=
  cubes.map fun c => { v := v, up := up, c := c }

/-- a cube of a correct cover of `moveFn` never requires `v = up` -/
theorem cube_v (N : Net n) (v : Fin n) (up : Bool) (cubes : List (Space n))
    (hcov : ∀ s, (∃ c ∈ cubes, c.Mem s) ↔ moveFn N v up s = true)
    (c : Space n) (hc : c ∈ cubes) : c[v] ≠ some up := by
  intro h
  obtain ⟨s, hs⟩ := Space.exists_mem c
  have := (hcov s).1 ⟨c, hc, hs⟩
  have hsv : s[v] = up := hs v up h
  simp only [moveFn, Bool.and_eq_true, beq_iff_eq] at this
  rw [hsv] at this
  cases up <;> simp at this

/-- **C10 core (`toPN_enabled`).** If, for every variable and direction, the cubes cover exactly
    `moveFn` (which `dnf_correct` gives for the generator), then the net built from them is
    `Faithful` – the hypothesis of `siphon_iff_trapspace` (C.7). -/
theorem faithful_of_covers (N : Net n) (cubes : Fin n → Bool → List (Space n))
    (hcov : ∀ v up s, (∃ c ∈ cubes v up, c.Mem s) ↔ moveFn N v up s = true)
    (ts : List (Trans n))
    (hts : ∀ t, t ∈ ts ↔ ∃ v up, t ∈ transOf v up (cubes v up)) :
    Faithful N ts := by
  intro s v up
  constructor
  · rintro ⟨t, ht, rfl, rfl, hsv, hsat⟩
    obtain ⟨v', up', ht'⟩ := (hts t).1 ht
    simp only [transOf, List.mem_map] at ht'
    obtain ⟨c, hc, rfl⟩ := ht'
    -- the cube holds in `s` (its literal on `v`, if any, is `v = !up`)
    have hmem : c.Mem s := by
      intro j b hj
      by_cases hjv : j = v'
      · subst hjv
        have hne := cube_v N j up' (cubes j up') (hcov j up') c hc
        have hb : b = !up' := by
          cases b <;> cases hu : up' <;> simp_all
        rw [hb]; exact hsv
      · exact hsat j b hjv hj
    have := (hcov v' up' s).1 ⟨c, hc, hmem⟩
    simp only [moveFn, Bool.and_eq_true, beq_iff_eq] at this
    exact ⟨this.2, this.1⟩
  · rintro ⟨hsv, hf⟩
    have hm : moveFn N v up s = true := by
      simp [moveFn, hsv, hf]
    obtain ⟨c, hc, hmem⟩ := (hcov v up s).2 hm
    refine ⟨{ v := v, up := up, c := c }, (hts _).2 ⟨v, up, by simp [transOf]; exact hc⟩, rfl, rfl, hsv, ?_⟩
    intro j b _ hj
    exact hmem j b hj

end Balm
