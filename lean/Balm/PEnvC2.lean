import Balm.PEnvC
namespace Balm

variable {n : Nat} (N : Net n)

theorem fixesAll_of_le {srcs : List (Fin n)} {p q : Space n} (h : p.le q) (hq : FixesAll srcs q) :
    FixesAll srcs p := by
  intro i hi
  have := hq i hi
  cases hqi : q[i] with
  | none => simp [hqi] at this
  | some b => have := h i b hqi; simp [this]

/-- the partition environment (C.8) of a concrete network -/
def penv (srcs : List (Fin n)) : Partition.PEnv (Space n) where
  le := Space.le
  le_refl' := Space.le_refl
  le_trans := Space.le_trans
  le_antisymm := Space.le_antisymm
  good := GoodSpace N
  rel := FixesAll srcs
  root := perc N (Vector.replicate n none)
  root_good := ⟨percIter_trap N (constOnOf N) n _ (top_trap N), percolate_idem N (constOnOf N) _⟩
  children := fun p => ((refEnv N (perc N (Vector.replicate n none)) srcs).maxT p).map (perc N)
  child_le := by
    intro p c _ hc
    simp only [List.mem_map] at hc
    obtain ⟨m, hm, rfl⟩ := hc
    have hcand : ∃ s, motifCand N p s m = true := by
      simp only [refEnv] at hm
      split at hm
      · exact ⟨srcs, ((mem_maxTrapsIn N p srcs m).1 hm).1⟩
      · exact ⟨[], ((mem_maxTrapsIn N p [] m).1 hm).1⟩
    obtain ⟨s, hs⟩ := hcand
    simp only [motifCand, Bool.and_eq_true, bne_iff_ne, ne_eq] at hs
    have hmp : m.le p := (Space.leB_iff m p).1 hs.1.1.2
    have hne : m ≠ p := hs.1.2
    refine ⟨Space.le_trans (perc_le N m) hmp, ?_⟩
    intro heq
    apply hne
    apply Space.le_antisymm hmp
    rw [← heq]; exact perc_le N m
  child_good := by
    intro p c hp hc
    simp only [List.mem_map] at hc
    obtain ⟨m, hm, rfl⟩ := hc
    exact (refEnv N _ srcs).perc_good p hp m hm
  cover := by
    intro p T _ hT hrel hle hne
    obtain ⟨m, hm, hTm⟩ := concrete_cover N (perc N (Vector.replicate n none)) srcs p T hT
      (fun _ => hrel) hle hne
    exact ⟨perc N m, List.mem_map.2 ⟨m, hm, rfl⟩, hTm⟩
  wf := by
    apply Subrelation.wf (r := InvImage (· < ·) (free (n := n)))
    · intro a b h; exact free_lt_of_le_ne h.1 h.2
    · exact InvImage.wf _ Nat.lt_wfRel.wf

/-- every successor of a node of the full diagram fixes all identity inputs -/
theorem children_fix_srcs (srcs : List (Fin n)) :
    ∀ p c, Partition.Node (penv N srcs) p → c ∈ (penv N srcs).children p → FixesAll srcs c := by
  intro p c hp hc
  -- every node other than the root fixes the inputs; show it for `c` by cases on `p`
  have hnode : ∀ q, Partition.Node (penv N srcs) q → q = (penv N srcs).root ∨ FixesAll srcs q := by
    intro q hq
    induction hq with
    | root => exact Or.inl rfl
    | @child p' c' hp' hc' ih =>
      right
      simp only [penv, List.mem_map] at hc'
      obtain ⟨m, hm, rfl⟩ := hc'
      simp only [refEnv] at hm
      split at hm
      · -- successor of the root: its motif fixes the inputs, percolation only adds values
        have := ((mem_maxTrapsIn N _ srcs m).1 hm).1
        simp only [motifCand, Bool.and_eq_true, List.all_eq_true] at this
        exact fixesAll_of_le (perc_le N m) (fun i hi => this.2 i hi)
      · rename_i hne
        rcases ih with h | h
        · exact absurd h hne
        · have hcand := ((mem_maxTrapsIn N p' [] m).1 hm).1
          simp only [motifCand, Bool.and_eq_true] at hcand
          have hmp : m.le p' := (Space.leB_iff m p').1 hcand.1.1.2
          exact fixesAll_of_le (Space.le_trans (perc_le N m) hmp) h
  rcases hnode c (Partition.Node.child hp hc) with h | h
  · -- a successor is never the root (it is strictly smaller than its parent, which is ≤ root… )
    exfalso
    have hcl := (penv N srcs).child_le p c hp.good hc
    have hroot : ∀ q, Partition.Node (penv N srcs) q → Space.le q (penv N srcs).root := by
      intro q hq
      induction hq with
      | root => exact Space.le_refl _
      | child hp' hc' ih => exact Space.le_trans ((penv N srcs).child_le _ _ hp'.good hc').1 ih
    have : p = c := Space.le_antisymm (by rw [h]; exact hroot p hp) hcl.1
    exact hcl.2 this.symm
  · exact h

/-- **C02/C03 for the concrete model.** For every network: the nodes of the fully expanded diagram
    that have no successor are exactly the minimal trap spaces (percolation-closed, fixing the
    inputs, nothing such strictly inside). -/
theorem concrete_leaf_iff_minimal (srcs : List (Fin n))
    (hrootrel : (penv N srcs).children (penv N srcs).root = [] → FixesAll srcs (penv N srcs).root)
    (T : Space n) :
    (Partition.Node (penv N srcs) T ∧ (penv N srcs).children T = []) ↔
      Partition.IsMinTrap (penv N srcs) T :=
  Partition.leaf_iff_minimal (penv N srcs) (children_fix_srcs N srcs) hrootrel T

end Balm
