"""Generates BalmProofs/Audit/Cxx.lean (and a default BalmProofs/Props/Cxx.lean when none is hand-written)."""
import json, os
here = os.path.dirname(os.path.abspath(__file__))
obl = json.load(open(os.path.join(here, "obligations.json")))
for pid, ths in obl.items():
    pp = os.path.join(here, "BalmProofs", "Props", f"{pid}.lean")
    if not os.path.exists(pp):
        open(pp, "w").write(f"import Balm\nimport BalmProofs.AttrTest\nimport BalmProofs.Bfs\nimport BalmProofs.Drivers\n/-! Property {pid}: theorems are listed in `obligations.json`; see DESIGN.md section 6. -/\n")
    with open(os.path.join(here, "BalmProofs", "Audit", f"{pid}.lean"), "w") as f:
        f.write(f"import BalmProofs.Props.{pid}\n")
        for t in ths:
            f.write(f"#print axioms {t}\n")
print("ok")
