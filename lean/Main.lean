import Balm
def main : IO Unit := IO.println "balm"
