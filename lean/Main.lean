import Balm.Impl.Control
import Balm.Impl.Strict
import Balm.Impl.Solver
import Balm.Impl.Asp
import Balm.DepthAlgo
import Balm.Impl.CandModel
import Balm.Impl.SkipExcl
import Balm.Impl.Nfvs
import Balm.Impl.Block
import Balm.Impl.ASeeds
import Balm.Impl.SymLoop
import Balm.Impl.Scc
import Balm.TransNet
/-!
# `balmdriver` – line protocol between the Python harness and the Lean model

One command per input line, one reply line per command (batch: the harness writes all lines,
closes stdin and reads all replies).  The definitions executed here are the ones the theorems
of `Balm`/`BalmProofs` are about.
-/
open Balm Balm.Impl

partial def parseE (toks : List String) : Option (BExpr × List String) :=
  match toks with
  | [] => none
  | t :: rest =>
    let bin (mk : BExpr → BExpr → BExpr) : Option (BExpr × List String) := do
      let (a, r) ← parseE rest
      let (b, r2) ← parseE r
      pure (mk a b, r2)
    match t with
    | "T" => some (.const true, rest)
    | "F" => some (.const false, rest)
    | "!" => do let (a, r) ← parseE rest; pure (.not a, r)
    | "&" => bin .and
    | "|" => bin .or
    | "^" => bin .xor
    | "=" => bin .iff
    | ">" => bin .imp
    | "?" => do
      let (a, r) ← parseE rest
      let (b, r2) ← parseE r
      let (c, r3) ← parseE r2
      pure (.cond a b c, r3)
    | v =>
      if v.startsWith "v" then (v.drop 1).toNat?.map fun i => (.var i, rest) else none

def showSpace {n : Nat} (p : Space n) : String :=
  String.mk (p.toList.map fun c => match c with | none => '-' | some false => '0' | some true => '1')

def showState {n : Nat} (s : State n) : String :=
  String.mk (s.toList.map fun b => if b then '1' else '0')

def parseSpace (n : Nat) (s : String) : Option (Space n) :=
  let cs := s.toList
  if cs.length == n && cs.all (fun c => c == '-' || c == '0' || c == '1') then
    some (Vector.ofFn fun i : Fin n =>
      match cs[i.val]? with
      | some '0' => some false
      | some '1' => some true
      | _ => none)
  else none

def parseState (n : Nat) (s : String) : Option (State n) :=
  let cs := s.toList
  if cs.length == n && cs.all (fun c => c == '0' || c == '1') then
    some (Vector.ofFn fun i : Fin n => cs[i.val]? == some '1')
  else none

def sortStrs (l : List String) : List String := (l.toArray.qsort (· < ·)).toList

def optNat (x : String) : Option (Option Nat) :=
  if x == "-" then some none else x.toNat?.map some

structure Session where
  n : Nat
  ctx : Ctx n
  diag : Diag n
  atts : Option (List (List (State n)))
  exprs : Vector BExpr n
  ranks : List Nat := []

def showOutcome : Outcome → String
  | .ok true => "true"
  | .ok false => "false"
  | .err => "err"

def dumpDiag {n : Nat} (d : Diag n) : String :=
  let ns := (List.range d.size).map fun i =>
    s!"{i}:{showSpace (d.space i)}:{d.depth i}:{if d.isExp i then 1 else 0}:{if d.skipped.contains i then 1 else 0}"
  let ps := d.pairs.toArray.qsort (fun a b => a.1 < b.1 || (a.1 == b.1 && a.2 < b.2)) |>.toList
  let es := ps.map fun (u, v) =>
    let ms := (d.core.edges.filter fun e => e.1 == u && e.2.1 == v).map fun e => showSpace e.2.2
    s!"{u}>{v}[{String.intercalate "," ms}]"
  String.intercalate " " ns ++ " | " ++ String.intercalate " " es

def getAtts (S : Session) : Session × List (List (State S.n)) :=
  match S.atts with
  | some a => (S, a)
  | none =>
    let a := attractors S.ctx.N
    ({ S with atts := some a }, a)

def showAttr {n : Nat} (A : List (State n)) : String :=
  String.intercalate "," (sortStrs (A.map showState))

def parseSpaces (n : Nat) (l : List String) : Option (List (Space n)) := l.mapM (parseSpace n)

def parseDump (n : Nat) (toks : List String) : Option (Dump n) := do
  let nodeToks := toks.takeWhile (· ≠ "|")
  let edgeToks := (toks.dropWhile (· ≠ "|")).drop 1
  let nodes ← nodeToks.mapM fun t =>
    match t.splitOn ":" with
    | [_, sp, dp, ex, sk] => do
      let p ← parseSpace n sp
      let d ← dp.toNat?
      pure ({ space := p, depth := d, expanded := ex == "1", skipped := sk == "1" } : DNode n)
    | _ => none
  let edges ← edgeToks.mapM fun t =>
    match t.splitOn ">" with
    | [u, rest] =>
      match rest.splitOn "[" with
      | [v, ms] => do
        let u ← u.toNat?
        let v ← v.toNat?
        let ms ← ((ms.dropRight 1).splitOn ",").mapM (parseSpace n)
        pure (u, v, ms)
      | _ => none
    | _ => none
  pure { nodes := nodes, edges := edges }

def verdict (o : Option String) : String := match o with | none => "OK" | some r => "FAIL " ++ r

def parseFins (n : Nat) (s : String) : List (Fin n) :=
  if s == "-" then [] else (s.splitOn ",").filterMap fun x => x.toNat?.bind fun k => if h : k < n then some ⟨k, h⟩ else none

/-- `CAND node greedy threshold limit nfvs retained0 keys0 ; avoid… ; ret/limit/states …` -/
def handleCand (S : Session) (toks : List String) : String :=
  let n := S.n
  let N := S.ctx.N
  let head := toks.takeWhile (· ≠ ";")
  let rest1 := (toks.dropWhile (· ≠ ";")).drop 1
  let avoidT := rest1.takeWhile (· ≠ ";")
  let transT := (rest1.dropWhile (· ≠ ";")).drop 1
  match head with
  | [nodeS, greedyS, thrS, limS, nfvsS, ret0S, keys0S] =>
    match parseSpace n nodeS, thrS.toNat?, limS.toNat?, parseSpace n ret0S, parseSpaces n avoidT with
    | some node, some thr, some lim, some ret0, some avoid =>
      let nfvs := parseFins n nfvsS
      let keys0 := parseFins n keys0S
      let entries := transT.filterMap fun t => match t.splitOn "/" with
        | [r, l, sts] => (do
            let r ← parseSpace n r
            let l ← l.toNat?
            let ss ← (if sts == "" then some [] else (sts.splitOn ",").mapM (parseState n))
            pure (r, l, ss))
        | _ => none
      if entries.length != transT.length then "bad" else
      -- validate the transcript against the specification of the solver
      let badEntry := entries.find? fun (r, l, ss) =>
        let full := reducedFixedPoints N r node avoid
        !(ss.all full.contains) || ss.eraseDups.length != ss.length || ss.length != min (max 1 l) full.length
      match badEntry with
      | some (r, l, _) => s!"ORACLE-BAD {showSpace r}/{l}"
      | none =>
        let heur := heuristicRetained N node nfvs avoid
        if !nfvs.isEmpty && heur != ret0 then s!"HEUR-DIFF {showSpace heur}" else
        let solve (r : Space n) (l : Nat) : List (State n) :=
          match entries.find? fun e => e.1 == r && e.2.1 == l with
          | some e => e.2.2
          | none => []
        let (out, calls) := candidatesModel solve { threshold := thr, limit := lim } node avoid.isEmpty nfvs ret0 keys0 (greedyS == "1")
        let cs := String.intercalate " " (calls.map fun c => s!"{showSpace c.1}/{c.2}")
        match out with
        | .err => "err | " ++ cs
        | .ok l => "ok " ++ String.intercalate "," (l.map showState) ++ " | " ++ cs
    | _, _, _, _, _ => "bad"
  | _ => "bad"

def handle (S : Session) (toks : List String) : Session × String :=
  let n := S.n
  let N := S.ctx.N
  let bad := (S, "bad")
  match toks with
  | ["PERC", sp] => match parseSpace n sp with
    | some p => (S, showSpace (perc N p))
    | none => bad
  | ["ISTRAP", sp] => match parseSpace n sp with
    | some p => (S, if isTrapB N p then "1" else "0")
    | none => bad
  | ["TRAPS"] => (S, String.intercalate " " (sortStrs ((trapSpaces N).map showSpace)))
  | ["INPUTS"] => (S, String.intercalate " " ((inputs N).map fun i => toString i.val))
  | ["MAX", sp, r] => match parseSpace n sp with
    | some p => (S, String.intercalate " " ((sortedMax N p (if r == "1" then S.ctx.srcs else [])).map showSpace))
    | none => bad
  | ["MIN", sp] => match parseSpace n sp with
    | some p => (S, String.intercalate " " (sortStrs ((minTrapsIn N p).map showSpace)))
    | none => bad
  | ["ATTRS"] =>
    let (S', a) := getAtts S
    (S', String.intercalate " | " (a.map showAttr))
  | ["REACH", st] => match parseState n st with
    | some s => (S, showAttr (reachSet N s))
    | none => bad
  | "OWNX" :: sp :: succs => match parseSpace n sp, parseSpaces n succs with
    | some p, some qs =>
      let (S', a) := getAtts S
      let own := ownAttrs a p qs
      (S', String.intercalate " " ((List.range a.length).filter (fun k => own.contains (a[k]?.getD [])) |>.map toString))
    | _, _ => bad
  | "CHECK" :: rest => match parseDump n rest with
    | some d => (S, verdict (judgeStrict S.ctx d))
    | none => bad
  | "WEAK" :: rest => match parseDump n rest with
    | some d => (S, verdict (judgeWeak S.ctx d))
    | none => bad
  | "CHECKND" :: rest => match parseDump n rest with
    | some d => (S, verdict (judgeStrict S.ctx d false))
    | none => bad
  | "LEAVES" :: rest => match parseDump n rest with
    | some d => (S, verdict (judgeLeaves S.ctx d))
    | none => bad
  | "COMPLETE" :: rest => match parseDump n rest with
    | some d => (S, verdict (judgeComplete d))
    | none => bad
  | "TRUECOMPLETE" :: st :: rest => match st.toNat?, parseDump n rest with
    | some st, some d => (S, verdict (judgeTrueComplete d st))
    | _, _ => bad
  | "FALSESTUB" :: st :: rest => match st.toNat?, parseDump n rest with
    | some st, some d => (S, verdict (judgeFalseHasStub d st))
    | _, _ => bad
  | "FIND" :: sp :: rest => match parseSpace n sp, parseDump n rest with
    | some p, some d => (S, match d.find p with | some i => toString i | none => "none")
    | _, _ => bad
  | "SUBGRAPH" :: rest =>
    let a := rest.takeWhile (· ≠ "||")
    let b := (rest.dropWhile (· ≠ "||")).drop 1
    match parseDump n a, parseDump n b with
    | some a, some b => (S, s!"{isSubgraph a b} {subgraphSpec a b}")
    | _, _ => bad
  | "DEPTHS" :: k :: es => match k.toNat?, es.mapM (fun (t : String) => match t.splitOn ">" with
        | [u, v] => (do let u ← u.toNat?; let v ← v.toNat?; pure (u, v) : Option (Nat × Nat))
        | _ => none) with
    | some k, some es =>
      (S, String.intercalate " " ((List.range k).map fun i => toString (longestTo es.eraseDups k i)))
    | _, _ => bad
  | ["DRIVERS", asm, tgt, internal, bound, forb] =>
    match parseSpace n asm, parseSpace n tgt, optNat bound with
    | some a, some t, some b =>
      let fl : List (Fin n) := if forb == "-" then [] else
        (forb.splitOn ",").filterMap fun x => x.toNat?.bind fun k => if h : k < n then some ⟨k, h⟩ else none
      let r := findDrivers N a t (internal == "1") b fl
      (S, String.intercalate " " (sortStrs (r.map showSpace)))
    | _, _, _ => bad
  | ["FORCES", prev, drv, motif] =>
    match parseSpace n prev, parseSpace n drv, parseSpace n motif with
    | some p, some d, some m => (S, verdict (judgeForces N p d m))
    | _, _, _ => bad
  | "SUCCS" :: tgt :: rest => match parseSpace n tgt, parseDump n rest with
    | some t, some d =>
      let r := successionsOf d t
      (S, if r == [[]] then "EMPTY" else
        String.intercalate " ; " (sortStrs (r.map fun su => String.intercalate "," (su.map showSpace))))
    | _, _ => bad
  | "STRICT" :: sp :: order => match parseSpace n sp with
    | some p =>
      let ord : List (Fin n) := order.filterMap fun x => x.toNat?.bind fun k => if h : k < n then some ⟨k, h⟩ else none
      (S, showSpace (percStrict N p (if ord.isEmpty then List.finRange n else ord)))
    | none => bad
  | ["CONFLICTS", sp] => match parseSpace n sp with
    | some p => (S, String.intercalate " " ((conflictsOf N p).map fun i => toString i.val))
    | none => bad
  | ["CONSTFN"] => (S, String.intercalate " " (((List.finRange n).filter (isConstFn N)).map fun i => toString i.val))
  | ["TT"] => (S, String.intercalate " " ((List.finRange n).map fun i =>
      String.mk ((allStates n).map fun s => if N.f i s then '1' else '0')))
  | ["DEPS", sp] => match parseSpace n sp with
    | some p =>
      let es := (List.finRange n).flatMap fun u => (List.finRange n).flatMap fun v =>
        (if depB N p u v false then [s!"{u.val}>{v.val}:+"] else []) ++ (if depB N p u v true then [s!"{u.val}>{v.val}:-"] else [])
      (S, String.intercalate " " es)
    | none => bad
  | ["NFVSCERT", sp, nf, ranks, cols] => match parseSpace n sp with
    | some p =>
      let rs := (ranks.splitOn ",").filterMap (·.toNat?)
      if rs.length != n || cols.length != n then bad else
      let c : NCert n := { rank := fun i => rs.getD i.val 0, col := fun i => cols.toList.getD i.val '0' == '1' }
      let nfvs := parseFins n nf
      (S, if checkNfvs N p nfvs c then "OK" else
        match badEdge N p nfvs c with
        | some (u, v) => s!"FAIL {u.val} {v.val}"
        | none => "FAIL")
    | none => bad
  | ["FLIPTT", mask] =>
    -- truth tables of the syntactically re-encoded network `flipExprs` (C17, `ofExprs_flipExprs`)
    if mask.length != n then bad else
    let m : Vector Bool n := Vector.ofFn fun i => mask.toList.getD i.val '0' == '1'
    let N' := Net.ofExprs (flipExprs S.exprs m)
    (S, String.intercalate " " ((List.finRange n).map fun i =>
      String.mk ((allStates n).map fun s => if N'.f i s then '1' else '0')))
  | ["STATES"] => (S, String.intercalate " " ((allStates n).map showState))
  | "SOLVE" :: pr :: rev :: ens :: srcs :: avoid =>
    match parseSpace n ens, parseSpaces n avoid with
    | some e, some av =>
      let sl : List (Fin n) := if srcs == "-" then [] else
        (srcs.splitOn ",").filterMap fun x => x.toNat?.bind fun k => if h : k < n then some ⟨k, h⟩ else none
      let prb := if pr == "min" then Problem.min else if pr == "max" then Problem.max else Problem.fix
      (S, String.intercalate " " (sortStrs ((solveRef N (rev == "1") prb e av sl).map showSpace)))
    | _, _ => bad
  | "REDFP" :: ret :: ens :: avoid =>
    match parseSpace n ret, parseSpace n ens, parseSpaces n avoid with
    | some r, some e, some av => (S, String.intercalate " " (sortStrs ((reducedFixedPoints N r e av).map showState)))
    | _, _, _ => bad
  | "PNCHECK" :: ens :: ts =>
    match parseSpace n ens, ts.mapM (fun (t : String) => match t.splitOn ":" with
        | [v, d, c] => (do
            let v ← v.toNat?
            let c ← parseSpace n c
            if h : v < n then pure ({ v := ⟨v, h⟩, up := d == "up", c := c } : Trans n) else none)
        | _ => none) with
    | some e, some tl => (S, verdict (faithfulOnB N e tl))
    | _, _ => bad
  | "ASP" :: pr :: ens :: srcs :: rest =>
    let avoidT := rest.takeWhile (· ≠ "||")
    let transT := (rest.dropWhile (· ≠ "||")).drop 1
    match parseSpace n ens, parseSpaces n avoidT, transT.mapM (fun (t : String) => match t.splitOn ":" with
        | [v, d, c] => (do
            let v ← v.toNat?
            let c ← parseSpace n c
            if h : v < n then pure ({ v := ⟨v, h⟩, up := d == "up", c := c } : Trans n) else none)
        | _ => none) with
    | some e, some av, some tl =>
      let sl : List (Fin n) := if srcs == "-" then [] else
        (srcs.splitOn ",").filterMap fun x => x.toNat?.bind fun k => if h : k < n then some ⟨k, h⟩ else none
      let prb := if pr == "min" then Problem.min else if pr == "max" then Problem.max else Problem.fix
      (S, String.intercalate " | " (renderProgram (trapProgram tl prb e av sl)))
    | _, _, _ => bad
  | "FPASP" :: ret :: ens :: rest =>
    let avoidT := rest.takeWhile (· ≠ "||")
    let transT := (rest.dropWhile (· ≠ "||")).drop 1
    match parseSpace n ret, parseSpace n ens, parseSpaces n avoidT, transT.mapM (fun (t : String) => match t.splitOn ":" with
        | [v, d, c] => (do
            let v ← v.toNat?
            let c ← parseSpace n c
            if h : v < n then pure ({ v := ⟨v, h⟩, up := d == "up", c := c } : Trans n) else none)
        | _ => none) with
    | some r, some e, some av, some tl =>
      (S, String.intercalate " | " (renderProgram (fpProgram (reducePN tl r) e av)))
    | _, _, _, _ => bad
  | "PNCHECKV" :: v :: ts =>
    match v.toNat?, ts.mapM (fun (t : String) => match t.splitOn ":" with
        | [v, d, c] => (do
            let v ← v.toNat?
            let c ← parseSpace n c
            if h : v < n then pure ({ v := ⟨v, h⟩, up := d == "up", c := c } : Trans n) else none)
        | _ => none) with
    | some v, some tl => if h : v < n then (S, verdict (faithfulVarB N tl ⟨v, h⟩)) else bad
    | _, _ => bad
  | "RELAXSEQ" :: k :: es => match k.toNat?, es.mapM (fun (t : String) => match t.splitOn ">" with
        | [u, v] => (do let u ← u.toNat?; let v ← v.toNat?; pure (u, v) : Option (Nat × Nat))
        | _ => none) with
    | some k, some es =>
      -- the model of `_ensure_edge`/`_update_node_depth`: one `updateDepth` per inserted edge
      let run := es.foldl (fun (acc : List (Nat × Nat) × (Nat → Nat) × List String) e =>
          let E := if acc.1.contains e then acc.1 else e :: acc.1
          let r := Balm.Depth.updateDepth E acc.2.1 e.1 e.2
          (E, r.1, acc.2.2 ++ [String.intercalate "," ((List.range k).map fun i => toString (r.1 i)) ++ (if r.2 then ":done" else ":fuel")]))
        ([], (fun _ => 0), [])
      (S, String.intercalate " | " run.2.2)
    | _, _ => bad
  | "CAND" :: rest => (S, handleCand S rest)
  | "SKIPEXCL" :: sp :: ids :: rest => match parseSpace n sp, parseDump n rest with
    | some p, some d =>
      let e := if ids == "-" then [] else (ids.splitOn ",").filterMap (·.toNat?)
      (S, String.intercalate " " (sortStrs ((skipExclusions d e p).map showSpace).eraseDups))
    | _, _ => bad
  | "ADOPT" :: rest => match parseDump n rest with
    | some d => ({ S with diag := d.toDiag }, "OK")
    | none => bad
  | ["CFG", lim] => match lim.toNat? with
    | some L => ({ S with ctx := { S.ctx with motifLimit := L } }, "OK")
    | none => bad
  | ["SDINIT"] =>
    let d := initDiag S.ctx
    ({ S with diag := d }, dumpDiag d)
  | ["DUMP"] => (S, dumpDiag S.diag)
  | ["EXPAND", i] => match i.toNat? with
    | some i =>
      let (d, okk) := expandNode S.ctx S.diag i
      ({ S with diag := d }, (if okk then "none " else "err ") ++ dumpDiag d)
    | none => bad
  | ["BFS", st, lv, sz] => match st.toNat?, optNat lv, optNat sz with
    | some st, some lv, some sz =>
      let (d, o) := expandBfs S.ctx S.diag st lv sz
      ({ S with diag := d }, showOutcome o ++ " " ++ dumpDiag d)
    | _, _, _ => bad
  | ["BLOCK", sz] => match optNat sz with
    | some sz =>
      let (d, o) := expandBlock S.ctx S.diag sz
      ({ S with diag := d }, showOutcome o ++ " " ++ dumpDiag d)
    | none => bad
  | "RANKS" :: rs => match rs.mapM (fun (t : String) => t.toNat?) with
    | some l => ({ S with ranks := l }, "OK")
    | none => bad
  | ["SCC"] =>
    let rank : Fin n → Nat := fun i => S.ranks[i.val]?.getD i.val
    let (d, o) := expandScc rank (n + 2) S.ctx S.diag
    ({ S with diag := d }, showOutcome o ++ " " ++ dumpDiag d)
  | "FALLBACK" :: sp :: succs => match parseSpace n sp, parseSpaces n succs with
    | some p, some qs => (S, String.intercalate " / " (sortStrs ((fallbackAttrs N p qs).map showAttr)))
    | _, _ => bad
  | "SYMSEEDS" :: mode :: sp :: rest =>
    -- mode: "loop0" / "loop1" = compute_attractors_symbolic(seeds_only = 0/1), "node" = seed logic of node_attractor_seeds
    let motT := rest.takeWhile (· ≠ ";")
    let candT := (rest.dropWhile (· ≠ ";")).drop 1
    match parseSpace n sp, parseSpaces n motT, candT.mapM (parseState n) with
    | some p, some ms, some cs =>
      let out := if mode == "node" then nodeSeeds N p ms cs else symbolicSeeds N p ms cs (mode == "loop1")
      let sets := match out.sets with
        | none => "none"
        | some l => String.intercalate " / " (l.map showAttr)
      (S, String.intercalate "," (out.seeds.map showState) ++ " | " ++ sets ++ " | hyp=" ++ (if symHypB N p ms cs then "1" else "0"))
    | _, _, _ => bad
  | "ASEEDS" :: sz :: rest =>
    let minsT := rest.takeWhile (· ≠ ";")
    let bits := (rest.dropWhile (· ≠ ";")).drop 1
    match optNat sz, parseSpaces n minsT with
    | some sz, some ms =>
      let (d, o, left) := expandASeeds S.ctx S.diag sz ms (bits.map (· == "1"))
      ({ S with diag := d }, showOutcome o ++ " " ++ dumpDiag d ++ (if left.isEmpty then "" else " LEFTOVER"))
    | _, _ => bad
  | "BLOCKX" :: maa :: opt :: sz :: clean => match optNat sz with
    | some sz =>
      let (d, o, left) := expandBlockX S.ctx S.diag { checkMaa := maa == "1", optSrc := opt == "1", szLimit := sz } (clean.map (· == "1"))
      ({ S with diag := d }, showOutcome o ++ " " ++ dumpDiag d ++ (if left.isEmpty then "" else " LEFTOVER"))
    | none => bad
  | ["DFS", st, lv, sz] => match st.toNat?, optNat lv, optNat sz with
    | some st, some lv, some sz =>
      let (d, o) := expandDfs S.ctx S.diag st lv sz
      ({ S with diag := d }, showOutcome o ++ " " ++ dumpDiag d)
    | _, _, _ => bad
  | ["TARGET", sp, sz] => match parseSpace n sp, optNat sz with
    | some t, some sz =>
      let (d, o) := expandToTarget S.ctx S.diag t sz
      ({ S with diag := d }, showOutcome o ++ " " ++ dumpDiag d)
    | _, _ => bad
  | "MINSP" :: st :: sz :: skip :: mins => match st.toNat?, optNat sz, parseSpaces n mins with
    | some st, some sz, some ms =>
      let (d, o) := expandMinimalWith S.ctx S.diag st sz (skip == "1") ms
      ({ S with diag := d }, showOutcome o ++ " " ++ dumpDiag d)
    | _, _, _ => bad
  | "SKIPMIN" :: i :: mins => match i.toNat?, parseSpaces n mins with
    | some i, some ms =>
      let (d, r) := skipToMinimalWith S.ctx S.diag i ms
      ({ S with diag := d }, (if r then "true " else "false ") ++ dumpDiag d)
    | _, _ => bad
  | "SKIPREM" :: mins => match parseSpaces n mins with
    | some ms =>
      let (d, k) := skipRemainingWith S.ctx S.diag ms
      ({ S with diag := d }, toString k ++ " " ++ dumpDiag d)
    | none => bad
  | _ => bad

def mkSession (n : Nat) (fns : List BExpr) : Option Session :=
  if h : fns.length = n then
    let es : Vector BExpr n := ⟨fns.toArray, by simpa using h⟩
    let N := Net.ofExprs es
    let ctx := Ctx.mk' N 100000
    some { n := n, ctx := ctx, diag := initDiag ctx, atts := none, exprs := es }
  else none

def emptySession : Session :=
  let N : Net 0 := Net.ofExprs #v[]
  let ctx := Ctx.mk' N 100000
  { n := 0, ctx := ctx, diag := initDiag ctx, atts := none, exprs := #v[] }

partial def loop (h : IO.FS.Stream) (out : IO.FS.Stream) (S : Session) : IO Unit := do
  let line ← h.getLine
  if line.isEmpty then return ()
  let toks := (line.trim.splitOn " ").filter (· ≠ "")
  match toks with
  | [] => out.putStrLn "bad"; loop h out S
  | "NET" :: nstr :: rest =>
    match nstr.toNat? with
    | none => out.putStrLn "bad"; loop h out S
    | some n =>
      let groups := (String.intercalate " " rest).splitOn ";"
      let fns := groups.mapM fun g =>
        match parseE ((g.trim.splitOn " ").filter (· ≠ "")) with
        | some (e, []) => some e
        | _ => none
      match fns.bind (mkSession n) with
      | some S' => out.putStrLn "OK"; loop h out S'
      | none => out.putStrLn "bad"; loop h out S
  | _ =>
    let (S', reply) := handle S toks
    out.putStrLn reply
    loop h out S'

def main : IO Unit := do
  let out ← IO.getStdout
  loop (← IO.getStdin) out emptySession
  out.flush
