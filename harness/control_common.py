"""Shared pieces of the control checks (C06, C07)."""
from __future__ import annotations

import common
import plain
from plain import gen_ops, make_sd


def gen_control_case(rng, tier, fresh):
    nmax = 5 if tier == "quick" else 6
    r = rng.random()
    if r < 0.2:
        # an input selects between regimes in which the same motif needs different drivers
        k = rng.randint(2, 3)
        vs = [f"v{i}" for i in range(k)]
        lines = ["s, s"]
        for v in vs:
            others = [x for x in vs if x != v]
            g = common.rand_mono(rng, others, 1)
            lines.append(f"{v}, ({rng.choice(['s', '!s'])} | {v}) & {g}" if rng.random() < 0.6 else f"{v}, ({rng.choice(['s', '!s'])} & {g}) | ({v} & {g})")
        bnet = "\n".join(lines)
    elif r < 0.28:
        # non-monotone influence: a variable forces a latch under *both* of its values (directly under one, through a
        # follower under the other), so one variable set has several working valuations
        f = rng.choice(["w", "!w", "x"])
        a, b = rng.sample(["x", "!x", "y", "!y", "w", "!w"], 2)
        if rng.random() < 0.7:
            # complementary triggers: `a` fires under one value of x, `b` under the other (through w, possibly through y)
            a = rng.choice(["x", "!x"])
            f = rng.choice(["w", "!w"])
            hi = a == "!x"                       # b has to be true when x = w = 1 (hi) resp. x = w = 0
            b = rng.choice(["w" if hi else "!w", ("y" if f == "w" else "!y") if hi else ("!y" if f == "w" else "y")])
        lines = ["x, w", "w, x" if rng.random() < 0.7 else "w, x | w", f"y, {f}",
                 f"m, m | {a} | {b}" if rng.random() < 0.6 else f"m, (m & z) | {a} | {b}", "z, z | m"]
        bnet = "\n".join(lines[:rng.randint(4, 5)])
        if "z" in bnet and not any(l.startswith("z,") for l in bnet.split("\n")):
            bnet += "\nz, z | m"
    elif r < 0.45:
        bnet = common.g_lattice(rng, rng.randint(3, nmax))
    else:
        bnet = common.g_mixed(rng, nmax=nmax, p_core=0.2)
    prefix = [] if fresh else gen_ops(rng, rng.randint(0, 4), allow_skip=True, allow_unmodelled=True)
    if not fresh and rng.random() < 0.2:
        # an early-stopped diagram completed with skip nodes: the successions run through skip edges
        prefix = [rng.choice([["bfs", 0, rng.choice([0, 1]), None], ["one", 0], ["dfs", 0, 1, None], ["bfs", 0, None, rng.randint(2, 5)],
                              ["min", 0, rng.randint(1, 4), False]]),
                  ["skiprem"] if rng.random() < 0.7 else ["skipmin", rng.randrange(64)]]
    nonmono = bnet.startswith("x, w") and "\nm, " in bnet
    case = {"bnet": bnet, "ops": prefix, "max_motifs": rng.choice([100000] * 5 + [2, 3]),
            "target": [[rng.randrange(64), rng.randint(0, 1)] for _ in range(rng.randint(1, 3))],
            "target_mode": rng.choice(["trap", "trap", "space"]), "target_pick": rng.randrange(1 << 20),
            "strategy": rng.choice(["internal", "all"]), "bound": rng.choice([None, None, 0, 1, 2, 3]),
            "forbidden": [rng.randrange(64) for _ in range(rng.choice([0, 0, 1, 2]))],
            "skip_ff": rng.random() < 0.25, "successful_only": rng.random() < 0.5,
            "pre_query": rng.random() < 0.3}
    if nonmono and rng.random() < 0.8:
        # a trap space of the network as target (with m = 1 the uncontrolled network gets there anyway: a strict target makes
        # {m: 1} one step of a longer succession), any variable may be overridden
        case.update(target_mode="trap", strategy="all", bound=rng.choice([None, None, 1, 2]), max_motifs=100000)
    return case


def pre_query(case, sd, ni, target):
    """an earlier control query on the same diagram, for the same variables with the opposite values"""
    from biobalm.control import succession_control

    if not case.get("pre_query"):
        return
    flipped = {k: 1 - v for k, v in target.items()}
    try:
        succession_control(sd, flipped, strategy=case["strategy"])
    except RuntimeError:
        pass


def pick_target(case, ni, traps):
    """a non-empty target: a trap space of the network or an arbitrary subspace"""
    if case["target_mode"] == "trap":
        cands = [t for t in traps if set(t) != {"-"}]
        if cands:
            return ni.unsp(cands[case["target_pick"] % len(cands)])
    return plain.resolve_target(case["target"], ni)


def union(ni, a: str, b: str) -> str:
    return "".join(y if y != "-" else x for x, y in zip(a, b))


def canon(ctrl):
    return sorted(tuple(sorted(d.items())) for d in ctrl)
