#!/bin/bash
# detect_all.sh <glob under seeded/> : own-property quick check of every matching seeded change, in scratch worktrees
cd "$(dirname "$0")/.."
for d in seeded/$1; do
  [ -f "$d/meta.json" ] || continue
  p=$(jq -r .property "$d/meta.json")
  VERIF_NOSHRINK=1 python3 harness/seedtest.py detect-scratch "$d" "$p" 2>&1 | tail -1
done
