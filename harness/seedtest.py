"""Validation of seeded changes and detection runs.

  seedtest.py validate <seeded-dir>          # in a scratch worktree: demo passes clean, fails patched; suite unchanged
  seedtest.py detect <seeded-dir> [pid ...]  # apply to /repo, run bin/check for the property (and others), revert
"""
from __future__ import annotations

import json
import os
import re
import subprocess
import sys
import time

VERIF = os.path.dirname(os.path.dirname(os.path.abspath(__file__)))
REPO = "/repo"


def sh(cmd, cwd=None, env=None, timeout=1800):
    p = subprocess.run(cmd, shell=True, cwd=cwd, env=env, capture_output=True, text=True, timeout=timeout, encoding="utf-8", errors="replace")
    return p.returncode, p.stdout + p.stderr


def validate(d, run_suite=True):
    d = os.path.abspath(d)
    wt = f"/tmp/wt/val-{os.path.basename(d)}"
    sh(f"git -C {REPO} worktree remove --force {wt}")
    rc, out = sh(f"git -C {REPO} worktree add -q --detach {wt} HEAD")
    assert rc == 0, out
    res = {}
    try:
        env = dict(os.environ, PYTHONPATH=wt, PYTHONDONTWRITEBYTECODE="1")
        rc, out = sh(f"/venv/bin/python {d}/demo.py", cwd=wt, env=env, timeout=300)
        res["demo_clean_rc"] = rc
        res["demo_clean_tail"] = out.strip()[-300:]
        rc, out = sh(f"git apply --3way {d}/patch.diff || git apply {d}/patch.diff", cwd=wt)
        res["apply_rc"] = rc
        if rc != 0:
            res["apply_out"] = out[-400:]
            return res
        rc, out = sh(f"/venv/bin/python {d}/demo.py", cwd=wt, env=env, timeout=300)
        res["demo_patched_rc"] = rc
        res["demo_patched_tail"] = out.strip()[-400:]
        if run_suite:
            rc, out = sh("/venv/bin/python -m pytest -q -p no:cacheprovider --timeout=900 -x --deselect tests/clingo_test.py::test_clingo 2>&1 | tail -3", cwd=wt, env=env)
            m = re.search(r"(\d+) passed", out)
            res["suite_passed"] = int(m.group(1)) if m else None
            res["suite_failed"] = "failed" in out
    finally:
        sh(f"git -C {REPO} worktree remove --force {wt}")
    res["valid"] = (res.get("demo_clean_rc") == 0 and res.get("demo_patched_rc", 0) != 0
                    and (not run_suite or (res.get("suite_passed") == 130 and not res.get("suite_failed"))))
    return res


def detect(d, pids, tier="quick", seed="0"):
    d = os.path.abspath(d)
    rc, out = sh(f"git -C {REPO} status --porcelain")
    assert out.strip() == "", "repo not clean: " + out
    rc, out = sh(f"git -C {REPO} apply --3way {d}/patch.diff || git -C {REPO} apply {d}/patch.diff")
    results = {}
    try:
        assert rc == 0, out
        sh(f"git -C {REPO} reset -q")
        for pid in pids:
            t0 = time.time()
            env = dict(os.environ, VERIF_SEED=seed)
            rc, out = sh(f"{VERIF}/bin/check {pid} --tier {tier}", cwd=VERIF, env=env, timeout=3600)
            vio = [l for l in out.split("\n") if l.startswith("VIOLATION")]
            fl = [l for l in out.split("\n") if l.startswith(("FAIL", "DIFF", "BROKEN"))]
            results[pid] = {"rc": rc, "violation": vio[:1], "why": [x[:300] for x in fl[:2]], "wall": round(time.time() - t0, 1)}
    finally:
        sh(f"git -C {REPO} reset -q; git -C {REPO} checkout -- .; git -C {REPO} clean -fdq biobalm")
    return results


def detect_scratch(d, pids, tier="quick", seed="0"):
    """like detect, but on a scratch worktree (BALM_REPO) so that /repo stays untouched"""
    d = os.path.abspath(d)
    name = os.path.basename(d)
    wt = f"/tmp/wt/det-{name}"
    out = f"/tmp/wt/out-{name}"
    sh(f"git -C {REPO} worktree remove --force {wt}; rm -rf {out}")
    rc, o = sh(f"git -C {REPO} worktree add -q --detach {wt} HEAD")
    assert rc == 0, o
    results = {}
    try:
        rc, o = sh(f"git apply {d}/patch.diff", cwd=wt)
        assert rc == 0, o
        for pid in pids:
            t0 = time.time()
            env = dict(os.environ, VERIF_SEED=seed, BALM_REPO=wt, VERIF_OUT=out)
            rc, o = sh(f"{VERIF}/bin/check {pid} --tier {tier}", cwd=VERIF, env=env, timeout=3600)
            vio = [l for l in o.split("\n") if l.startswith("VIOLATION")]
            fl = [l for l in o.split("\n") if l.startswith(("FAIL", "DIFF", "BROKEN"))]
            results[pid] = {"rc": rc, "violation": vio[:1], "why": [x[:300] for x in fl[:2]], "wall": round(time.time() - t0, 1)}
    finally:
        sh(f"git -C {REPO} worktree remove --force {wt}; rm -rf {out}")
    return results


if __name__ == "__main__":
    cmd = sys.argv[1]
    if cmd == "validate":
        print(json.dumps(validate(sys.argv[2], run_suite="--nosuite" not in sys.argv), indent=1))
    elif cmd == "detect-scratch":
        d = sys.argv[2]
        pids = [a for a in sys.argv[3:] if not a.startswith("--")]
        seed = os.environ.get("DETECT_SEED", "0")
        r = detect_scratch(d, pids, seed=seed)
        json.dump(r, open(os.path.join(d, "detect.json" if seed == "0" else f"detect-seed{seed}.json"), "w"), indent=1)
        print(os.path.basename(os.path.abspath(d)), {p: (v["rc"], (v["violation"] or [""])[0][-60:]) for p, v in r.items()})
    elif cmd == "detect":
        d = sys.argv[2]
        pids = [a for a in sys.argv[3:] if not a.startswith("--")] or [json.load(open(os.path.join(d, "meta.json")))["property"]]
        print(json.dumps(detect(d, pids), indent=1))
