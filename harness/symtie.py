"""Literal tie of the candidate loop of `compute_attractors_symbolic` (and of the seed logic of
`node_attractor_seeds` around it) with the Lean model `Impl.symbolicSeeds` / `Impl.nodeSeeds`.

Every call the real code makes while a case runs is recorded with the inputs *as the real code sees
them* (node space, stable motifs on the outgoing edges of an expanded node, candidate states in order,
`seeds_only`) and its result (seeds in order, attractor sets); the model is run on the same inputs and
must return the same seeds in the same order and the same sets.  The model's result is exact by
`symbolicSeeds_spec` / `nodeSeeds_spec` whenever the candidates cover the node's own attractors.
"""
from __future__ import annotations

import common

_records: list = []
_installed = False
_active = [False]
_depth = [0]
MAX_VARS = 8
MAX_RECORDS = 10
STREAM = "SYMLOOP candidate loop of compute_attractors_symbolic / node_attractor_seeds vs Lean Impl.symbolicSeeds"


def _motifs(sd, node_id):
    d = sd.node_data(node_id)
    if not d["expanded"]:
        return []
    return [dict(sd.dag.edges[node_id, s]["motif"]) for s in sd.node_successors(node_id, compute=False)]


def _states_of(sd, names, vs):
    out = []
    for vv in vs.items():
        d = {sd.network.get_variable_name(k): int(v) for k, v in vv.to_dict().items()}
        out.append("".join(str(d[nm]) for nm in names))
    return sorted(out)


def install():
    global _installed
    if _installed:
        return
    import biobalm.succession_diagram as sdm

    orig_sym = sdm.compute_attractors_symbolic
    orig_fb = sdm.symbolic_attractor_fallback
    orig_seeds = sdm.SuccessionDiagram.node_attractor_seeds

    def sym(sd, node_id, candidate_states, seeds_only=False):
        if not _active[0] or len(_records) >= MAX_RECORDS or sd.network.variable_count() > MAX_VARS:
            return orig_sym(sd, node_id, candidate_states=candidate_states, seeds_only=seeds_only)
        space = dict(sd.node_data(node_id)["space"])
        motifs = _motifs(sd, node_id)
        cands = [dict(c) for c in candidate_states]
        r = orig_sym(sd, node_id, candidate_states=candidate_states, seeds_only=seeds_only)
        names = sd.network.variable_names()
        _records.append({"mode": "loop1" if seeds_only else "loop0", "bn": sd.network, "space": space, "motifs": motifs,
                         "cands": cands, "seeds": [dict(s) for s in r[0]],
                         "sets": None if r[1] is None else [_states_of(sd, names, v) for v in r[1]], "node": node_id,
                         "skipped": bool(sd.node_data(node_id)["skipped"])})
        return r

    def fb(sd, node_id):
        _fallback_used[0] = True
        return orig_fb(sd, node_id)

    def seeds(self, node_id, compute=False, symbolic_fallback=False):
        if not _active[0] or _depth[0] > 0 or self.network.variable_count() > MAX_VARS:
            return orig_seeds(self, node_id, compute=compute, symbolic_fallback=symbolic_fallback)
        fresh = self.node_data(node_id)["attractor_seeds"] is None and compute
        _fallback_used[0] = False
        _depth[0] += 1
        try:
            r = orig_seeds(self, node_id, compute=compute, symbolic_fallback=symbolic_fallback)
        finally:
            _depth[0] -= 1
        if fresh and not _fallback_used[0] and len(_records) < 2 * MAX_RECORDS:
            d = self.node_data(node_id)
            cands = d["attractor_candidates"]
            if cands is not None:
                _records.append({"mode": "node", "bn": self.network, "space": dict(d["space"]), "motifs": _motifs(self, node_id),
                                 "cands": [dict(c) for c in cands], "seeds": [dict(s) for s in r], "sets": "skip", "node": node_id,
                                 "skipped": bool(d["skipped"])})
        return r

    sdm.compute_attractors_symbolic = sym
    sdm.symbolic_attractor_fallback = fb
    sdm.SuccessionDiagram.node_attractor_seeds = seeds
    _installed = True


_fallback_used = [False]


def begin():
    install()
    del _records[:]
    _active[0] = True


def finish():
    """-> (diffs, tags, nontrivial, fails): run the model on the recorded calls"""
    _active[0] = False
    recs = list(_records)
    del _records[:]
    diffs, tags, fails = [], set(), []
    nontrivial = False
    by_net = {}
    for r in recs:
        ni = common.NetInfo(r["bn"])
        by_net.setdefault((ni.net_line, tuple(ni.names)), (ni, []))[1].append(r)
    for (net_line, _names), (ni, rs) in by_net.items():
        lines, keep = [net_line], []
        for r in rs:
            full = [c for c in r["cands"] if set(c.keys()) == set(ni.names)]
            if len(full) != len(r["cands"]):
                diffs.append({"stream": STREAM, "at": f"node {r['node']}", "impl": "a candidate handed to the loop is not a full state", "model": "-"})
                continue
            lines.append(f"SYMSEEDS {r['mode']} {ni.sp(r['space'])} " + " ".join(ni.sp(m) for m in r["motifs"]) + " ; "
                         + " ".join(ni.st(c) for c in full))
            keep.append(r)
        if len(lines) == 1:
            continue
        rep = common.run_driver(lines)
        if rep[0] != "OK":
            continue
        for r, out in zip(keep, rep[1:]):
            tags.add("symloop:" + r["mode"])
            if len(r["cands"]) >= 2:
                tags.add("symloop:several-candidates")
                nontrivial = True
            try:
                mseeds, msets, hyp = out.split(" | ")
            except ValueError:
                diffs.append({"stream": STREAM, "at": f"node {r['node']}", "impl": "-", "model": out[:200]})
                continue
            tags.add("symloop:hypotheses-hold" if hyp == "hyp=1" else "symloop:hypotheses-fail" + (":skip-node" if r.get("skipped") else ""))
            if hyp != "hyp=1" and not r.get("skipped") and r["mode"] != "loop0":
                # ordinary node, candidates -> seeds: the hypotheses of symbolicSeeds_spec (distinct candidates inside the node,
                # outside the motifs, covering every own attractor) must hold; then the model's answer is exact (symbolicSeeds_checked)
                fails.append({"kind": "candidates-violate-loop-hypotheses", "sig": {"mode": r["mode"]},
                              "detail": f"node {r['node']} space {ni.sp(r['space'])} candidates " + " ".join(ni.st(c) for c in r["cands"])[:200]
                                        + " motifs " + " ".join(ni.sp(m) for m in r["motifs"])[:120]})
            iseeds = ",".join(ni.st(s) if set(s.keys()) == set(ni.names) else "partial" for s in r["seeds"])
            if iseeds != mseeds:
                diffs.append({"stream": STREAM, "at": f"node {r['node']} space {ni.sp(r['space'])} mode {r['mode']} candidates "
                              + " ".join(ni.st(c) for c in r["cands"])[:200] + " motifs " + " ".join(ni.sp(m) for m in r["motifs"])[:120],
                              "impl": "seeds " + iseeds[:200], "model": "seeds " + mseeds[:200]})
                continue
            if r["sets"] == "skip":
                continue
            isets = "none" if r["sets"] is None else " / ".join(",".join(x) for x in r["sets"])
            if isets != msets:
                diffs.append({"stream": STREAM, "at": f"node {r['node']} space {ni.sp(r['space'])} mode {r['mode']} (sets)",
                              "impl": isets[:300], "model": msets[:300]})
    return diffs, tags, nontrivial, fails
