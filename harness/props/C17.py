"""C17 – results do not depend on how the network is written down.

One semantic network, several presentations: renamed variables (which changes the variable order,
hence keys, ids and child order), declarations reordered through the AEON API, update functions
rewritten as equivalent formulas (full DNF from the truth table, double negations / De Morgan),
one variable encoded by its negation, and the bnet / aeon / sbml texts of the same network.  Each
presentation is fully expanded by the real code; its diagram (nodes, edges, motifs), minimal trap
spaces and attractor seeds are mapped back to the base variables / polarity and compared as abstract
objects with the base presentation (which is itself compared with the Lean model's full diagram).
Sanitization: names with illegal characters and names that collide after replacement must come
out distinct, solver-safe and with unchanged dynamics.
"""
from __future__ import annotations

import re

import common
import plain
from attrs import Oracle
from plain import abstract, make_sd, reorder_network

RULE = ("base network (all families, n<=5 quick) x 5 presentations {rename, reorder, equivalent formulas, negated variable, "
        "aeon/sbml text}; names that are prefixes of each other in 40% of the renamings; strategies bfs/dfs/build/scc/block/minimal-space/attractor-seed; "
        "each fully expanded with seeds for all nodes; plus one sanitization case with illegal and colliding "
        "names; non-trivial = the base diagram has at least 3 nodes and the presentation changes the variable order or a "
        "polarity; distinct by case hash")
ASSUMPTIONS = ["E2/E5: AEON parsers for bnet/aeon/sbml and infer_valid_graph"]
CASE_TIMEOUT = {"quick": 60, "thorough": 180}


RARE_CFG = 0.15      # rarely used option values, applied to every presentation of the case
NAMES = 0.0          # this campaign relies on the names it generates
FREE_INPUTS = 0.0


def budget(tier):
    return 800 if tier == "quick" else 8000


def gen_case(rng, tier, k):
    nmax = 5 if tier == "quick" else 6
    bnet = common.g_mixed(rng, nmax=nmax, p_core=0.3)
    st = rng.choice(["bfs", "dfs", "build", "bfs", "scc", "block", "min", "aseeds"])
    if st in ("scc", "block") and rng.random() < 0.6:
        bnet = common.g_modulated(rng, focus=rng.random() < 0.5)
    flip = rng.randrange(64)
    if bnet.startswith("i0, i0") and rng.random() < 0.5:
        flip = 0        # encode the *input* by its negation (variable names sort i0 first)
    return {"bnet": bnet, "perm_seed": rng.randrange(1 << 30), "flip": flip, "strategy": st,
            "weird": rng.random() < 0.3}


def expand(sd, strategy):
    if strategy == "dfs":
        sd.expand_dfs()
    elif strategy == "scc":
        sd.expand_scc()
    elif strategy == "block":
        sd.expand_block()
    elif strategy == "min":
        sd.expand_minimal_spaces()
    elif strategy == "aseeds":
        sd.expand_attractor_seeds()
    else:
        sd.expand_bfs()
    return sd


def canon(sd, back, flipvar=None):
    """abstract diagram + minimal trap spaces + seeds, expressed over the base variable names;
    `back` maps presentation names to base names; `flipvar` (a base name) has inverted polarity"""
    def sp(space):
        return tuple(sorted((back[k], (1 - v) if back[k] == flipvar else v) for k, v in space.items()))
    nodes = set()
    edges = set()
    for i in sd.node_ids():
        d = sd.node_data(i)
        nodes.add((sp(d["space"]), bool(d["expanded"])))
    for u, v, d in sd.dag.edges(data=True):
        edges.add((sp(sd.node_data(u)["space"]), sp(sd.node_data(v)["space"]), tuple(sorted(sp(m) for m in d["all_motifs"]))))
    mins = sorted(sp(sd.node_data(i)["space"]) for i in sd.minimal_trap_spaces())
    seeds = []
    for i in sd.expanded_ids():
        for s in sd.node_attractor_seeds(i, compute=True):
            seeds.append(sp(s))
    return nodes, edges, mins, seeds


def tt_expr(bn, v, names, rng_bits):
    """an equivalent formula for the update function of v: full DNF over its regulators"""
    from biodivine_aeon import AsynchronousGraph
    g = AsynchronousGraph(bn)
    f = g.mk_update_function(v)
    ctx = g.symbolic_context()
    regs = [bn.get_variable_name(r) for r in bn.predecessors(v)]
    if not regs:
        return "true" if f.is_true() else "false"
    terms = []
    for s in range(1 << len(regs)):
        val = {ctx.find_network_bdd_variable(r): bool((s >> j) & 1) for j, r in enumerate(regs)}
        r_ = f.r_restrict(val)
        if r_.is_true():
            terms.append("(" + " & ".join((r if (s >> j) & 1 else "!" + r) for j, r in enumerate(regs)) + ")")
    if not terms:
        return "false"
    return " | ".join(terms)


def run_case(case):
    """every presentation is built under the same configuration: the case's rarely used option values (if any) are made
    the default configuration while the case runs"""
    from biobalm import SuccessionDiagram

    cfg = {k: v for k, v in case.get("cfg", {}).items() if k != "debug"}
    if not cfg:
        return run_case_inner(case)
    orig = SuccessionDiagram.default_config

    def patched():
        c = orig()
        c.update(cfg)
        return c

    SuccessionDiagram.default_config = staticmethod(patched)
    try:
        return run_case_inner(case)
    finally:
        SuccessionDiagram.default_config = staticmethod(orig)


def run_case_inner(case):
    import random
    from biobalm import SuccessionDiagram
    from biodivine_aeon import BooleanNetwork

    rng = random.Random(case["perm_seed"])
    base = make_sd(case)
    bn = base.network
    names = bn.variable_names()
    ni = common.NetInfo(bn)
    expand(base, case["strategy"])
    ident = {v: v for v in names}
    ref = canon(base, ident)
    fails, tags, diffs = [], [], []
    # base presentation against the Lean model
    orc = Oracle(ni)
    orc.ask("full", "SDINIT")
    orc.ask("bfs", "BFS 0 - -")
    fv = names[case["flip"] % len(names)]
    orc.ask("fliptt", "FLIPTT " + "".join("1" if v == fv else "0" for v in names))
    orc.ask("states", "STATES")
    orc.run()
    model = abstract(orc.get("bfs").split(" ", 1)[1])
    if case["strategy"] not in ("scc", "block", "min", "aseeds") and abstract(common.dump_sd(base, ni)) != model:
        fails.append({"kind": "base-differs-from-model", "sig": {}, "detail": "fully expanded base presentation differs from the Lean full diagram"})
    for s in ref[3]:
        st = "".join(str(dict(s)[v]) for v in names)
        if st not in orc.state_att:
            fails.append({"kind": "seed-in-no-attractor", "sig": {}, "detail": st})
    ref_atts = sorted(orc.state_att["".join(str(dict(s)[v]) for v in names)] for s in ref[3] if "".join(str(dict(s)[v]) for v in names) in orc.state_att)

    def compare(tag, sd, back, flipvar=None):
        expand(sd, case["strategy"])
        got = canon(sd, back, flipvar)
        for k, what in enumerate(("nodes", "edges and motifs", "minimal trap spaces")):
            if k < 2 and case["strategy"] in ("scc", "block", "min", "aseeds"):
                continue        # these strategies build a presentation-dependent sub-diagram; results must agree
            if got[k] != ref[k]:
                a, b = got[k], ref[k]
                fails.append({"kind": "presentation-changes-result", "sig": {"presentation": tag, "what": what}, "detail":
                              f"{tag}: {what} differ: only in presentation {sorted(set(a) - set(b))[:3]}, only in base {sorted(set(b) - set(a))[:3]}"})
                return
        if case["strategy"] == "min":
            # minimal-space expansion expands a presentation-dependent set of inner nodes: only the minimal
            # trap spaces are comparable, not the attractors found in whatever happens to be expanded
            tags.append("presentation:" + tag)
            return
        atts = []
        for s in got[3]:
            st = "".join(str(dict(s)[v]) for v in names)
            if st not in orc.state_att:
                fails.append({"kind": "presentation-changes-result", "sig": {"presentation": tag, "what": "seed"}, "detail": f"{tag}: seed {st} lies in no attractor of the base network"})
                return
            atts.append(orc.state_att[st])
        if (sorted(set(atts)) != sorted(set(ref_atts))) if case["strategy"] == "scc" else (sorted(atts) != ref_atts):
            fails.append({"kind": "presentation-changes-result", "sig": {"presentation": tag, "what": "attractors"}, "detail": f"{tag}: attractors {sorted(atts)} vs base {ref_atts}"})
        tags.append("presentation:" + tag)

    # 1. rename (changes alphabetical order)
    pool = [f"n{rng.randrange(100):02d}_{i}" for i in range(len(names))]
    if rng.random() < 0.4:
        # names that are prefixes of each other or contain the fragments of the Petri-net identifiers
        pool = common.tricky_names(rng, len(names))
    ren = dict(zip(names, pool))
    txt = case["bnet"]
    def rename_text(text, mapping):
        return re.sub(r"[A-Za-z_][A-Za-z0-9_]*", lambda m: mapping.get(m.group(0), m.group(0)), text)
    compare("rename", SuccessionDiagram.from_rules(rename_text(txt, ren)), {v: k for k, v in ren.items()})
    # 2. declaration order through the AEON API
    order = names[:]
    rng.shuffle(order)
    reordered = SuccessionDiagram(reorder_network(BooleanNetwork.from_bnet(txt), order))
    compare("reorder", reordered, ident)
    # the library's own comparison must see the two presentations as the same diagram
    if case["strategy"] not in ("scc", "block", "min", "aseeds") and not (base.is_isomorphic(reordered) and reordered.is_subgraph(base) and base.is_subgraph(reordered)):
        fails.append({"kind": "presentation-changes-result", "sig": {"presentation": "reorder", "what": "is_isomorphic"}, "detail":
                      f"is_isomorphic/is_subgraph between the base diagram and the same network declared as {order} is False"})
    if len(names) >= 2 and case["strategy"] not in ("scc", "block", "min", "aseeds"):
        partial = SuccessionDiagram(reorder_network(BooleanNetwork.from_bnet(txt), order))
        partial.expand_bfs(bfs_level_limit=0)
        want = len(base) == len(partial) and base.dag.number_of_edges() == partial.dag.number_of_edges()
        if base.is_isomorphic(partial) != want or not partial.is_subgraph(base):
            fails.append({"kind": "presentation-changes-result", "sig": {"presentation": "reorder", "what": "is_subgraph"}, "detail":
                          f"partial diagram of the reordered network vs full base diagram: is_isomorphic={base.is_isomorphic(partial)} expected {want}, is_subgraph={partial.is_subgraph(base)}"})
    # 3. equivalent formulas
    lines = []
    for v in names:
        lines.append(f"{v}, {tt_expr(bn, v, names, 0)}")
    compare("full-dnf", SuccessionDiagram.from_rules("\n".join(lines)), ident)
    # 4. one variable encoded by its negation
    nv = "neg_" + fv
    flines = []
    for l in txt.split("\n"):
        if "," not in l:
            continue
        tgt, expr = l.split(",", 1)
        tgt = tgt.strip()
        expr2 = re.sub(r"\b" + re.escape(fv) + r"\b", f"(!{nv})", expr)
        if tgt == fv:
            flines.append(f"{nv}, !({expr2.strip()})")
        else:
            flines.append(f"{tgt}, {expr2.strip()}")
    back = dict(ident)
    back[nv] = fv
    fsd = SuccessionDiagram.from_rules("\n".join(flines))
    compare("negated-variable", fsd, back, flipvar=fv)
    # the rewritten text denotes Lean's `flipExprs` of the base network (theorems ofExprs_flipExprs, attr_flip):
    # truth tables of the presentation (evaluated by Lean), re-indexed to the base variable order
    ni2 = common.NetInfo(fsd.network)
    o2 = Oracle(ni2)
    o2.ask("tt", "TT")
    o2.ask("states", "STATES")
    o2.run()
    col2 = {st: k for k, st in enumerate(o2.get("states").split())}
    tt2 = dict(zip(ni2.names, o2.get("tt").split()))
    want = dict(zip(names, orc.get("fliptt").split()))
    for v in names:
        pv = nv if v == fv else v
        got_tt = "".join(tt2[pv][col2["".join(st[names.index(back[w])] for w in ni2.names)]] for st in orc.get("states").split())
        if got_tt != want[v]:
            diffs.append({"stream": "ORACLE negated-variable presentation vs Lean flipExprs", "variable": v, "impl": got_tt, "model": want[v]})
            break
    tags.append("flipExprs-tie")
    # 5. other text formats
    compare("aeon-text", SuccessionDiagram.from_rules(bn.to_aeon(), format="aeon"), ident)
    compare("sbml-text", SuccessionDiagram.from_rules(bn.to_sbml(), format="sbml"), ident)
    # 5b. the same network with its identity inputs written as *free* inputs (no update function), as aeon / sbml files do
    free_txt = common.free_inputs(random.Random(case["perm_seed"] + 1), txt)
    if free_txt != txt:
        fbn = BooleanNetwork.from_bnet(free_txt)
        if sorted(fbn.variable_names()) == sorted(names):
            compare("free-inputs-bnet", SuccessionDiagram.from_rules(free_txt), ident)
            compare("free-inputs-aeon", SuccessionDiagram.from_rules(fbn.to_aeon(), format="aeon"), ident)
            compare("free-inputs-sbml", SuccessionDiagram.from_rules(fbn.to_sbml(), format="sbml"), ident)
    # 6. sanitization
    if case.get("weird"):
        from biobalm.petri_net_translation import sanitize_network_names
        import copy as _copy
        pats = ["{}{{x}}", "{}[1]", "{}_", "{}[", "{}]", "{}-y", "{}.z", "{}\u03b3", "{}\u00e9"]
        weird = {}
        for k, v in enumerate(names):
            base_nm = v if k % 2 == 0 else names[0]
            weird[v] = pats[(case["flip"] + k) % len(pats)].format(base_nm)
        ok = len(set(weird.values())) == len(weird)
        if ok:
            wbn = _copy.copy(bn)
            try:
                for var in wbn.variables():
                    wbn.set_variable_name(var, weird[bn.get_variable_name(var)])
            except Exception:
                ok = False
        if ok:
            if True:

                sbn = sanitize_network_names(wbn)
                sn = sbn.variable_names()
                if len(set(sn)) != len(sn) or any(not re.fullmatch(r"[A-Za-z0-9_]+", x) for x in sn):
                    fails.append({"kind": "sanitized-names-unsafe", "sig": {}, "detail": f"{wbn.variable_names()} -> {sn}"})
                elif len(sn) != len(names):
                    fails.append({"kind": "sanitized-names-unsafe", "sig": {}, "detail": "variable count changed"})
                else:
                    backs = {sn[i]: names[i] for i in range(len(names))}
                    compare("sanitized", SuccessionDiagram(sbn), backs)
                tags.append("sanitization")
    return {"fails": fails, "diffs": diffs, "tags": sorted(set(tags)), "nontrivial": len(ref[0]) >= 3, "sig": common.case_hash(case)}
