"""C05 – diagrams completed with skip nodes never lose an attractor.

An expansion is stopped early (any strategy, any limit), the rest is skipped (skip_remaining,
skip_to_minimal on chosen stubs, minimal-space expansion with skip_ignored), seeds are requested for
all nodes in random order (symbolic fallback on/off).  Lean-backed judge: every seed lies in an
attractor inside its node; every attractor of the network is reported at least once; exactly once
when the network has no motif-avoidant attractor.
"""
from __future__ import annotations

import random

import common
import plain
from attrs import Oracle, node_obs, judge_seeds_sound
from plain import make_sd

RULE = ("early-stopped strategy or hand-driven single-node expansion in arbitrary order + skip completion + seeds of all nodes in "
        "random order; 45% networks composed around motif-avoidant cores with latches (overlapping skip nodes), 30% cores driving "
        "chains of latches (grid-shaped lattices, up to 8 variables), 25% expression/lattice networks; non-trivial = at least "
        "one skip node with two successors; distinct by case hash")
ASSUMPTIONS = ["E6 (NFVS reduction theorem), E1, E4, E5, E7 as for C01"]
CASE_TIMEOUT = {"quick": 40, "thorough": 120}


RARE_CFG = 0.1     # share of cases run under rarely used option values (same results expected)


ISO_INPUT = 0.05    # share of cases with an additional isolated free input


def budget(tier):
    return 1500 if tier == "quick" else 15000


def gen_case(rng, tier, k):
    nmax = 6 if tier == "quick" else 7
    r = rng.random()
    if r < 0.3:
        bnet = common.g_chains(rng, total_max=nmax + 2, kind=rng.choice(["maa", "burst"]))
    elif r < 0.75:
        bnet = common.g_compose(rng, kind="maa", extra_max=max(1, nmax - 3))
    else:
        bnet = common.g_mixed(rng, nmax=nmax, p_core=0.0)
    lim = rng.randint(1, 7)
    if r < 0.3 and rng.random() < 0.6:
        # hand-driven expansion: single nodes in arbitrary order (a node may be created before one of
        # its parents), attractor search in the expanded part, then everything else is skipped
        if rng.random() < 0.3:
            ops = [["succ", rng.randrange(1 << 16)] for _ in range(rng.randint(3, 16))]
            if rng.random() < 0.5:
                ops.insert(rng.randrange(len(ops)), ["bfs", rng.randrange(64), rng.randint(0, 1), None])
        else:
            # random stubs of the frontier, one at a time; some of them expanded with everything below
            ops = [["frontier", rng.randrange(1 << 30), rng.randint(4, 18), rng.choice([0.0, 0.1, 0.2, 0.3]), rng.choice([0.0, 0.2, 0.4])]]
        for _ in range(rng.choice([0, 0, 1, 2, 3])):
            ops.append(["rawcands", rng.randrange(64)])
        if rng.random() < 0.35:
            ops.append(["rawcands", "all"])
        if rng.random() < 0.7:
            ops.append(["expseeds"])
        if rng.random() < 0.2:
            ops.append(["reclaim"])
        ops.append(["skiprem"])
        return {"bnet": bnet, "ops": ops, "order_seed": rng.choice([None, rng.randrange(1 << 30)]), "fallback": rng.random() < 0.2,
                "candidate_limit": 100000, "fallback_direct": rng.random() < 0.4}
    first = rng.choice([["bfs", 0, None, lim], ["bfs", 0, rng.randint(0, 2), None], ["dfs", 0, None, lim],
                        ["dfs", 0, rng.randint(0, 2), None], ["min", 0, lim, False], ["min", 0, None, True],
                        ["min", 0, lim, True], ["aseeds", lim], ["blockx", True, lim, True, False], ["none"]])
    ops = [] if first == ["none"] else [first]
    if rng.random() < 0.4:
        # attractor data computed on stubs (and possibly reclaimed) before they are skipped
        for _ in range(rng.randint(1, 3)):
            ops.append([rng.choice(["seedsq", "seedsq", "cands", "seedsfb"]), rng.randrange(64)])
        if rng.random() < 0.6:
            ops.append(["reclaim"])
    for _ in range(rng.randint(0, 2)):
        ops.append(["skipmin", rng.randrange(64)])
    ops.append(["skiprem"])
    return {"bnet": bnet, "ops": ops, "order_seed": rng.randrange(1 << 30), "fallback": rng.random() < 0.3,
            "candidate_limit": rng.choice([100000, 100000, 100000, 1, 2]), "fallback_direct": rng.random() < 0.3,
            "max_motifs": rng.choice([100000] * 8 + [3, 4, 5])}


_avoid = []


def _patch_avoid():
    """record the list of avoided spaces the candidate computation hands to the reduced-STG solver"""
    import biobalm._sd_attractors.attractor_candidates as ac

    if getattr(ac.compute_fixed_point_reduced_STG, "_c05", False):
        return
    orig = ac.compute_fixed_point_reduced_STG

    def rec(pn, retained_set={}, ensure_subspace={}, avoid_subspaces=[], solution_limit=None):
        _avoid.append([dict(x) for x in avoid_subspaces])
        return orig(pn, retained_set, ensure_subspace=ensure_subspace, avoid_subspaces=avoid_subspaces, solution_limit=solution_limit)

    rec._c05 = True
    ac.compute_fixed_point_reduced_STG = rec


_isect = []


def _patch_isect():
    """record the regions the symbolic fallback removes for a skip node (non-empty `intersect` results)"""
    import biobalm._sd_attractors.attractor_symbolic as asy

    if getattr(asy.intersect, "_c05", False):
        return
    orig = asy.intersect

    def rec(a, b):
        r = orig(a, b)
        if r is not None:
            _isect.append(dict(r))
        return r

    rec._c05 = True
    asy.intersect = rec


def run_case(case):
    from biobalm._sd_attractors.attractor_symbolic import symbolic_attractor_fallback

    plain._patch_recorders()
    _patch_avoid()
    _patch_isect()
    sd = make_sd(case)
    sd.config["attractor_candidates_limit"] = case.get("candidate_limit", 100000)
    sd.config["max_motifs_per_node"] = case.get("max_motifs", 100000)
    ni = common.NetInfo(sd.network)
    min_checks = []
    for op in case["ops"]:
        try:
            if op[0] == "seedsfb":
                sd.node_attractor_seeds(op[1] % len(sd), compute=True, symbolic_fallback=True)
            else:
                min_sp = plain.min_space_of(sd, ni, op)
                plain.apply_op(sd, ni, op)
                if min_sp is not None and plain._min_record:
                    min_checks.append((ni.sp(min_sp), sorted(ni.sp(min_sp | x) for x in plain._min_record[0]), op[0]))
        except RuntimeError:
            pass
    order = list(sd.node_ids())
    if case.get("order_seed") is not None:
        random.Random(case["order_seed"]).shuffle(order)
    orc = Oracle(ni)
    # the diagram the attractors are read from: weak invariant (stubs without successors, successors strictly inside,
    # every minimal trap space inside an expanded node covered by a successor) - verified judge `judgeWeak`
    orc.ask(("weak", 0), "WEAK " + common.dump_sd(sd, ni))
    for j, (spx, _, _) in enumerate(min_checks):
        orc.ask(("minset", j), f"MIN {spx}")
    seeds, errors = {}, 0
    excl_ties = []
    fb_ties = []
    for i in order:
        if not sd.node_data(i)["expanded"]:
            continue
        d = sd.node_data(i)
        tie = None
        if d["skipped"] and d["attractor_candidates"] is None and d["attractor_seeds"] is None:
            # the exclusion rule of skip nodes, on the diagram as it is at the time of the query
            empties = [j for j in sd.node_ids()
                       if sd.node_data(j)["attractor_candidates"] == [] or sd.node_data(j)["attractor_seeds"] == []]
            tie = (ni.sp(d["space"]), ",".join(map(str, empties)) or "-", common.dump_sd(sd, ni),
                   {ni.sp(d["space"] | sd.edge_stable_motif(i, c, reduced=True)) for c in sd.dag.successors(i)})
        if tie is not None and case.get("fallback_direct"):
            # the same rule in the fully symbolic fallback (called directly; it stores nothing)
            del _isect[:]
            try:
                fb_seeds, _ = symbolic_attractor_fallback(sd, i)
                fb_ties.append((i, {ni.sp(x) for x in _isect}, {ni.sp(sd.node_data(c)["space"]) for c in sd.dag.successors(i)},
                                [dict(x) for x in fb_seeds]))
                orc.ask(("excl", i), f"SKIPEXCL {tie[0]} {tie[1]} {tie[2]}")
            except RuntimeError:
                pass
        del _avoid[:]
        try:
            seeds[i] = [dict(s) for s in sd.node_attractor_seeds(i, compute=True, symbolic_fallback=case["fallback"])]
        except RuntimeError:
            errors += 1
        if tie is not None and _avoid:
            real = {ni.sp(d["space"] | a) for a in _avoid[0]}
            orc.ask(("excl", i), f"SKIPEXCL {tie[0]} {tie[1]} {tie[2]}")
            excl_ties.append((i, real, tie[3]))
    if errors:
        return {"fails": [], "diffs": [], "tags": ["candidate-limit-error"], "nontrivial": False}
    stubs = [i for i in sd.node_ids() if not sd.node_data(i)["expanded"]]
    orc.run()
    fails, seen = [], {}
    if orc.get(("weak", 0)) != "OK":
        fails.append({"kind": "invariant", "sig": {"what": orc.get(("weak", 0)).split(":")[0][:60]},
                      "detail": "diagram completed with skip nodes: " + orc.get(("weak", 0))})
    for i, ss in seeds.items():
        obs = node_obs(sd, i)
        f, idx = judge_seeds_sound(orc, obs, ss)
        fails += f
        for a in idx:
            seen.setdefault(a, []).append(i)
    if not stubs:
        for a in range(len(orc.atts)):
            if a not in seen:
                fails.append({"kind": "lost-attractor", "detail": f"attractor {a} {orc.atts[a][:4]} is reported by no node"})
        if not orc.maa:
            for a, nodes in seen.items():
                if len(nodes) > 1:
                    fails.append({"kind": "duplicate-attractor", "detail": f"no motif-avoidant attractor in the network, yet attractor {a} is reported by nodes {nodes}"})
    diffs = []
    for j, (spx, got, opname) in enumerate(min_checks):
        if orc.get(("minset", j)).split() != got:
            diffs.append({"stream": "ORACLE answer of the minimal-trap-space solver vs Lean minTrapsIn", "at": opname,
                          "impl": got[:8], "model": orc.get(("minset", j)).split()[:8]})
    def region(spaces):
        # the states covered by a list of spaces (the lists themselves may differ harmlessly)
        out = set()
        for sp in spaces:
            free = [k for k, ch in enumerate(sp) if ch == "-"]
            for m in range(1 << len(free)):
                st = list(sp)
                for b, k in enumerate(free):
                    st[k] = "1" if (m >> b) & 1 else "0"
                out.add("".join(st))
        return out

    for i, real, child in excl_ties:
        model = set(orc.get(("excl", i)).split())
        if real != child | model and region(real) != region(child | model):
            diffs.append({"stream": "OBS spaces avoided by a skip node vs child motifs + Impl.skipExclusions", "node": i,
                          "impl_only": sorted(real - (child | model)), "model_only": sorted((child | model) - real)})
    for i, real, child, fb_seeds in fb_ties:
        model = set(orc.get(("excl", i)).split())
        if region(real | child) != region(model | child):
            diffs.append({"stream": "OBS regions removed by the symbolic fallback of a skip node vs Impl.skipExclusions", "node": i,
                          "impl_only": sorted(real - model), "model_only": sorted(model - real)})
        f, _ = judge_seeds_sound(orc, node_obs(sd, i), fb_seeds)
        for x in f:
            x["detail"] = "symbolic fallback: " + x["detail"]
        fails += f
    nskip = sum(1 for i in sd.node_ids() if sd.node_data(i)["skipped"])
    skip2 = any(sd.node_data(i)["skipped"] and sd.dag.out_degree(i) >= 2 for i in sd.node_ids())
    for f in fails:
        f.setdefault("sig", {}).update({"maa": bool(orc.maa), "skip_nodes": min(nskip, 2)})
    nexcl = sum(1 for i, real, child in excl_ties if real - child)
    tags = (["exclusion-tie"] if excl_ties else []) + (["exclusion-used"] if nexcl else []) + ["skip-nodes:%d" % min(nskip, 3)] + (["motif-avoidant-attractor"] if orc.maa else []) + (["fallback"] if case["fallback"] else [])
    return {"fails": fails, "diffs": diffs, "tags": tags, "nontrivial": skip2, "sig": common.case_hash(case),
            "sample": {"skip_nodes": nskip, "attractors": len(orc.atts), "maa": len(orc.maa)}}


def corpus():
    core = ("c0, (!c0 & !c1 & !c2) | (!c0 & c1 & !c2) | (c0 & !c1 & c2) | (c0 & c1 & c2)\nc1, !c0 & c1 & !c2\n"
            "c2, (c0 & !c1 & !c2) | (!c0 & !c1 & c2) | (c0 & c1 & c2)\n")
    f7 = core + "x0, x0 | ((((!x0 & !c2) | (x0 & c2)) & x0) | (!((!x0 & !c2) | (x0 & c2)) & !x0))\nx1, x1 | (c1 & !c0)"
    # replay of a past failure (seeded change W2-C05-a): two skip nodes created before one of their parents
    sp = lambda i, j, k, c=0: dict([("x1", 1)] * (i >= 1) + [("x2", 1)] * (i >= 2) + [("y1", 1)] * (j >= 1) + [("y2", 1)] * (j >= 2)
                                   + [("z", 1)] * (k >= 1) + [("c", 1)] * c)
    grid = {"bnet": "a, !a & !b\nb, !a & !b\nc, c | (a & b)\nx1, x1 | a\nx2, x1 & (x2 | a)\ny1, y1 | a\ny2, y1 & (y2 | a)\nz, z | a",
            "ops": [["expsp", sp(*t)] for t in [(0, 0, 0), (1, 0, 0), (1, 1, 0), (2, 1, 0), (1, 2, 0), (0, 1, 0), (0, 2, 0), (0, 2, 1)]]
            + [["bfssp", sp(0, 2, 1, 1)], ["expsp", sp(2, 0, 0)], ["expsp", sp(2, 0, 1)], ["bfssp", sp(2, 0, 1, 1)], ["expseeds"], ["skiprem"]],
            "order_seed": None, "fallback": False, "candidate_limit": 100000}
    return [grid, {"bnet": f7, "ops": [["min", 0, 6, True], ["skiprem"]], "order_seed": None, "fallback": False},
            {"bnet": "a, a | (b & c)\nb, b | (a & c)\nc, !c | (a & b & c)", "ops": [["seedsq", 0], ["skipmin", 0], ["skiprem"]],
             "order_seed": 1, "fallback": False}]
