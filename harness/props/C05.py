"""C05 – diagrams completed with skip nodes never lose an attractor.

An expansion is stopped early (any strategy, any limit), the rest is skipped (skip_remaining,
skip_to_minimal on chosen stubs, minimal-space expansion with skip_ignored), seeds are requested for
all nodes in random order (symbolic fallback on/off).  Lean-backed judge: every seed lies in an
attractor inside its node; every attractor of the network is reported at least once; exactly once
when the network has no motif-avoidant attractor.
"""
from __future__ import annotations

import random

import common
import plain
from attrs import Oracle, node_obs, judge_seeds_sound
from plain import make_sd

RULE = ("early-stopped strategy + skip completion + seeds of all nodes in random order; 70% networks composed around "
        "motif-avoidant cores with latches (overlapping skip nodes), 30% expression/lattice networks; non-trivial = at least "
        "one skip node with two successors; distinct by case hash")
ASSUMPTIONS = ["E6 (NFVS reduction theorem), E1, E4, E5, E7 as for C01"]
CASE_TIMEOUT = {"quick": 40, "thorough": 120}


def budget(tier):
    return 1500 if tier == "quick" else 15000


def gen_case(rng, tier, k):
    nmax = 6 if tier == "quick" else 7
    bnet = common.g_compose(rng, kind="maa", extra_max=max(1, nmax - 3)) if rng.random() < 0.7 else common.g_mixed(rng, nmax=nmax, p_core=0.0)
    lim = rng.randint(1, 7)
    first = rng.choice([["bfs", 0, None, lim], ["bfs", 0, rng.randint(0, 2), None], ["dfs", 0, None, lim],
                        ["dfs", 0, rng.randint(0, 2), None], ["min", 0, lim, False], ["min", 0, None, True],
                        ["min", 0, lim, True], ["aseeds", lim], ["blockx", True, lim, True, False], ["none"]])
    ops = [] if first == ["none"] else [first]
    if rng.random() < 0.4:
        # attractor data computed on stubs (and possibly reclaimed) before they are skipped
        for _ in range(rng.randint(1, 3)):
            ops.append([rng.choice(["seedsq", "seedsq", "cands", "seedsfb"]), rng.randrange(64)])
        if rng.random() < 0.6:
            ops.append(["reclaim"])
    for _ in range(rng.randint(0, 2)):
        ops.append(["skipmin", rng.randrange(64)])
    ops.append(["skiprem"])
    return {"bnet": bnet, "ops": ops, "order_seed": rng.randrange(1 << 30), "fallback": rng.random() < 0.3,
            "candidate_limit": rng.choice([100000, 100000, 100000, 1, 2])}


def run_case(case):
    plain._patch_recorders()
    sd = make_sd(case)
    sd.config["attractor_candidates_limit"] = case.get("candidate_limit", 100000)
    ni = common.NetInfo(sd.network)
    for op in case["ops"]:
        try:
            if op[0] == "seedsfb":
                sd.node_attractor_seeds(op[1] % len(sd), compute=True, symbolic_fallback=True)
            else:
                plain.apply_op(sd, ni, op)
        except RuntimeError:
            pass
    order = list(sd.node_ids())
    if case.get("order_seed") is not None:
        random.Random(case["order_seed"]).shuffle(order)
    orc = Oracle(ni)
    seeds, errors = {}, 0
    for i in order:
        if not sd.node_data(i)["expanded"]:
            continue
        try:
            seeds[i] = [dict(s) for s in sd.node_attractor_seeds(i, compute=True, symbolic_fallback=case["fallback"])]
        except RuntimeError:
            errors += 1
    if errors:
        return {"fails": [], "diffs": [], "tags": ["candidate-limit-error"], "nontrivial": False}
    stubs = [i for i in sd.node_ids() if not sd.node_data(i)["expanded"]]
    orc.run()
    fails, seen = [], {}
    for i, ss in seeds.items():
        obs = node_obs(sd, i)
        f, idx = judge_seeds_sound(orc, obs, ss)
        fails += f
        for a in idx:
            seen.setdefault(a, []).append(i)
    if not stubs:
        for a in range(len(orc.atts)):
            if a not in seen:
                fails.append({"kind": "lost-attractor", "detail": f"attractor {a} {orc.atts[a][:4]} is reported by no node"})
        if not orc.maa:
            for a, nodes in seen.items():
                if len(nodes) > 1:
                    fails.append({"kind": "duplicate-attractor", "detail": f"no motif-avoidant attractor in the network, yet attractor {a} is reported by nodes {nodes}"})
    nskip = sum(1 for i in sd.node_ids() if sd.node_data(i)["skipped"])
    skip2 = any(sd.node_data(i)["skipped"] and sd.dag.out_degree(i) >= 2 for i in sd.node_ids())
    for f in fails:
        f.setdefault("sig", {}).update({"maa": bool(orc.maa), "skip_nodes": min(nskip, 2)})
    tags = ["skip-nodes:%d" % min(nskip, 3)] + (["motif-avoidant-attractor"] if orc.maa else []) + (["fallback"] if case["fallback"] else [])
    return {"fails": fails, "diffs": [], "tags": tags, "nontrivial": skip2, "sig": common.case_hash(case),
            "sample": {"skip_nodes": nskip, "attractors": len(orc.atts), "maa": len(orc.maa)}}


def corpus():
    core = ("c0, (!c0 & !c1 & !c2) | (!c0 & c1 & !c2) | (c0 & !c1 & c2) | (c0 & c1 & c2)\nc1, !c0 & c1 & !c2\n"
            "c2, (c0 & !c1 & !c2) | (!c0 & !c1 & c2) | (c0 & c1 & c2)\n")
    f7 = core + "x0, x0 | ((((!x0 & !c2) | (x0 & c2)) & x0) | (!((!x0 & !c2) | (x0 & c2)) & !x0))\nx1, x1 | (c1 & !c0)"
    return [{"bnet": f7, "ops": [["min", 0, 6, True], ["skiprem"]], "order_seed": None, "fallback": False},
            {"bnet": "a, a | (b & c)\nb, b | (a & c)\nc, !c | (a & b & c)", "ops": [["seedsq", 0], ["skipmin", 0], ["skiprem"]],
             "order_seed": 1, "fallback": False}]
