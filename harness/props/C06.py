"""C06 – every intervention reported successful really forces the network into the target.

For every successful intervention (both strategies; fresh and pre-expanded/skipped diagrams): the
cumulative spaces T_k = percolate(T_{k-1} | motif_k), T_0 = whole space, are nested trap spaces
(Lean `isTrapB`, `perc`); for every listed override of step k the Lean judge `judgeForces` checks
that its LDOI contains the motif and that every attractor of the overridden network reachable from
T_{k-1} has the motif's values (exhaustive reachability); the final space is consistent with the
target and every minimal trap space inside it lies inside the target.
"""
from __future__ import annotations

import common
import plain
from control_common import gen_control_case, pick_target, pre_query, union
from plain import make_sd

RULE = ("random prepared diagram (plain history incl. skip operations, block, attractor-seed) or fresh, random non-empty "
        "target (trap space or arbitrary subspace), both strategies, bounds, forbidden sets, skip_feedforward; every override "
        "of every successful intervention is judged by exhaustive reachability in the overridden network; non-trivial = an "
        "intervention with at least one non-empty override set was judged; distinct by case hash")
ASSUMPTIONS = ["E3 AEON percolation = Sem.percolate"]
CASE_TIMEOUT = {"quick": 60, "thorough": 180}


def budget(tier):
    return 1500 if tier == "quick" else 15000


def gen_case(rng, tier, k):
    return gen_control_case(rng, tier, fresh=rng.random() < 0.4)


def run_case(case):
    from biobalm.control import succession_control

    plain._patch_recorders()
    sd = make_sd(case)
    ni = common.NetInfo(sd.network)
    for op in case["ops"]:
        try:
            plain.apply_op(sd, ni, op)
        except RuntimeError:
            pass
    rep0 = common.run_driver([ni.net_line, "TRAPS"])
    target = pick_target(case, ni, rep0[1].split())
    if not target:
        return {"fails": [], "diffs": [], "nontrivial": False}
    forb = sorted({ni.names[i % ni.n] for i in case["forbidden"]})
    pre_query(case, sd, ni, target)
    try:
        ivs = succession_control(sd, target, strategy=case["strategy"], max_drivers_per_succession_node=case["bound"],
                                 forbidden_drivers=set(forb), successful_only=True,
                                 skip_feedforward_successions=case["skip_ff"])
    except RuntimeError:
        return {"fails": [], "diffs": [], "tags": ["motif-limit-error"], "nontrivial": False}
    tsp = ni.sp(target)
    fails = []
    judged = 0
    lines = [ni.net_line]
    meta = []
    for a, iv in enumerate(ivs[:12]):
        if not iv.successful:
            fails.append({"kind": "unsuccessful-returned", "sig": {}, "detail": "successful_only=True returned an unsuccessful intervention"})
        cur = "-" * ni.n
        chain = [cur]
        for k, (motif, ctrl) in enumerate(zip(iv.succession, iv.control)):
            nxt = common.run_driver([ni.net_line, f"PERC {union(ni, cur, ni.sp(motif))}"])[1]
            for d in ctrl[:8]:
                lines.append(f"FORCES {cur} {ni.sp(d)} {ni.sp(motif)}")
                meta.append(("forces", a, k, d, motif, cur))
                judged += 1
            lines.append(f"ISTRAP {nxt}")
            meta.append(("trap", a, k, nxt, cur))
            cur = nxt
            chain.append(cur)
        lines.append(f"MIN {cur}")
        meta.append(("final", a, cur))
    rep = common.run_driver(lines)
    for m, r in zip(meta, rep[1:]):
        if m[0] == "forces" and r != "OK":
            fails.append({"kind": "override-does-not-force-motif", "sig": {"strategy": case["strategy"]}, "detail":
                          f"intervention {m[1]} step {m[2]}: override {m[3]} applied in {m[5]} for motif {ni.sp(m[4])}: {r}"})
        if m[0] == "trap":
            if r != "1":
                fails.append({"kind": "succession-not-trap-space", "sig": {}, "detail": f"intervention {m[1]} step {m[2]}: {m[3]} is not a trap space"})
            if not all(y == "-" or x == y for x, y in zip(m[3], m[4])):
                fails.append({"kind": "succession-not-nested", "sig": {}, "detail": f"{m[3]} not inside {m[4]}"})
        if m[0] == "final":
            cur = m[2]
            if any(x != "-" and y != "-" and x != y for x, y in zip(cur, tsp)):
                fails.append({"kind": "final-space-inconsistent-with-target", "sig": {}, "detail": f"{cur} vs target {tsp}"})
            for mt in r.split():
                if not all(y == "-" or x == y for x, y in zip(mt, tsp)):
                    fails.append({"kind": "minimal-trap-outside-target", "sig": {}, "detail":
                                  f"intervention {m[1]}: final space {cur} contains minimal trap space {mt} outside target {tsp}"})
    tags = ["strategy:" + case["strategy"], "prepared" if case["ops"] else "fresh"]
    return {"fails": fails, "diffs": [], "tags": tags, "nontrivial": judged > 0, "sig": common.case_hash(case),
            "sample": {"target": tsp, "interventions": len(ivs), "overrides_judged": judged}}
