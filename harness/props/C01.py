"""C01 – reported attractor seeds correspond one-to-one to the network's attractors.

A fresh diagram is expanded by a complete strategy with default settings (build, block, BFS, DFS,
source-SCC, attractor-seed); seeds are requested for every expanded node; the Lean judge decides:
every seed is a full state inside an attractor that lies in its node and in no successor, and
every attractor of `Sem.attractors` has exactly one seed in the whole diagram.
"""
from __future__ import annotations

import common
import plain
from attrs import Oracle, node_obs, judge_seeds_exact
from plain import make_sd

RULE = ("fresh diagram, one complete default strategy in {build, block, bfs, dfs, scc, aseeds}, seeds for every expanded "
        "node; networks: 50% corpus cores (motif-avoidant / multi-attractor minimal trap spaces) embedded in random context, "
        "30% truth-table networks, 20% expression/lattice networks, n<=6 quick / <=7 thorough; non-trivial = a complex "
        "attractor, two attractors in one node, or a motif-avoidant attractor; distinct by (network, strategy)")
ASSUMPTIONS = [
    "E6: NFVS reduction theorem (every attractor contains a fixed point of the reduced STG) - its conclusion is judged by brute force on every case",
    "E4/E7: AEON symbolic set algebra and reachability; E1: clingo; E5: AEON feedback vertex set",
]
STRATS = ["build", "block", "bfs", "dfs", "scc", "aseeds"]
CASE_TIMEOUT = {"quick": 40, "thorough": 120}


ISO_INPUT = 0.05    # share of cases with an additional isolated free input


def budget(tier):
    return 900 if tier == "quick" else 9000


def gen_case(rng, tier, k):
    nmax = 6 if tier == "quick" else 7
    r = rng.random()
    if r < 0.5:
        bnet = common.g_compose(rng, extra_max=max(0, nmax - 4))
    elif r < 0.8:
        bnet = common.g_tt(rng, rng.randint(2, min(5, nmax)))
    else:
        bnet = common.g_mixed(rng, nmax=nmax, p_core=0.0)
    if rng.random() < 0.15:
        bnet = common.g_modulated(rng)
    st = rng.choice(STRATS)
    if st in ("build", "block", "scc") and rng.random() < 0.35:
        # sibling nodes (the two values of an input) with the same variables and wiring but different logic:
        # what the block / component strategies decide in one of them must not leak into the other
        bnet = common.g_modulated(rng, focus=rng.random() < 0.6)
    return {"bnet": bnet, "strategy": st}


def run_strategy(sd, st):
    if st == "build":
        sd.build()
        return True
    if st == "block":
        return sd.expand_block()
    if st == "bfs":
        return sd.expand_bfs()
    if st == "dfs":
        return sd.expand_dfs()
    if st == "scc":
        return sd.expand_scc()
    if st == "aseeds":
        return sd.expand_attractor_seeds()
    raise ValueError(st)


def run_case(case):
    sd = make_sd(case)
    ni = common.NetInfo(sd.network)
    ok = run_strategy(sd, case["strategy"])
    if not ok:
        return {"fails": [{"kind": "strategy-did-not-complete", "sig": {"strategy": case["strategy"]}, "detail": ""}]}
    orc = Oracle(ni)
    seeds = {}
    for i in sd.expanded_ids():
        seeds[i] = [dict(s) for s in sd.node_attractor_seeds(i, compute=True)]
        orc.own(i, sd.node_data(i)["space"], [sd.node_data(s)["space"] for s in sd.dag.successors(i)])
    orc.run()
    fails, allidx = [], []
    for i, ss in seeds.items():
        obs = node_obs(sd, i)
        f, idx = judge_seeds_exact(orc, i, obs, ss)
        # per node the property only demands: seed inside an own attractor; completeness is global
        fails += [x for x in f if x["kind"] != "lost-attractor"]
        allidx += [(a, i) for a in idx]
    cnt = {}
    for a, i in allidx:
        cnt.setdefault(a, []).append(i)
    for a in range(len(orc.atts)):
        if a not in cnt:
            fails.append({"kind": "lost-attractor", "detail": f"attractor {a} {orc.atts[a][:4]} has no seed in the whole diagram"})
        elif len(cnt[a]) > 1:
            fails.append({"kind": "duplicate-attractor", "detail": f"attractor {a} {orc.atts[a][:4]} is reported by nodes {cnt[a]}"})
    for f in fails:
        f.setdefault("sig", {})["strategy"] = case["strategy"]
        f["sig"]["maa"] = bool(orc.maa)
    complex_att = any(len(a) > 1 for a in orc.atts)
    multi = any(len(v) > 1 for v in seeds.values())
    tags = ["strategy:" + case["strategy"]]
    if orc.maa:
        tags.append("motif-avoidant-attractor")
    if multi:
        tags.append("two-attractors-in-one-node")
    if complex_att:
        tags.append("complex-attractor")
    return {"fails": fails, "diffs": [], "tags": tags, "nontrivial": bool(orc.maa) or multi or complex_att,
            "sig": common.case_hash([case["bnet"], case["strategy"]]),
            "sample": {"attractors": len(orc.atts), "nodes": len(sd)}}


def corpus():
    f4d = ("c0, (!c0 & !c1 & !c2) | (c0 & c1 & !c2) | (c0 & !c1 & c2) | (c0 & c1 & c2)\n"
           "c1, (c0 & !c1 & !c2) | (!c0 & c1 & !c2) | (!c0 & !c1 & c2) | (c0 & c1 & c2)\n"
           "c2, (!c0 & c1 & !c2) | (!c0 & !c1 & c2)")
    f5 = ("c0, (c0 & !c1 & !c2) | (!c0 & c1 & !c2) | (c0 & !c1 & c2) | (!c0 & c1 & c2)\n"
          "c1, (!c0 & !c1 & !c2) | (c0 & c1 & !c2) | (!c0 & !c1 & c2) | (c0 & c1 & c2)\n"
          "c2, (!c0 & c1 & !c2) | (!c0 & c1 & c2)\n"
          "x0, (x1 & !(x0 | x1)) | (!x1 & (x0 | x1))\nx1, (!c2 | !x0) & !x0")
    out = []
    for st in STRATS:
        out.append({"bnet": f4d, "strategy": st})
        out.append({"bnet": f5, "strategy": st})
    # F6 witness (known finding): keeps the KNOWN-FINDING line deterministic
    out.append({"bnet": "c0, (c0 & !c1 & !c2) | (!c0 & c1 & !c2) | (c0 & !c1 & c2) | (!c0 & c1 & c2)\n"
                "c1, (!c0 & !c1 & !c2) | (c0 & !c1 & !c2) | (c0 & c1 & !c2) | (!c0 & !c1 & c2) | (!c0 & c1 & c2) | (c0 & c1 & c2)\n"
                "c2, (c0 & !c1 & !c2) | (!c0 & c1 & !c2) | (c0 & !c1 & c2) | (!c0 & c1 & c2)\n"
                "x0, x0 | (!c0)\nx1, x1 | ((((x0 & c1) & !(c1)) | (!((x0 & c1)) & (c1))))", "strategy": "scc"})
    cs = common.cores()
    for c in cs["multi"]:
        cn = [f"c{i}" for i in range(c["n"])]
        out.append({"bnet": "\n".join(common.core_lines(c, cn)), "strategy": "build"})
    return out
