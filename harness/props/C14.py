"""C14 – cached attractor data is never stale.

Random histories over the whole API interleave attractor queries on stubs and expanded nodes with
every operation that gives a stub successors (expansion by all strategies, skipping, source
shortcuts, SCC attachment), reclaim and pickle.  After every operation, for every node, whatever
`compute=False` returns is judged against the node's *current* successors (Lean OWNX): exact for
ordinary nodes, sound and duplicate-free for skip nodes; candidates must cover; sets must be the
attractors of the seeds.
"""
from __future__ import annotations

import pickle

import common
import plain
from attrs import Oracle, node_obs, judge_seeds_exact, judge_seeds_sound, judge_candidates, vertex_set_states
from plain import gen_ops, make_sd

RULE = ("histories of 2-10 operations mixing {seeds, candidates, sets queries on random nodes} with {single expansion, "
        "bfs, dfs, minimal-space (+skip_ignored), target, attractor-seed, block with/without source shortcuts, source-SCC, "
        "skip_to_minimal, skip_remaining, reclaim, pickle}; after each operation all cached data of all nodes is judged; "
        "35% directed scenarios (partial expansion, data on stubs, one operation that gives successors, look again) on union / chain networks; "
        "non-trivial = a node that had cached data while unexpanded later got successors; distinct by case hash")
ASSUMPTIONS = ["as C01/C08/C12"]
CASE_TIMEOUT = {"quick": 40, "thorough": 120}


RARE_CFG = 0.1     # share of cases run under rarely used option values (same results expected)


ISO_INPUT = 0.05    # share of cases with an additional isolated free input


def budget(tier):
    return 1500 if tier == "quick" else 15000


def gen_case(rng, tier, k):
    nmax = 6 if tier == "quick" else 7
    r = rng.random()
    if r < 0.4:
        bnet = common.g_compose(rng, extra_max=max(0, nmax - 4))
    else:
        bnet = common.g_mixed(rng, nmax=nmax, p_core=0.0)
    if rng.random() < 0.35:
        # the scenario of the property, directed: expand a little, compute attractor data on (mostly) stubs,
        # then give them successors by one of the operations that can, then look at what is cached
        r = rng.random()
        if r < 0.4:
            bnet = common.g_union(rng, nmax)
        elif r < 0.6:
            bnet = common.g_chains(rng, total_max=nmax, kind=rng.choice(["burst", "input", "maa"]))
        first = rng.choice([["bfs", 0, 0, None], ["bfs", 0, 0, None], ["bfs", 0, 1, None], ["frontier", rng.randrange(1 << 30), rng.randint(1, 4), 0.0, 0.0],
                            ["dfs", 0, rng.randint(0, 1), None], ["min", 0, rng.randint(1, 4), False], ["none"]])
        ops = [] if first == ["none"] else [first]
        for _ in range(rng.randint(1, 4)):
            ops.append([rng.choice(["seedsq", "seedsq", "setsq", "cands", "rawcands", "rawcands"]), rng.randrange(64)])
        if rng.random() < 0.25:
            ops.append(["reclaim"])
        give = rng.choice([["scc", True], ["scc", False], ["scc", False], ["blockx", True, None, True, False], ["blockx", False, None, True, False],
                           ["blockx", True, None, False, False], ["blockx", False, None, False, False], ["skiprem"], ["skipmin", rng.randrange(64)],
                           ["min", 0, None, True], ["min", rng.randrange(64), None, False], ["aseeds", None], ["bfs", 0, None, None],
                           ["dfs", rng.randrange(64), None, None], ["succ", rng.randrange(64)], ["target", [[rng.randrange(64), rng.randint(0, 1)]], None]])
        ops.append(give)
        for _ in range(rng.randint(0, 2)):
            ops.append([rng.choice(["seedsq", "setsq"]), rng.randrange(64)])
        return {"bnet": bnet, "ops": ops}
    ops = []
    for _ in range(rng.randint(2, 9 if tier == "quick" else 14)):
        r = rng.random()
        if r < 0.4:
            ops.append([rng.choice(["seedsq", "seedsq", "cands", "setsq"]), rng.randrange(64)])
        elif r < 0.5:
            ops.append([rng.choice(["reclaim", "pickle"])])
        elif r < 0.62:
            ops.append(rng.choice([["blockx", True, None, True, False], ["blockx", True, rng.randint(1, 6), True, False],
                                   ["blockx", False, None, True, False], ["scc", True], ["scc", False],
                                   ["blockx", True, None, False, False]]))
        else:
            ops += gen_ops(rng, 1, allow_skip=True, allow_unmodelled=True)
    return {"bnet": bnet, "ops": ops}


def cached(sd, i):
    d = sd.node_data(i)
    return d["attractor_seeds"], d["attractor_candidates"], d["attractor_sets"]


def run_case(case):
    plain._patch_recorders()
    sd = make_sd(case)
    ni = common.NetInfo(sd.network)
    orc = Oracle(ni)
    checks = []
    had_stub_cache = set()
    nontriv = False
    tags = set()
    diffs = []
    for k, op in enumerate(case["ops"]):
        tags.add("op:" + op[0])
        before = {i: (bool(sd.node_data(i)["expanded"]), sd.dag.out_degree(i), cached(sd, i)) for i in sd.node_ids()}
        try:
            if op[0] == "setsq":
                sd.node_attractor_sets(op[1] % len(sd), compute=True)
            elif op[0] == "pickle":
                sd = pickle.loads(pickle.dumps(sd))
            else:
                plain.apply_op(sd, ni, op)
        except RuntimeError:
            pass
        # protocol trace (tie to Balm.Cache): a node that was given successors by this operation must
        # not keep any cache object it had before (absent, or newly written, is fine)
        for i, (was_exp, was_deg, old) in before.items():
            if i >= len(sd):
                continue
            if was_deg == 0 and sd.dag.out_degree(i) > 0 and not was_exp and op[0] != "pickle":
                new = cached(sd, i)
                for name, o_, n_ in zip(("attractor_seeds", "attractor_candidates", "attractor_sets"), old, new):
                    if o_ is not None and n_ is o_:
                        diffs.append({"stream": "cache protocol (Balm.Cache.giveSucc discards all three fields)",
                                      "at": f"op{k}:{op[0]}", "node": i, "field": name})
        for i in sd.node_ids():
            seeds, cands, sets = cached(sd, i)
            d = sd.node_data(i)
            if not d["expanded"] and (seeds is not None or cands is not None):
                had_stub_cache.add(i)
            if d["expanded"] and i in had_stub_cache and sd.dag.out_degree(i) > 0:
                nontriv = True
            if seeds is None and cands is None and sets is None:
                continue
            obs = node_obs(sd, i)
            key = (k, i)
            orc.own(key, obs["space"], obs["succ"])
            checks.append((key, k, op, obs,
                           None if seeds is None else [dict(s) for s in seeds],
                           None if cands is None else [dict(s) for s in cands],
                           None if sets is None else [vertex_set_states(sd, ni, v) for v in sets]))
    orc.run()
    fails = []
    for key, k, op, obs, seeds, cands, sets in checks:
        where = f"after op{k}:{op[0]}"
        fs = []
        if seeds is not None:
            if obs["skipped"]:
                f, idx = judge_seeds_sound(orc, obs, seeds, "cached seeds")
            else:
                f, idx = judge_seeds_exact(orc, key, obs, seeds, "cached seeds")
            fs += f
            if sets is not None and not f:
                if len(sets) != len(seeds):
                    fs.append({"kind": "stale-sets", "detail": f"node {obs['id']}: {len(seeds)} seeds but {len(sets)} sets"})
                else:
                    for a, st in zip(idx, sets):
                        if sorted(orc.atts[a]) != st:
                            fs.append({"kind": "stale-sets", "detail": f"node {obs['id']}: cached set differs from the attractor of its seed"})
        elif sets is not None and sets != [] :
            fs.append({"kind": "stale-sets", "detail": f"node {obs['id']}: sets cached without seeds"})
        if cands is not None and not obs["skipped"]:
            fs += judge_candidates(orc, key, obs, cands)
        for f in fs:
            f["detail"] = where + ": " + f["detail"]
            f.setdefault("sig", {})["op"] = op[0]
        fails += fs
        if fs:
            break
    return {"fails": fails, "diffs": diffs, "tags": sorted(tags), "nontrivial": nontriv, "sig": common.case_hash(case)}


def shrink(case, fail):
    return plain.shrink_history("C14", case, fail)


def corpus():
    return [{"bnet": "a, a | (b & c)\nb, b | (a & c)\nc, !c | (a & b & c)", "ops": [["seedsq", 0], ["skipmin", 0]]},
            {"bnet": "a, a | (b & c)\nb, b | (a & c)\nc, !c | (a & b & c)", "ops": [["seedsq", 0], ["setsq", 0], ["skiprem"]]},
            {"bnet": "i, i\na, (i | a) & b\nb, (i | b) & a", "ops": [["setsq", 0], ["blockx", True, None, True, False]]},
            {"bnet": "i, i\na, (i | a) & b\nb, (i | b) & a", "ops": [["cands", 0], ["scc", True]]}]
