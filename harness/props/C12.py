"""C12 – attractor sets are the complete attractors and the symbolic fallback agrees.

For nodes of random diagrams: node_attractor_sets (before/after seeds, after reclaim, after pickle)
must be, in seed order, exactly the Sem attractor containing the seed, over all variables; the
fully symbolic fallback must yield the same attractors as the default method (ordinary nodes) and
only attractors inside the node (skip nodes).
"""
from __future__ import annotations

import pickle

import common
import plain
from attrs import Oracle, node_obs, vertex_set_states
from plain import gen_ops, make_sd

RULE = ("random prefix history (incl. skip operations), then for random nodes: sets first or seeds first, optional "
        "reclaim_node_data / pickle round trip / read-only API calls (summary, edge queries) in between, and symbolic_attractor_fallback; networks with complex attractors "
        "(cores), nodes with fixed values, unexpanded nodes with inputs; non-trivial = some attractor set has more than one "
        "state; distinct by case hash")
ASSUMPTIONS = ["E4 AEON set algebra/transfer_from, E7 transition_guided_reduction + xie_beerel, E6 via the seeds"]
CASE_TIMEOUT = {"quick": 40, "thorough": 120}


RARE_CFG = 0.1     # share of cases run under rarely used option values (same results expected)


ISO_INPUT = 0.05    # share of cases with an additional isolated free input


def budget(tier):
    return 1200 if tier == "quick" else 12000


def gen_case(rng, tier, k):
    nmax = 6 if tier == "quick" else 7
    bnet = common.g_compose(rng, extra_max=max(0, nmax - 4)) if rng.random() < 0.6 else common.g_mixed(rng, nmax=nmax, p_core=0.0)
    prefix = gen_ops(rng, rng.randint(0, 4), allow_skip=True, allow_unmodelled=False)
    qs = [[rng.randrange(64), rng.choice(["sets", "seeds-sets", "seeds-reclaim-sets", "seeds-pickle-sets", "sets-sets",
                                           "rawcands-seeds-sets", "rawcands-sets", "rawcands-seeds-sets", "rawcands-sets",
                                           "seeds-sets-ro", "rawcands-seeds-sets-ro", "sets-ro"])]
          for _ in range(rng.randint(2, 6))]
    case = {"bnet": bnet, "ops": prefix, "queries": qs, "fallback": rng.random() < 0.7}
    if rng.random() < 0.2:
        # resource limits that make candidate searches fail (RuntimeError) inside and outside block expansion; whatever
        # is cached afterwards must still be right, and the symbolic fallback must agree with it
        case["cfg"] = {"attractor_candidates_limit": rng.choice([1, 1, 2, 3]),
                       "retained_set_optimization_threshold": rng.choice([0, 0, 1, 2])}
        case["ops"] = prefix[:2] + ([["blockx", True, None, rng.random() < 0.5, rng.random() < 0.3]] if rng.random() < 0.6 else [])
        if rng.random() < 0.35:
            # skip nodes under the forced fallback
            case["ops"] = [rng.choice([["bfs", 0, rng.choice([0, 1]), None], ["one", 0], ["min", 0, rng.randint(1, 4), False]]),
                           rng.choice([["skiprem"], ["skipmin", rng.randrange(64)], ["skiprem"]])]
        case["fallback"] = True
        case["queries"] = [[a, rng.choice([m, "seedsfb-sets", "seedsfb-sets-ro"])] for a, m in case["queries"]]
    return case


def run_case(case):
    from biobalm._sd_attractors.attractor_symbolic import symbolic_attractor_fallback

    plain._patch_recorders()
    sd = make_sd(case)
    ni = common.NetInfo(sd.network)
    for op in case["ops"]:
        try:
            plain.apply_op(sd, ni, op)
        except RuntimeError:
            pass
    orc = Oracle(ni)
    res = []
    for q, (a, mode) in enumerate(case["queries"]):
        i = a % len(sd)
        try:
            if mode.startswith("rawcands"):
                # candidates without any minification: several candidates per attractor reach the symbolic filter
                sd.node_attractor_candidates(i, compute=True, greedy_asp_minification=False, simulation_minification=False)
            if "seedsfb" in mode.split("-"):
                # the default method may fail under the configured limits: the fallback inside node_attractor_seeds
                sd.node_attractor_seeds(i, compute=True, symbolic_fallback=True)
            if "seeds" in mode.split("-"):
                sd.node_attractor_seeds(i, compute=True)
            if mode == "sets-sets":
                sd.node_attractor_sets(i, compute=True)
            if mode.endswith("-ro"):
                # read-only API calls (summary, edge queries, find_node, ...) between computing and reading
                sd.node_attractor_sets(i, compute=True)
                plain.apply_op(sd, ni, ["readonly", i])
            if "reclaim" in mode:
                sd.reclaim_node_data()
            if "pickle" in mode:
                sd = pickle.loads(pickle.dumps(sd))
            sets = sd.node_attractor_sets(i, compute=True)
            seeds = [dict(s) for s in sd.node_attractor_seeds(i, compute=False)]
        except RuntimeError:
            continue
        obs = node_obs(sd, i)
        fb = None
        if case.get("fallback"):
            fbs, fbsets = symbolic_attractor_fallback(sd, i)
            fb = ([dict(s) for s in fbs], [vertex_set_states(sd, ni, v) for v in fbsets])
        res.append((q, i, obs, seeds, [vertex_set_states(sd, ni, v) for v in sets], fb, mode))
        orc.own(q, obs["space"], obs["succ"])
        if fb is not None and not obs["skipped"]:
            # the region the fallback searches, by the specifications of its parts (Lean: fallbackAttrs, fallback_eq_own)
            orc.ask(("fb", q), "FALLBACK " + ni.sp(obs["space"]) + "".join(" " + ni.sp(x) for x in obs["succ"]))
    orc.run()
    fails, nontriv, tags, diffs = [], False, set(), []
    for q, i, obs, seeds, sets, fb, mode in res:
        tags.add("mode:" + mode)
        if len(seeds) != len(sets):
            fails.append({"kind": "sets-seeds-length", "sig": {}, "detail": f"node {i}: {len(seeds)} seeds, {len(sets)} sets ({mode})"})
            continue
        idx = []
        for s, st in zip(seeds, sets):
            a = orc.att_of(s)
            if a in (None, "partial"):
                fails.append({"kind": "seed-in-no-attractor", "sig": {}, "detail": f"node {i}: {s}"})
                continue
            idx.append(a)
            want = sorted(orc.atts[a])
            if st != want:
                fails.append({"kind": "set-is-not-the-attractor", "sig": {"mode": mode}, "detail":
                              f"node {i} ({ni.sp(obs['space'])}) mode {mode}: set of seed {ni.st(s)} has {len(st)} states {st[:6]}, attractor has {len(want)}: {want[:6]}"})
            if len(want) > 1:
                nontriv = True
        if fb is not None:
            fseeds, fsets = fb
            fidx = []
            for s, st in zip(fseeds, fsets):
                a = orc.att_of(s)
                if a in (None, "partial") or sorted(orc.atts[a]) != st:
                    fails.append({"kind": "fallback-not-an-attractor", "sig": {"skipped": obs["skipped"]}, "detail":
                                  f"node {i} ({ni.sp(obs['space'])}): fallback seed {s} set {st[:6]}"})
                else:
                    fidx.append(a)
                    if not orc.inside(orc.atts[a], ni.sp(obs["space"])):
                        fails.append({"kind": "fallback-outside-node", "sig": {}, "detail": f"node {i}: attractor {a}"})
                    if any(orc.inside(orc.atts[a], ni.sp(x)) for x in obs["succ"]):
                        fails.append({"kind": "fallback-reports-successor-attractor", "sig": {"skipped": obs["skipped"]}, "detail":
                                      f"node {i} ({ni.sp(obs['space'])}): attractor {a} lies inside a successor's space"})
            if not obs["skipped"]:
                model = orc.get(("fb", q))
                impl = " / ".join(sorted(",".join(x) for x in fsets))
                if model != impl:
                    diffs.append({"stream": "FALLBACK attractors of symbolic_attractor_fallback vs Lean Impl.fallbackAttrs",
                                  "at": f"node {i} ({ni.sp(obs['space'])})", "impl": impl[:300], "model": model[:300]})
            if not obs["skipped"] and sorted(fidx) != sorted(idx):
                fails.append({"kind": "fallback-differs-from-default", "sig": {}, "detail":
                              f"node {i} ({ni.sp(obs['space'])}, expanded={obs['expanded']}): default attractors {sorted(idx)}, fallback {sorted(fidx)}"})
            tags.add("fallback")
    return {"fails": fails, "diffs": diffs, "tags": sorted(tags), "nontrivial": nontriv, "sig": common.case_hash(case)}
