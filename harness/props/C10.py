"""C10 – Petri-net encoding and network reduction preserve the asynchronous dynamics.

The transitions of the Petri net built by `network_to_petrinet` are sent to the Lean judge
`faithfulOnB` (for every state: some transition changing v up/down is enabled iff the update
function disagrees with the current value that way); the same for nets restricted to random
subspaces (trap or not) and to nodes of random diagrams (restriction of a restriction);
`percolate_network` (remove_constants on/off) must keep exactly the free variables and the dynamics
of the original network on the subspace (truth tables evaluated by the Lean evaluator).
"""
from __future__ import annotations

import os

import common
import plain
from plain import gen_ops, make_sd

RULE = ("random networks (all families, plus free-input .aeon networks) with 3 random subspaces each (random partial "
        "assignments, trap spaces) and the node spaces of a random diagram; thorough tier adds the repository models whose "
        "functions have at most 12 regulators; non-trivial = the subspace fixes a variable that is a regulator of a free "
        "variable; distinct by (network, subspace)")
ASSUMPTIONS = ["E2: AEON BDD operations (restriction, support) used by the DNF generator; E5: AEON inline/percolation network surgery"]
CASE_TIMEOUT = {"quick": 40, "thorough": 120}


FREE_INPUTS = 0.2    # inputs without an update function (aeon / sbml style) in a fifth of the cases


def budget(tier):
    return 700 if tier == "quick" else 7000


def gen_case(rng, tier, k):
    if k % (25 if tier == "quick" else 10) == 0:
        return {"model": rng.randrange(10000), "max_support": 13 if tier == "quick" else 20}
    nmax = 6 if tier == "quick" else 7
    bnet = common.g_mixed(rng, nmax=nmax, p_core=0.2)
    wide = False
    if rng.random() < 0.12:
        # functions with many regulators and shared sub-structure (large BDDs for the implicant generator)
        wide = True
        k = rng.randint(7, 8)
        ins = [f"a{j}" for j in range(k)]
        # a multiplexer tree over the first inputs with non-trivial leaf functions over the others: the
        # branches share large sub-graphs (the shape of signalling functions in the published models)
        nsel = rng.randint(2, 3)
        sel, rest = ins[:nsel], ins[nsel:]
        def leaf():
            vs = rng.sample(rest, min(len(rest), rng.randint(3, 4)))
            forms = ["{0} | {1} | ({2} & {3})", "{3} & ({0} | {1})", "({0} & {1}) | ({2} & {3})", "{0} | ({1} & {2})",
                     "{0} & {1} & {2}", "({0} | {1}) & ({2} | {3})"]
            vs = (vs * 2)[:4]
            return "(" + rng.choice(forms).format(*vs) + ")"
        def mux(d):
            if d >= len(sel):
                return leaf()
            return f"(({sel[d]} & {mux(d + 1)}) | (!{sel[d]} & {mux(d + 1)}))"
        core = mux(0)
        p, q = rng.sample(ins, 2)
        lines = [f"{v}, {v}" if rng.random() < 0.5 else f"{v}, {common.rand_expr(rng, ins, 2)}" for v in ins]
        lines = [f"{v}, {v}" for v in ins]
        lines.append(f"x, ({core}) & (!{p} | !{q} | !x)")
        bnet = "\n".join(lines)
    return {"bnet": bnet, "wide": wide, "free_inputs": rng.random() < 0.2,
            "spaces": [[[rng.randrange(64), rng.randint(0, 1)] for _ in range(rng.randint(1, 3))] for _ in range(3)],
            "trap_pick": rng.randrange(1 << 20), "ops": gen_ops(rng, rng.randint(1, 3), allow_unmodelled=False),
            "remove_constants": rng.random() < 0.5}


def pn_transitions(pn, ni, ens=None):
    from biobalm.petri_net_translation import place_to_variable

    out = []
    for node, d in pn.nodes(data=True):
        if d.get("kind") != "transition":
            continue
        v = d["change"]
        cube = ["-"] * ni.n
        own = None
        for p in pn.predecessors(node):
            var, pos = place_to_variable(p)
            if var == v:
                own = pos
            else:
                cube[ni.idx[var]] = "1" if pos else "0"
        up = d["direction"] == "up"
        if own is None or own == up:
            return None, f"transition {node} does not consume the opposite place of its own variable"
        # structure: produces the target place, read arcs return their tokens
        succ = set(pn.successors(node))
        pre = set(pn.predecessors(node))
        from biobalm.petri_net_translation import variable_to_place
        if variable_to_place(v, up) not in succ or (pre - {variable_to_place(v, not up)}) != (succ - {variable_to_place(v, up)}):
            return None, f"transition {node} is not wired as consume/produce + read arcs"
        out.append(f"{ni.idx[v]}:{d['direction']}:{''.join(cube)}")
    return out, None


def pn_variables(pn):
    from biobalm.petri_net_translation import extract_variable_names
    return sorted(extract_variable_names(pn))


def raw_free_input_network(case):
    """same dynamics, but identity inputs written as function-less variables (.aeon)"""
    from biodivine_aeon import BooleanNetwork

    # regulations that the functions really have (AEON refuses to build a symbolic graph for a network with inputs
    # whose declared regulations are not essential)
    bn = BooleanNetwork.from_bnet(case["bnet"]).infer_valid_graph()
    for v in bn.variable_names():
        f = bn.get_update_function(v)
        if f is not None and str(f) == v:
            bn.set_update_function(v, None)
            bn.remove_regulation(v, v)
    return bn


def make_free_input_sd(case):
    from biobalm import SuccessionDiagram

    return SuccessionDiagram(raw_free_input_network(case))


def run_model_case(case):
    """Repository model, function by function: the sub-network induced by the support of f_v is sent to
    the Lean judge together with the transitions of v (cubes only mention support variables)."""
    import glob
    from biodivine_aeon import BooleanNetwork
    from biobalm.petri_net_translation import network_to_petrinet, place_to_variable
    from biobalm.interaction_graph_utils import cleanup_network

    files = sorted(glob.glob(os.path.join(common.REPO, "models", "bbm-bnet-inputs-true", "*.bnet")))
    path = files[case["model"] % len(files)]
    bn = cleanup_network(BooleanNetwork.from_file(path))
    pn = network_to_petrinet(bn)
    names = bn.variable_names()
    by_var = {}
    for node, d in pn.nodes(data=True):
        if d.get("kind") == "transition":
            by_var.setdefault(d["change"], []).append(node)
    fails, checked, skipped = [], 0, 0
    for v in names:
        f = bn.get_update_function(v)
        if f is None:
            continue
        sup = sorted({bn.get_variable_name(x) for x in f.support_variables()} | {v})
        if len(sup) > case["max_support"]:
            skipped += 1
            continue
        if len(sup) < case.get("min_support", 0):
            continue
        idx = {nm: i for i, nm in enumerate(sup)}
        exprs = [(common.prefix(f.as_expression(), idx) if nm == v else f"v{idx[nm]}") for nm in sup]
        ts = []
        bad = None
        for node in by_var.get(v, []):
            cube = ["-"] * len(sup)
            for p in pn.predecessors(node):
                var, pos = place_to_variable(p)
                if var == v:
                    continue
                if var not in idx:
                    bad = f"transition {node} tests {var}, which is not in the support of the update function"
                    break
                cube[idx[var]] = "1" if pos else "0"
            if bad:
                break
            ts.append(f"{idx[v]}:{pn.nodes[node]['direction']}:{''.join(cube)}")
        if bad:
            fails.append({"kind": "petri-net-not-faithful", "sig": {"what": "model"}, "detail": f"{os.path.basename(path)} {v}: {bad}"})
            continue
        rep = common.run_driver([f"NET {len(sup)} " + " ; ".join(exprs), f"PNCHECKV {idx[v]} " + " ".join(ts)], timeout=300)
        checked += 1
        if rep[1] != "OK":
            fails.append({"kind": "petri-net-not-faithful", "sig": {"what": "model"}, "detail": f"{os.path.basename(path)} variable {v} ({len(sup) - 1} regulators): {rep[1]}"})
    return {"fails": fails, "diffs": [], "tags": ["model:" + os.path.basename(path)], "nontrivial": checked > 3, "sig": "model:" + path,
            "metrics": {"model_functions_checked": checked, "model_functions_skipped_large_support": skipped}}


def corpus():
    """the widest update functions of the bundled models that whole-support enumeration can afford in
    the quick tier (support 10-13): their BDDs are where the implicant generator works hardest"""
    wide = [1, 8, 17, 40, 55, 82, 92, 119, 120, 148, 164, 192, 193, 194, 207, 208, 0, 41, 54, 61, 72, 88, 144, 146]
    return [{"model": k, "min_support": 10, "max_support": 13} for k in wide]


def idx_by_id(bn, idx):
    """common.prefix indexes by VariableId: map ids of the support to local positions"""
    return {vid: idx[bn.get_variable_name(vid)] for vid in bn.variables() if bn.get_variable_name(vid) in idx}


def run_case(case):
    if "model" in case:
        return run_model_case(case)
    from biobalm.petri_net_translation import restrict_petrinet_to_subspace
    from biobalm.space_utils import percolate_network, percolate_space

    plain._patch_recorders()
    sd = make_free_input_sd(case) if case.get("free_inputs") else make_sd(case)
    ni = common.NetInfo(sd.network)
    fails = []
    lines = [ni.net_line, "TRAPS"]
    traps = [] if case.get("wide") else common.run_driver(lines)[1].split()
    spaces = []
    for sp in case["spaces"]:
        d = {}
        for i, v in sp:
            d[ni.names[i % ni.n]] = v
        spaces.append(d)
    if traps:
        spaces.append(ni.unsp(traps[case["trap_pick"] % len(traps)]))
    lines = [ni.net_line]
    what = []
    ts, err = pn_transitions(sd.petri_net, ni)
    if err:
        fails.append({"kind": "petri-net-structure", "sig": {}, "detail": err})
    else:
        lines.append("PNCHECK " + "-" * ni.n + " " + " ".join(ts))
        what.append("global Petri net")
    if pn_variables(sd.petri_net) != sorted(ni.names):
        fails.append({"kind": "petri-net-variables", "sig": {}, "detail": "places do not match the variables"})
    nontriv = False
    for d in spaces:
        r = restrict_petrinet_to_subspace(sd.petri_net, d)
        free = sorted(v for v in ni.names if v not in d)
        if pn_variables(r) != free:
            fails.append({"kind": "restricted-net-variables", "sig": {}, "detail": f"restriction to {d}: variables {pn_variables(r)} expected {free}"})
            continue
        ts, err = pn_transitions(r, ni)
        if err:
            fails.append({"kind": "petri-net-structure", "sig": {}, "detail": f"restriction to {d}: {err}"})
            continue
        lines.append(f"PNCHECK {ni.sp(d)} " + " ".join(ts))
        what.append(f"net restricted to {d}")
        nontriv = True
    # nodes of a diagram: restriction of the parent's restriction
    for op in ([] if case.get("wide") else case["ops"]):
        try:
            plain.apply_op(sd, ni, op)
        except RuntimeError:
            pass
    for i in ([] if case.get("wide") else list(sd.node_ids())[:6]):
        sp = sd.node_data(i)["space"]
        if len(sp) == ni.n:
            continue
        parent = next(iter(sd.dag.predecessors(i)), None)
        if parent is not None:
            sd.node_percolated_petri_net(parent, compute=True)
        r = sd.node_percolated_petri_net(i, compute=True, parent_id=parent)
        free = sorted(v for v in ni.names if v not in sp)
        if pn_variables(r) != free:
            fails.append({"kind": "restricted-net-variables", "sig": {}, "detail": f"node {i}: variables {pn_variables(r)} expected {free}"})
            continue
        ts, err = pn_transitions(r, ni)
        if err:
            fails.append({"kind": "petri-net-structure", "sig": {}, "detail": f"node {i}: {err}"})
            continue
        lines.append(f"PNCHECK {ni.sp(sp)} " + " ".join(ts))
        what.append(f"percolated net of node {i} {ni.sp(sp)} (via parent {parent})")
    lines += ["TT", "STATES"]
    rep = common.run_driver(lines)
    for w, r in zip(what, rep[1:]):
        if r != "OK":
            fails.append({"kind": "petri-net-not-faithful", "sig": {"what": w.split(" ")[0]}, "detail": f"{w}: {r}"})
    tt = rep[-2].split()
    states = rep[-1].split()
    sidx = {s: k for k, s in enumerate(states)}
    # percolate_network on a trap space
    if traps:
        T = ni.unsp(traps[case["trap_pick"] % len(traps)])
        P = percolate_space(sd.symbolic, T)
        rc = case["remove_constants"]
        src = sd.network
        if case.get("free_inputs") and case["trap_pick"] % 3 != 0:
            # the *raw* network (inputs without any update function, as an .aeon / .sbml file gives it), not the one the
            # diagram normalised: percolate_network is a public function of its own
            src = raw_free_input_network(case)
        if case["trap_pick"] % 2 == 0 and src is sd.network:
            pbn = percolate_network(src, T, sd.symbolic, remove_constants=rc)
        else:
            pbn = percolate_network(src, T, remove_constants=rc)     # graph built by the function itself
        pni = common.NetInfo(pbn)
        free = [v for v in ni.names if v not in P]
        if rc and sorted(pni.names) != sorted(free):
            fails.append({"kind": "percolated-network-variables", "sig": {}, "detail": f"trap {T}: variables {pni.names}, free variables of the percolation {free}"})
        elif not rc and sorted(pni.names) != sorted(ni.names):
            fails.append({"kind": "percolated-network-variables", "sig": {}, "detail": f"trap {T} (constants kept): variables {pni.names}"})
        elif pni.n > 0:
            r2 = common.run_driver([pni.net_line, "TT", "STATES"])
            tt2, st2 = r2[1].split(), r2[2].split()
            s2idx = {s: k for k, s in enumerate(st2)}
            for s in states:
                full = {v: int(c) for v, c in zip(ni.names, s)}
                if any(full[v] != b for v, b in P.items()):
                    continue
                red = "".join(str(full[v]) for v in pni.names)
                for v in pni.names:
                    a = tt2[pni.idx[v]][s2idx[red]]
                    if v in P:
                        b = str(P[v])
                    else:
                        b = tt[ni.idx[v]][sidx[s]]
                    if a != b:
                        fails.append({"kind": "percolated-network-dynamics", "sig": {"remove_constants": rc}, "detail":
                                      f"trap {T} percolated {P}: update of {v} in state {s} is {a}, original dynamics {b}"})
                        break
                else:
                    continue
                break
    return {"fails": fails, "diffs": [], "tags": ["free-inputs"] if case.get("free_inputs") else [], "nontrivial": nontriv,
            "sig": common.case_hash(case)}
