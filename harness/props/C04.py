"""C04 – lazily built diagrams are always a faithful part of the full diagram.

Tie: literal equality of the real diagram state with the Lean model after every operation of a
random plain history (ids, spaces, depth, flags, edges, motif lists in order, return value).
Judge: `judgeStrict` (Lean) on every intermediate dump of the real diagram; after a final
unrestricted BFS: literal equality with a fresh BFS of the real code and of the model.
"""
from __future__ import annotations

import common
from plain import gen_plain_case, run_plain_history, shrink_history

RULE = ("random plain histories (single-node expansion, bfs, dfs, minimal-space, target, attractor-seed, "
        "block without source shortcuts (modelled), node_successors; 15% declared variable order + pickle; 12% identity-inside-trap networks) with limits in [0,size+2] over G-expr/G-tt/G-compose "
        "networks (n<=6 quick, <=7 thorough); non-trivial = at least two operations changed the diagram and some "
        "intermediate state had both expanded and unexpanded nodes; distinct by (network, history) hash")
ASSUMPTIONS = [
    "E1: clingo enumerates exactly the subset-maximal/minimal models of the emitted program (tie-checked: every solver answer is compared with Ref.maxTrapsIn / minTrapsIn)",
    "E3: AEON percolate_subspace computes Sem.percolate (tie-checked per created node)",
]
CASE_TIMEOUT = {"quick": 30, "thorough": 90}


def budget(tier):
    return 500 if tier == "quick" else 6000


def gen_case(rng, tier, k):
    case = gen_plain_case(rng, tier, k, final_full=True)
    if rng.random() < 0.12:
        # nodes below the root whose percolated network consists of source variables, expanded by the block strategy
        case["bnet"] = common.g_idtrap(rng, 6 if tier == "quick" else 7)
        case["ops"] = case["ops"][:rng.randint(0, 2)] + [["block", rng.random() < 0.5, rng.choice([None, None, 3, 6])]] + case["ops"][2:4]
    return case


def run_case(case):
    return run_plain_history(case, judge_leaves=False)


def shrink(case, fail):
    return shrink_history("C04", case, fail)


def corpus():
    return [
        # diamond (F1 witness): depth must follow the longest path
        {"bnet": "A, A | (B & C)\nB, A | B | (C & A)\nC, A & C", "max_motifs": 100000,
         "ops": [["bfs", 0, None, None]], "final_full": True},
        # F2 witness: limits on an already expanded diagram
        {"bnet": "a, b\nb, a & c\nc, !a | b", "max_motifs": 100000,
         "ops": [["bfs", 0, None, None], ["bfs", 0, None, 1], ["dfs", 0, None, 1], ["min", 0, 1, False]],
         "final_full": True},
        # attractor-seed expansion where an unexpanded child (-111) lies inside the stable motif (--1-) of an expanded
        # sibling: rare in the generated families (about 1 in 300 monotone latch networks), kept as a directed case
        {"bnet": "x0, x3 & x0\nx1, x3 | x0\nx2, x2 | x1\nx3, x0 | x1", "max_motifs": 100000,
         "ops": [["aseeds", None]], "final_full": True},
        {"bnet": "x0, x3 & x0\nx1, x3 | x0\nx2, x2 | x1\nx3, x0 | x1", "max_motifs": 100000,
         "ops": [["min", 0, None, False], ["aseeds", None], ["bfs", 0, None, None]], "final_full": True},
    ]
