"""C08 – attractor candidates cover every attractor under every option and limit setting.

For nodes of every kind (unexpanded, expanded ordinary, minimal) after a random plain history, the
candidate query is run under every option combination and configuration values in
{0,1,2,3,5,default}; it must raise the resource-limit error or return full states of the node's
space such that every own attractor (Lean: inside the node, in no successor) contains a candidate.
"""
from __future__ import annotations

import common
import plain
from attrs import Oracle, node_obs, judge_candidates
from plain import gen_ops, make_sd

RULE = ("random plain prefix history, then node_attractor_candidates(compute=True) on random nodes under all four "
        "(greedy, simulation) combinations with retained_set_optimization_threshold, attractor_candidates_limit, "
        "minimum_simulation_budget, nfvs_size_threshold each drawn from {0,1,2,3,5,default}; networks: cores (many reduced "
        "fixed points, all-variable NFVS, multi-attractor traps) composed with context, many-input networks, expression "
        "networks; non-trivial = a non-default value was used and the node has an own attractor that is not a fixed point or "
        "at least two own attractors; distinct by case hash")
ASSUMPTIONS = ["E6 NFVS reduction theorem (judged by brute force per case)", "E1 clingo (fixed points of the reduced net), E5 AEON FVS"]
CASE_TIMEOUT = {"quick": 40, "thorough": 120}
VALS = [0, 1, 2, 3, 5, None]


ISO_INPUT = 0.05    # share of cases with an additional isolated free input


def budget(tier):
    return 900 if tier == "quick" else 9000


def gen_case(rng, tier, k):
    if k % 4 == 0:
        # many small networks, candidates of the unexpanded root / of every node of the full diagram
        return {"batch": [{"bnet": common.g_tt(rng, rng.randint(3, 4)), "cfg": {}, "ops": [] if rng.random() < 0.6 else [["bfs", 0, None, None]],
                           "queries": [[j, True, True] for j in range(3)]} for _ in range(25)]}
    nmax = 6 if tier == "quick" else 7
    r = rng.random()
    if r < 0.5:
        bnet = common.g_compose(rng, extra_max=max(0, nmax - 4))
    elif r < 0.65:
        ninp = rng.randint(2, 4)
        bnet = "\n".join([f"i{j}, i{j}" for j in range(ninp)] +
                         [f"y{j}, {common.rand_expr(rng, [f'i{q}' for q in range(ninp)] + [f'y{q}' for q in range(2)], 2)}" for j in range(2)])
    else:
        bnet = common.g_mixed(rng, nmax=nmax, p_core=0.0)
    cfg = {}
    for key in ("retained_set_optimization_threshold", "attractor_candidates_limit", "minimum_simulation_budget", "nfvs_size_threshold"):
        v = rng.choice(VALS) if rng.random() < 0.6 else None
        if v is not None:
            cfg[key] = v
    prefix = gen_ops(rng, rng.randint(0, 3), allow_unmodelled=False) if rng.random() < 0.7 else []
    queries = [[rng.randrange(64), rng.random() < 0.5, rng.random() < 0.5] for _ in range(rng.randint(1, 4))]
    return {"bnet": bnet, "cfg": cfg, "ops": prefix, "queries": queries}


_calls = []
_heur = []


def _patch_cand():
    """record the solver calls and the heuristic retained set of candidate computation"""
    import biobalm._sd_attractors.attractor_candidates as ac

    if getattr(ac.compute_fixed_point_reduced_STG, "_c08", False):
        return
    orig = ac.compute_fixed_point_reduced_STG

    def rec(pn, retained_set={}, ensure_subspace={}, avoid_subspaces=[], solution_limit=None):
        r = orig(pn, retained_set, ensure_subspace=ensure_subspace, avoid_subspaces=avoid_subspaces, solution_limit=solution_limit)
        _calls.append((dict(retained_set), solution_limit, [dict(x) for x in r]))
        return r

    rec._c08 = True
    ac.compute_fixed_point_reduced_STG = rec
    orig_h = ac.make_heuristic_retained_set

    def rech(graph, nfvs, avoid_dnf):
        r = orig_h(graph, nfvs, avoid_dnf)
        _heur.append((list(nfvs), dict(r)))
        return r

    ac.make_heuristic_retained_set = rech


def cand_line(sd, ni, i, obs, greedy, result):
    """the `CAND` command replaying this call on the Lean model of the branching logic"""
    node = obs["space"]
    cfg = sd.config
    if _heur:
        nfvs, ret0 = _heur[-1]
    else:
        nfvs, ret0 = [], {}
    avoid = []
    if obs["expanded"]:
        for s in sd.dag.successors(i):
            avoid.append(sd.edge_stable_motif(i, s, reduced=True))
    head = [ni.sp(node), "1" if greedy else "0", str(cfg["retained_set_optimization_threshold"]), str(cfg["attractor_candidates_limit"]),
            ",".join(str(ni.idx[v]) for v in nfvs) or "-", ni.sp(ret0), ",".join(str(ni.idx[v]) for v in ret0) or "-"]
    trans = []
    for ret, lim, ans in _calls:
        trans.append(f"{ni.sp(ret)}/{lim}/" + ",".join(ni.st(node | a) for a in ans))
    return "CAND " + " ".join(head) + " ; " + " ".join(ni.sp(a) for a in avoid) + " ; " + " ".join(trans)


def nfvs_cert(n, deps: str, fixed: set, nfvs: set):
    """rank + two-colouring certificate for `NFVSCERT` (untrusted; Lean checks it): strongly connected
    components of the signed dependency graph without the feedback vertex set, ranked along the
    condensation, coloured by breadth-first search"""
    import networkx as nx

    g = nx.DiGraph()
    keep = [v for v in range(n) if v not in fixed and v not in nfvs]
    g.add_nodes_from(keep)
    signs = {}
    for e in deps.split():
        uv, sg = e.split(":")
        u, v = map(int, uv.split(">"))
        if u in g and v in g:
            g.add_edge(u, v)
            signs.setdefault((u, v), set()).add(sg)
    cond = nx.condensation(g)
    order = list(nx.topological_sort(cond))
    rank = [0] * n
    col = [0] * n
    for pos, c in enumerate(order):
        members = cond.nodes[c]["members"]
        for v in members:
            rank[v] = len(order) - pos
        start = min(members)
        seen = {start: 0}
        todo = [start]
        while todo:
            u = todo.pop()
            for v in g.successors(u):
                if v in members and v not in seen:
                    seen[v] = seen[u] ^ (1 if "-" in signs[(u, v)] else 0)
                    todo.append(v)
        for v, c_ in seen.items():
            col[v] = c_
    return ",".join(map(str, rank)), "".join(map(str, col))


def run_case(case):
    if "batch" in case:
        out = {"fails": [], "diffs": [], "tags": set(), "nontrivial": False, "sig": common.case_hash(case)}
        for c in case["batch"]:
            r = run_case(c)
            for f in r["fails"]:
                f["case"] = c
            out["fails"] += r["fails"]
            out["diffs"] = out.get("diffs", []) + r["diffs"]
            out["tags"] |= set(r["tags"])
            out["nontrivial"] = out["nontrivial"] or r["nontrivial"]
        out["tags"] = sorted(out["tags"] | {"batch"})
        return out
    plain._patch_recorders()
    _patch_cand()
    sd = make_sd(case)
    ni = common.NetInfo(sd.network)
    model_lines = {}
    for op in case["ops"]:
        try:
            plain.apply_op(sd, ni, op)
        except RuntimeError:
            pass
    orc = Oracle(ni)
    res = []
    tags = set()
    nfvs_q = []
    for q, (a, greedy, sim) in enumerate(case["queries"]):
        i = a % len(sd)
        d = sd.node_data(i)
        if d["skipped"]:
            continue
        # query afresh: drop anything cached for this node
        d["attractor_candidates"] = None
        d["attractor_seeds"] = None
        d["attractor_sets"] = None
        obs = node_obs(sd, i)
        # E5: the negative feedback vertex set the computation relies on, checked by Lean against a certificate
        if len(obs["space"]) < ni.n:
            nf = sd.node_percolated_nfvs(i, compute=True)
            nfvs_q.append((q, ni.sp(obs["space"]), [ni.idx[v] for v in nf], {ni.idx[v] for v in obs["space"]}))
        del _calls[:]
        del _heur[:]
        try:
            c = sd.node_attractor_candidates(i, compute=True, greedy_asp_minification=greedy, simulation_minification=sim)
            c = [dict(x) for x in c]
            tags.add("ok")
        except RuntimeError as e:
            if "attractor candidates" in str(e):
                c = None
                tags.add("limit-error")
            else:
                raise
        if not sim:
            # without simulation pruning the result is a function of the solver answers: replay on the model
            model_lines[q] = (cand_line(sd, ni, i, obs, greedy, c), [(ni.sp(r), l) for r, l, _ in _calls],
                              None if c is None else [ni.st(x) for x in c])
        orc.own(q, obs["space"], obs["succ"])
        res.append((q, obs, c, greedy, sim))
    for q, (line, _, _) in model_lines.items():
        orc.ask(("cand", q), line)
    for q, spx, nf, fixed in nfvs_q:
        orc.ask(("deps", q), f"DEPS {spx}")
    orc.run()
    fails = []
    diffs = []
    if nfvs_q:
        o2 = Oracle(ni)
        for q, spx, nf, fixed in nfvs_q:
            ranks, cols = nfvs_cert(ni.n, orc.get(("deps", q)), fixed, set(nf))
            o2.ask(q, f"NFVSCERT {spx} {','.join(map(str, nf)) or '-'} {ranks} {cols}")
        o2.run()
        for q, spx, nf, fixed in nfvs_q:
            if o2.get(q) != "OK":
                fails.append({"kind": "nfvs-not-a-negative-feedback-vertex-set", "sig": {},
                              "detail": f"node space {spx}: node_percolated_nfvs = {[ni.names[v] for v in nf]} leaves a negative cycle ({o2.get(q)}; dependencies {orc.get(('deps', q))})"})
        tags.add("nfvs-cert")
    for q, (line, real_calls, real_res) in model_lines.items():
        rep = orc.get(("cand", q))
        if rep.startswith(("ORACLE-BAD", "HEUR-DIFF", "bad")):
            diffs.append({"stream": "ORACLE reduced-STG solver / heuristic retained set", "reply": rep[:200], "line": line[:300]})
            continue
        out, _, calls = rep.partition(" | ")
        mcalls = [(c.split("/")[0], int(c.split("/")[1])) for c in calls.split()]
        mres = None if out == "err" else ([] if out == "ok " or out == "ok" else out[3:].split(","))
        if mres != real_res:
            diffs.append({"stream": "OBS candidate list before simulation vs Impl.candidatesModel", "impl": real_res, "model": mres, "line": line[:300]})
        elif not (out == "err" and not mcalls) and mcalls != real_calls:
            diffs.append({"stream": "OBS solver call sequence vs Impl.candidatesModel", "impl": real_calls[:8], "model": mcalls[:8], "line": line[:300]})
        tags.add("model-replay")
    nontriv = False
    for q, obs, c, greedy, sim in res:
        own = orc.own_idx(q)
        if c is None:
            continue
        f = judge_candidates(orc, q, obs, c)
        for x in f:
            x["sig"] = {"greedy": greedy, "simulation": sim}
            x["detail"] += f" options greedy={greedy} simulation={sim} cfg={case['cfg']}"
        fails += f
        if len(c) == 0 and own:
            pass
        if len(own) >= 2 or any(len(orc.atts[a]) > 1 for a in own):
            nontriv = True
        tags.add("node:" + ("minimal" if obs["minimal"] else "expanded" if obs["expanded"] else "stub"))
    for k_ in case["cfg"]:
        tags.add("cfg:" + k_)
    return {"fails": fails, "diffs": diffs, "tags": sorted(tags), "nontrivial": nontriv, "sig": common.case_hash(case),
            "sample": {"queries": len(res)}}


def corpus():
    return [
        {"bnet": "\n".join(f"i{k}, i{k}" for k in range(4)) + "\nx, i0 & i1", "cfg": {"retained_set_optimization_threshold": 3},
         "ops": [], "queries": [[0, True, True], [0, True, False]]},
        {"bnet": "x, (x & !y) | (!x & y)\ny, (x & !y) | (!x & y)", "cfg": {}, "ops": [], "queries": [[0, True, True], [0, False, False]]},
        {"bnet": "v0, v0 & v2\nv1, !v3 | v0\nv2, v3\nv3, !v3", "cfg": {"retained_set_optimization_threshold": 1}, "ops": [],
         "queries": [[0, True, False]]},
        {"bnet": "v0, v0\nv1, !v0\nv2, !v4 | v2\nv3, !v4 | v4\nv4, v4",
         "cfg": {"retained_set_optimization_threshold": 2, "attractor_candidates_limit": 0}, "ops": [], "queries": [[0, True, True]]},
    ]
