"""C16 – serialization and memory reclamation are transparent.

Twin execution: a random history over the whole API is run once untouched and once with pickle
round trips / reclaim_node_data inserted at random points (networks also with a non-alphabetical
declared variable order).  After every operation the return value and the full diagram dump must be
equal; at the end seeds, sets, successor lists, find_node and control output must be equal.
"""
from __future__ import annotations

import pickle

import common
import plain
from attrs import vertex_set_states
from plain import gen_ops, make_sd_ordered

RULE = ("history of 2-8 operations (expansions, skip operations, attractor queries) executed as twins: untouched vs with "
        "pickle/reclaim inserted at random points; 40% of the networks declare their variables in a non-alphabetical order, "
        "30% use a non-default configuration; hand-driven grid expansions with raw-candidate queries followed by skip completion; non-trivial = an insertion happened in the middle of the history and a later "
        "operation changed the diagram; distinct by case hash")
ASSUMPTIONS = ["E8: pickle of networkx graphs and AEON text round trip (from_aeon(to_aeon()))"]
CASE_TIMEOUT = {"quick": 60, "thorough": 180}


RARE_CFG = 0.1     # share of cases run under rarely used option values (same results expected)


def budget(tier):
    return 900 if tier == "quick" else 9000


def gen_case(rng, tier, k):
    nmax = 6 if tier == "quick" else 7
    bnet = common.g_compose(rng, extra_max=max(0, nmax - 4)) if rng.random() < 0.35 else common.g_mixed(rng, nmax=nmax, p_core=0.0)
    ops = []
    if rng.random() < 0.3:
        # partial expansion, attractor queries on the expanded part, then skip nodes and more queries
        bnet = common.g_compose(rng, kind="maa", extra_max=max(1, nmax - 3))
        lim = rng.randint(2, 7)
        ops.append(rng.choice([["bfs", 0, None, lim], ["dfs", 0, None, lim], ["min", 0, lim, False], ["min", 0, None, True],
                               ["bfs", 0, rng.randint(0, 1), None]]))
        for _ in range(rng.randint(1, 4)):
            ops.append([rng.choice(["seedsq", "cands"]), rng.randrange(64)])
        ops.append(["skiprem"])
        for _ in range(rng.randint(1, 4)):
            ops.append([rng.choice(["seedsq", "setsq"]), rng.randrange(64)])
    elif rng.random() < 0.45:
        # hand-driven partial expansion of a grid-shaped lattice, attractor search in the expanded part,
        # skip completion, more attractor queries (skip nodes then rely on answers computed earlier)
        bnet = common.g_chains(rng, total_max=nmax + 1, kind=rng.choice(["maa", "burst"]))
        ops.append(["frontier", rng.randrange(1 << 30), rng.randint(3, 14), rng.choice([0.0, 0.2, 0.3]), rng.choice([0.0, 0.3])])
        for _ in range(rng.choice([0, 0, 1, 2, 3])):
            ops.append(["rawcands", rng.randrange(64)])
        if rng.random() < 0.35:
            ops.append(["rawcands", "all"])
        ops.append(["expseeds"] if rng.random() < 0.7 else ["seedsq", rng.randrange(64)])
        ops.append(["skiprem"])
        for _ in range(rng.randint(0, 3)):
            ops.append([rng.choice(["seedsq", "setsq"]), rng.randrange(64)])
    else:
        for _ in range(rng.randint(2, 8)):
            if rng.random() < 0.3:
                ops.append([rng.choice(["seedsq", "cands", "setsq"]), rng.randrange(64)])
            else:
                ops += gen_ops(rng, 1, allow_skip=True, allow_unmodelled=True)
    ins = sorted(set(rng.randrange(len(ops) + 1) for _ in range(rng.randint(1, 3))))
    if ["skiprem"] in ops and rng.random() < 0.6:
        # between the attractor search in the expanded part and the skip completion / the queries after it
        ins = sorted(set(ins + [ops.index(["skiprem"]) + rng.randint(0, 1)]))
    kinds = [rng.choice(["pickle", "reclaim", "reclaim", "pickle+reclaim"]) for _ in ins]
    case = {"bnet": bnet, "ops": ops, "insert_at": ins, "insert_kind": kinds,
            "target": [[rng.randrange(64), rng.randint(0, 1)]], "strategy": rng.choice(["internal", "all"])}
    if rng.random() < 0.4:
        case["order"] = [rng.randrange(64) for _ in range(8)]
    if rng.random() < 0.3:
        case["max_motifs"] = rng.choice([2, 3, 4])
        case["cfg"] = {"nfvs_size_threshold": rng.choice([0, 2000]), "attractor_candidates_limit": rng.choice([2, 100000])}
    return case


def step(sd, ni, op):
    try:
        if op[0] == "setsq":
            r = sd.node_attractor_sets(op[1] % len(sd), compute=True)
            return "sets:" + ";".join(",".join(vertex_set_states(sd, ni, v)) for v in r)
        if op[0] in ("seedsq", "cands"):
            i = op[1] % len(sd)
            if op[0] == "seedsq":
                r = sd.node_attractor_seeds(i, compute=True)
                return "seeds:" + ",".join(ni.st(s) for s in r)
            r = sd.node_attractor_candidates(i, compute=True)
            # candidate lists are observed up to C08's predicate only: after a reclaim the API returns the
            # seeds in their place (documented), so neither the list nor its length is comparable
            # (a spurious candidate may even make one list empty and the other not)
            return "cands"
        ret, _ = plain.apply_op(sd, ni, op)
        return ret
    except RuntimeError as e:
        return "RuntimeError:" + str(e)[:40]
    except KeyError as e:
        return "KeyError"
    except AssertionError:
        return "AssertionError"


def run_case(case):
    from biobalm.control import succession_control

    plain._patch_recorders()
    a = make_sd_ordered(case)
    b = make_sd_ordered(case)
    ni = common.NetInfo(a.network)
    fails = []
    inserted_mid = False
    changed_after = False
    for k, op in enumerate(case["ops"] + [["end"]]):
        if k in case["insert_at"]:
            kind = case["insert_kind"][case["insert_at"].index(k)]
            if "reclaim" in kind:
                b.reclaim_node_data()
            if "pickle" in kind:
                b = pickle.loads(pickle.dumps(b))
            if 0 < k:
                inserted_mid = True
        if op[0] == "end":
            break
        before = common.dump_sd(a, ni)
        ra, rb = step(a, ni, op), step(b, ni, op)
        da, db = common.dump_sd(a, ni), common.dump_sd(b, common.NetInfo(b.network))
        if inserted_mid and da != before:
            changed_after = True
        if ra != rb:
            fails.append({"kind": "return-value-differs", "sig": {"op": op[0]}, "detail": f"op{k}:{op}: untouched {ra[:120]} / with pickle-reclaim {rb[:120]}"})
            break
        if da != db:
            fails.append({"kind": "diagram-differs", "sig": {"op": op[0]}, "detail": f"after op{k}:{op}: untouched {da[:300]} / with pickle-reclaim {db[:300]}"})
            break
    if not fails:
        if a.network.variable_names() != b.network.variable_names():
            fails.append({"kind": "variable-order-differs", "sig": {}, "detail": f"{a.network.variable_names()} / {b.network.variable_names()}"})
        for i in a.node_ids():
            sp = a.node_data(i)["space"]
            if b.find_node(sp) != i:
                fails.append({"kind": "find-node-differs", "sig": {}, "detail": f"node {i} {sp}: find_node on the twin gives {b.find_node(sp)}"})
                break
            ra, rb = step(a, ni, ["seedsq", i]), step(b, ni, ["seedsq", i])
            if ra != rb:
                fails.append({"kind": "seeds-differ", "sig": {}, "detail": f"node {i}: {ra[:150]} / {rb[:150]}"})
                break
            ra, rb = step(a, ni, ["setsq", i]), step(b, ni, ["setsq", i])
            if ra != rb:
                fails.append({"kind": "sets-differ", "sig": {}, "detail": f"node {i}: {ra[:150]} / {rb[:150]}"})
                break
        if not fails:
            t = plain.resolve_target(case["target"], ni)
            def ctl(sd):
                try:
                    return [(iv.succession, iv.control, iv.successful)
                            for iv in succession_control(sd, t, strategy=case["strategy"], successful_only=False)]
                except RuntimeError as e:
                    return "RuntimeError:" + str(e)[:40]
            ca, cb = ctl(a), ctl(b)
            if ca != cb:
                fails.append({"kind": "control-differs", "sig": {}, "detail": f"target {t}: {str(ca)[:200]} / {str(cb)[:200]}"})
            elif common.dump_sd(a, ni) != common.dump_sd(b, ni):
                fails.append({"kind": "diagram-differs", "sig": {"op": "control"}, "detail": "after control"})
    tags = ["order:declared" if case.get("order") else "order:alphabetical"] + sorted({"insert:" + k for k in case["insert_kind"]})
    return {"fails": fails, "diffs": [], "tags": tags, "nontrivial": inserted_mid and changed_after, "sig": common.case_hash(case)}


def shrink(case, fail):
    return case


def corpus():
    return [{"bnet": "zeta, alpha & !mid\nalpha, zeta | mid\nmid, mid", "ops": [["bfs", 0, None, 2], ["bfs", 0, None, None]],
             "insert_at": [1], "insert_kind": ["pickle"], "target": [[0, 1]], "strategy": "internal", "order": [2, 0, 1]}]
