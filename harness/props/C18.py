"""C18 – results compose across independent and input-conditioned sub-networks.

(1) Disjoint union: the real code is run on N1, N2 and N1 + N2 (all complete strategies); minimal
trap spaces and attractors (full state sets via node_attractor_sets) of the union must be exactly
the pairwise products of those of the parts, the parts being taken from the Lean semantics
(`minTrapsIn`, `attractors`).  (2) Inputs: for a network with source variables and a valuation v,
the full diagram of N[inputs := v] must be isomorphic to the part of the free-input diagram below
the node of v, with the same attractors.  (3) Published models (repository corpus): attractors found
by build() agree with AEON's own symbolic attractor computation.
"""
from __future__ import annotations

import glob
import itertools
import os

import common
import plain
from attrs import Oracle, vertex_set_states
from plain import make_sd

RULE = ("(1) pairs of small networks (cores with complex attractors, lattice, expression; 2-4 variables each) under a random "
        "complete strategy; (2) networks with 1-3 inputs and a random valuation; (3) repository models with at most 14 (quick) / "
        "22 (thorough) variables; non-trivial = both parts have at least 2 attractors or the product has a complex attractor, "
        "or the conditioned sub-diagram has at least 3 nodes; distinct by case hash")
ASSUMPTIONS = ["E4/E7 AEON symbolic attractor computation (clause 3 compares against it)", "E1, E3, E5, E6 as for C01"]
CASE_TIMEOUT = {"quick": 90, "thorough": 300}
STRATS = ["build", "bfs", "dfs", "block", "scc", "min"]


NAMES = 0.0          # this campaign relies on the names it generates
FREE_INPUTS = 0.0


RARE_CFG = 0.1     # share of cases run under rarely used option values (same results expected)


def budget(tier):
    return 1000 if tier == "quick" else 10000


def gated_core(rng, prefix):
    """a motif-avoidant core one of whose functions is gated by a switch that the core feeds back into: one strongly
    connected component whose own diagram has the motif-avoidant attractor in a *nested* trap space (switch on)"""
    c = rng.choice([x for x in common.cores()["maa"] if x["n"] == 3])
    cn = [f"{prefix}{i}" for i in range(3)]
    f = [common.tt_to_expr(3, c["tt"][i], cn) for i in range(3)]
    k, j = rng.randrange(3), rng.randrange(3)
    x, y = f"{prefix}x", f"{prefix}y"
    f[k] = f"({f[k]}) & {x}" if rng.random() < 0.7 else f"({f[k]}) | !{x}"
    lines = [f"{cn[i]}, {f[i]}" for i in range(3)]
    lines += [f"{x}, {y}", f"{y}, {x} | {cn[j]}" if rng.random() < 0.7 else f"{y}, {x} & {cn[j]}"]
    return "\n".join(lines)


def small_net(rng, prefix):
    r = rng.random()
    if r < 0.12:
        return gated_core(rng, prefix)
    if r < 0.4:
        c = rng.choice(common.cores()[rng.choice(["maa", "multi"])])
        cn = [f"{prefix}{i}" for i in range(c["n"])]
        return "\n".join(common.core_lines(c, cn))
    if r < 0.7:
        return common.g_lattice(rng, rng.randint(2, 4), prefix_name=prefix)
    return common.g_expr(rng, rng.randint(2, 4), depth=2, p_const=0.05, p_src=0.15, prefix_name=prefix)


_models = None


def models():
    global _models
    if _models is None:
        _models = sorted(glob.glob(os.path.join(common.REPO, "models", "bbm-bnet-inputs-true", "*.bnet")))
    return _models


def gen_case(rng, tier, k):
    r = rng.random()
    if r < 0.55:
        cfg = {}
        if rng.random() < 0.4:
            cfg = {"retained_set_optimization_threshold": rng.choice([0, 1, 2, 3]), "minimum_simulation_budget": rng.choice([1, 1000])}
        case = {"kind": "product", "a": small_net(rng, "a"), "b": small_net(rng, "b"), "strategy": rng.choice(STRATS), "cfg": cfg}
        if "ax, ay" in case["a"] and rng.random() < 0.6:
            case["strategy"] = "scc"      # nested motif-avoidant attractor inside one source component
        return case
    if r < 0.93:
        ninp = rng.randint(1, 3)
        body = common.g_mixed(rng, nmax=4 if tier == "quick" else 5, p_core=0.3)
        names = [l.split(",")[0].strip() for l in body.split("\n")]
        lines = body.split("\n")
        for j in range(ninp):
            v = rng.choice(names)
            lines = [l if l.split(",")[0].strip() != v else f"{v}, ({l.split(',', 1)[1].strip()}) {rng.choice(['&', '|'])} {rng.choice(['', '!'])}in{j}" for l in lines]
            lines.append(f"in{j}, in{j}")
        bnet = "\n".join(lines)
        st = rng.choice(["bfs", "build", "block", "scc"])
        if rng.random() < 0.5:
            # the input switches the logic of a module whose variables and wiring stay the same: what the block /
            # component strategies learn under one valuation must not be reused under the other
            bnet = common.g_modulated(rng, focus=rng.random() < 0.6)
            st = rng.choice(["build", "build", "block", "block", "scc", "bfs"])
        return {"kind": "inputs", "bnet": bnet, "valuation": [rng.randint(0, 1) for _ in range(3)], "strategy": st,
                "all_valuations": bnet.startswith("i0, i0") and rng.random() < 0.7}
    return {"kind": "model", "index": rng.randrange(1000)}


def complete(sd, st):
    if st == "build":
        sd.build()
    elif st == "bfs":
        sd.expand_bfs()
    elif st == "dfs":
        sd.expand_dfs()
    elif st == "block":
        sd.expand_block()
    elif st == "scc":
        sd.expand_scc()
    elif st == "min":
        sd.expand_minimal_spaces()


def sem(bnet):
    sd = make_sd({"bnet": bnet})
    ni = common.NetInfo(sd.network)
    o = Oracle(ni)
    o.ask("tt", "TT")
    o.ask("states", "STATES")
    o.run()
    return ni, o


def run_case(case):
    if case["kind"] == "product":
        return run_product(case)
    if case["kind"] == "inputs":
        return run_inputs(case)
    return run_model(case)


def run_product(case):
    nia, oa = sem(case["a"])
    nib, ob = sem(case["b"])
    sd = make_sd({"bnet": case["a"] + "\n" + case["b"], "cfg": case.get("cfg", {})})
    ni = common.NetInfo(sd.network)
    try:
        complete(sd, case["strategy"])
    except RuntimeError:
        return {"fails": [], "diffs": [], "tags": ["limit-error"], "nontrivial": False}
    fails = []
    diffs = []
    # the union text denotes Lean's `prodNet` of the parts (theorems attr_prodNet, attr_prodNet_split):
    # every update function of the union reads only its own part and agrees with the part's function
    _, ou = sem(case["a"] + "\n" + case["b"])
    if ni.names == nia.names + nib.names:
        ust = ou.get("states").split()
        utt = ou.get("tt").split()
        cola = {st: k for k, st in enumerate(oa.get("states").split())}
        colb = {st: k for k, st in enumerate(ob.get("states").split())}
        tta, ttb = oa.get("tt").split(), ob.get("tt").split()
        na = len(nia.names)
        for i in range(len(ni.names)):
            want = "".join((tta[i][cola[st[:na]]] if i < na else ttb[i - na][colb[st[na:]]]) for st in ust)
            if utt[i] != want:
                diffs.append({"stream": "ORACLE union text vs Lean prodNet of the parts", "variable": ni.names[i], "impl": utt[i], "model": want})
                break
    else:
        diffs.append({"stream": "ORACLE union text vs Lean prodNet of the parts", "detail": f"variable order {ni.names}"})
    def comb(sa, sb):
        d = {}
        d.update({nia.names[i]: c for i, c in enumerate(sa)})
        d.update({nib.names[i]: c for i, c in enumerate(sb)})
        return "".join(d[v] for v in ni.names)
    want_min = sorted(comb(x, y) for x in oa.mins for y in ob.mins)
    got_min = sorted(ni.sp(sd.node_data(i)["space"]) for i in sd.minimal_trap_spaces())
    if got_min != want_min:
        fails.append({"kind": "product-minimal-trap-spaces", "sig": {"strategy": case["strategy"]}, "detail": f"union {got_min[:6]} / products {want_min[:6]}"})
    want_att = sorted(sorted(comb(x, y) for x in A for y in B) for A in oa.atts for B in ob.atts)
    got_att = []
    if case["strategy"] != "min":
        for i in sd.expanded_ids():
            for vs in sd.node_attractor_sets(i, compute=True):
                got_att.append(vertex_set_states(sd, ni, vs))
        got_att.sort()
        if case["strategy"] == "scc" and (oa.maa or ob.maa):
            # known finding F6: source-SCC expansion can report a motif-avoidant attractor twice; nothing else is tolerated
            got_att = [list(x) for x in sorted(set(tuple(a) for a in got_att))]
        if got_att != want_att:
            fails.append({"kind": "product-attractors", "sig": {"strategy": case["strategy"]}, "detail":
                          f"union has {len(got_att)} attractors (sizes {sorted(len(a) for a in got_att)[:8]}), products: {len(want_att)} (sizes {sorted(len(a) for a in want_att)[:8]})"})
    nontriv = (len(oa.atts) >= 2 and len(ob.atts) >= 2) or any(len(a) > 1 for a in want_att)
    return {"fails": fails, "diffs": diffs, "tags": ["product", "prodNet-tie", "strategy:" + case["strategy"]], "nontrivial": nontriv, "sig": common.case_hash(case)}


def absdiag(sd, nodes=None):
    def sp(i):
        return tuple(sorted(sd.node_data(i)["space"].items()))
    nodes = set(sd.node_ids()) if nodes is None else nodes
    N = {(sp(i), bool(sd.node_data(i)["expanded"])) for i in nodes}
    E = {(sp(u), sp(v)) for u, v in sd.dag.edges() if u in nodes and v in nodes}
    return N, E


def run_inputs(case):
    if case.get("all_valuations"):
        # every valuation of (at most two) inputs
        out = None
        for bits in itertools.product([0, 1], repeat=2):
            r = run_inputs_one(dict(case, valuation=list(bits) + [0], all_valuations=False))
            if out is None:
                out = r
            else:
                out["fails"] += r["fails"]
                out["nontrivial"] = out["nontrivial"] or r["nontrivial"]
            if r["tags"] == ["inputs:none"]:
                break
        out["sig"] = common.case_hash(case)
        return out
    return run_inputs_one(case)


def run_inputs_one(case):
    import networkx as nx

    sd = make_sd(case)
    ni = common.NetInfo(sd.network)
    rep = common.run_driver([ni.net_line, "INPUTS"])
    inputs = [ni.names[int(x)] for x in rep[1].split()]
    val = {v: case["valuation"][j % len(case["valuation"])] for j, v in enumerate(inputs)}
    if not inputs:
        return {"fails": [], "diffs": [], "tags": ["inputs:none"], "nontrivial": False}
    sd.expand_bfs()
    lines = []
    for l in case["bnet"].split("\n"):
        v = l.split(",")[0].strip()
        lines.append(f"{v}, {'true' if val[v] else 'false'}" if v in val else l)
    sub = make_sd({"bnet": "\n".join(lines), "order": case.get("order")})     # same declared order: states are compared as strings
    sub.expand_bfs()
    fails = []
    from biobalm.space_utils import percolate_space
    node = sd.find_node(percolate_space(sd.symbolic, val))
    if node is None:
        fails.append({"kind": "input-valuation-node-missing", "sig": {}, "detail": f"{val}"})
        return {"fails": fails, "diffs": [], "tags": ["inputs"], "nontrivial": False}
    below = set(nx.descendants(sd.dag, node)) | {node}
    A = absdiag(sd, below)
    B = absdiag(sub)
    if A != B:
        fails.append({"kind": "conditioned-diagram-not-isomorphic", "sig": {}, "detail":
                      f"valuation {val}: nodes only below {sorted(A[0] - B[0])[:2]} only fixed {sorted(B[0] - A[0])[:2]}; edges only below {sorted(A[1] - B[1])[:2]} only fixed {sorted(B[1] - A[1])[:2]}"})
    sb_sets, sa_sets = [], []
    st = case.get("strategy", "bfs")
    if st == "bfs":
        for i in below:
            for vs in sd.node_attractor_sets(i, compute=True):
                sa_sets.append(vertex_set_states(sd, ni, vs))
    else:
        # the attractors of the free-input network as found by another complete strategy, restricted to
        # the input valuation
        sd2 = make_sd(case)
        complete(sd2, st)
        for i in sd2.expanded_ids():
            for vs in sd2.node_attractor_sets(i, compute=True):
                states = vertex_set_states(sd2, ni, vs)
                if all(all(s[ni.idx[v]] == str(b) for v, b in val.items()) for s in states):
                    sa_sets.append(states)
        if st == "scc":
            sa_sets = [list(x) for x in sorted(set(tuple(a) for a in sa_sets))]     # known finding F6 duplicates
    nis = common.NetInfo(sub.network)
    for i in sub.node_ids():
        for vs in sub.node_attractor_sets(i, compute=True):
            sb_sets.append(vertex_set_states(sub, nis, vs))
    if sorted(sa_sets) != sorted(sb_sets):
        fails.append({"kind": "conditioned-attractors-differ", "sig": {}, "detail": f"valuation {val}: {len(sa_sets)} below the node, {len(sb_sets)} in the fixed network"})
    return {"fails": fails, "diffs": [], "tags": ["inputs"], "nontrivial": len(below) >= 3, "sig": common.case_hash(case)}


def run_model(case):
    from biobalm import SuccessionDiagram
    from biodivine_aeon import AsynchronousGraph, Attractors, BooleanNetwork

    ms = models()
    small = []
    for p in ms:
        n = sum(1 for l in open(p) if "," in l and not l.startswith("#") and not l.startswith("targets"))
        if n <= case.get("max_vars", 14):
            small.append(p)
    if not small:
        return {"fails": [], "diffs": [], "tags": ["model:none"], "nontrivial": False}
    path = small[case["index"] % len(small)]
    sd = SuccessionDiagram.from_file(path)
    sd.build()
    g = sd.symbolic
    atts = Attractors.attractors(g)
    ref = sorted(sorted(vertex_set_states(sd, common.NetInfo(sd.network), a.vertices())) for a in atts) if sd.network.variable_count() <= 14 else None
    ni = common.NetInfo(sd.network)
    got = []
    fails = []
    for i in sd.expanded_ids():
        for vs in sd.node_attractor_sets(i, compute=True):
            got.append(vs)
    if len(got) != len(atts):
        fails.append({"kind": "model-attractor-count", "sig": {}, "detail": f"{os.path.basename(path)}: biobalm {len(got)}, AEON {len(atts)}"})
    else:
        for vs in got:
            if not any(vs == a.vertices() for a in atts):
                fails.append({"kind": "model-attractor-set", "sig": {}, "detail": f"{os.path.basename(path)}: an attractor set of biobalm is not an AEON attractor"})
                break
    return {"fails": fails, "diffs": [], "tags": ["model:" + os.path.basename(path)], "nontrivial": len(atts) >= 2, "sig": common.case_hash(case)}
