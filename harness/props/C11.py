"""C11 – percolation computes exactly the logical domain of influence.

Exact equality with the Lean model on random spaces (trap / non-trap / conflicting, fixing constant
and input variables): percolate_space = Sem.perc (the executable least fixed point whose theorems
are percStep_ext, percIter_least, percolate_idem, percIter_trap), percolate_space_strict =
Impl.percStrict (for two iteration orders), percolation_conflicts (both modes), single-node LDOIs
and single drivers; plus the least-fixed-point clauses themselves (idempotence, given values kept).
"""
from __future__ import annotations

import common
from plain import make_sd

RULE = ("random network (expression, truth-table, lattice, networks with constants and inputs), 6 random spaces each "
        "(random partial assignments incl. conflicting ones and ones fixing constant-function variables, trap spaces of the "
        "network, single literals); non-trivial = percolation fixes a variable that was not given or a conflict occurs; "
        "distinct by (network, space)")
ASSUMPTIONS = ["E2: AEON BDD restriction decides constancy on a subspace; E3: AEON Percolation.percolate_subspace"]



ORDER = 0.2      # share of cases with a non-alphabetical declared variable order


def budget(tier):
    return 1200 if tier == "quick" else 12000


def gen_case(rng, tier, k):
    nmax = 6 if tier == "quick" else 8
    r = rng.random()
    if r < 0.3:
        bnet = common.g_lattice(rng, rng.randint(2, nmax))
    elif r < 0.5:
        bnet = common.g_tt(rng, rng.randint(2, min(nmax, 6)))
    else:
        bnet = common.g_expr(rng, rng.randint(2, nmax), depth=rng.randint(1, 3), p_const=0.15, p_src=0.12)
    spaces = []
    for _ in range(6):
        m = rng.random()
        if m < 0.12:
            # a complete assignment (every variable given)
            spaces.append([[j, rng.randint(0, 1)] for j in range(8)])
        elif m < 0.3:
            spaces.append([[rng.randrange(64), rng.randint(0, 1)]])
        else:
            spaces.append([[rng.randrange(64), rng.randint(0, 1)] for _ in range(rng.randint(0, 4))])
    return {"bnet": bnet, "spaces": spaces, "trap_pick": rng.randrange(1 << 20), "target": [[rng.randrange(64), rng.randint(0, 1)] for _ in range(rng.randint(1, 2))]}


def run_case(case):
    from biobalm.space_utils import percolate_space, percolate_space_strict, percolation_conflicts
    from biobalm.drivers import find_single_node_LDOIs, find_single_drivers

    sd = make_sd(case)
    ni = common.NetInfo(sd.network)
    g = sd.symbolic
    traps = common.run_driver([ni.net_line, "TRAPS"])[1].split()
    spaces = []
    for sp in case["spaces"]:
        d = {}
        for i, v in sp:
            d[ni.names[i % ni.n]] = v
        spaces.append(d)
    if traps:
        spaces.append(ni.unsp(traps[case["trap_pick"] % len(traps)]))
    lines = [ni.net_line, "CONSTFN"]
    obs = []
    rev = " ".join(str(i) for i in reversed(range(ni.n)))
    for d in spaces:
        s = ni.sp(d)
        p = percolate_space(g, d)
        ps = percolate_space_strict(g, d)
        lines += [f"PERC {s}", f"STRICT {s}", f"STRICT {s} {rev}", f"PERC {ni.sp(p)}"]
        obs += [("percolate_space", d, ni.sp(p)), ("percolate_space_strict", d, ni.sp(ps)), ("percolate_space_strict(order-reversed model)", d, ni.sp(ps)),
                ("idempotence", d, ni.sp(p))]
        c1 = sorted(ni.idx[v] for v in percolation_conflicts(g, d, strict_percolation=True))
        c2 = sorted(ni.idx[v] for v in percolation_conflicts(g, d, strict_percolation=False))
        lines += [f"CONFLICTS {ni.sp(ps)}", f"CONFLICTS {ni.sp(p)}"]
        obs += [("percolation_conflicts(strict)", d, " ".join(map(str, c1))), ("percolation_conflicts(non-strict)", d, " ".join(map(str, c2)))]
    ld = find_single_node_LDOIs(g)
    for v in ni.names:
        for b in (0, 1):
            s = ni.sp({v: b})
            lines.append(f"STRICT {s}")
            obs.append((f"LDOI({v}={b})", {v: b}, ni.sp(ld[(v, b)]) if (v, b) in ld else "absent"))
    rep = common.run_driver(lines)
    constfn = set(int(x) for x in rep[1].split())
    fails = []
    nontriv = False
    for (what, d, real), model in zip(obs, rep[2:]):
        if real == "absent":
            v = what[5:].split("=")[0]
            if ni.idx[v] not in constfn:
                fails.append({"kind": "ldoi-missing", "sig": {}, "detail": f"{what} missing although the function is not constant"})
            continue
        if what.startswith("LDOI") and ni.idx[what[5:].split("=")[0]] in constfn:
            fails.append({"kind": "ldoi-for-constant", "sig": {}, "detail": what})
            continue
        if real != model:
            fails.append({"kind": "percolation", "sig": {"fn": what.split("(")[0]}, "detail": f"{what} of {d}: real {real}, least fixed point / model {model}"})
        if what == "percolate_space":
            given = ni.sp(d)
            if any(gc != "-" and gc != rc for gc, rc in zip(given, real)):
                fails.append({"kind": "given-value-not-kept", "sig": {}, "detail": f"{d} -> {real}"})
            if any(gc == "-" and rc != "-" for gc, rc in zip(given, real)):
                nontriv = True
    # single drivers are consistent with the LDOIs
    tgt = {}
    for i, v in case["target"]:
        tgt[ni.names[i % ni.n]] = v
    drv = find_single_drivers(tgt, g)
    # the same query with the caller's own table: the answer must be the same and the table must come back unchanged
    import copy as _copy
    ld_before = _copy.deepcopy(ld)
    tgt_before = dict(tgt)
    drv2 = find_single_drivers(tgt, g, ld)
    if drv2 != drv:
        fails.append({"kind": "single-drivers", "sig": {"what": "with-table"}, "detail": f"target {tgt}: with the caller's LDOI table {sorted(drv2)}, without {sorted(drv)}"})
    if ld != ld_before or tgt != tgt_before:
        bad = sorted(k for k in ld_before if ld.get(k) != ld_before[k])[:3]
        fails.append({"kind": "argument-mutated", "sig": {"fn": "find_single_drivers"}, "detail": f"the caller's LDOI table / target changed during the call: entries {bad}"})
    want = {fix for fix, l in ld.items() if all((l | {fix[0]: fix[1]}).get(k) == v for k, v in tgt.items())}
    if drv != want:
        fails.append({"kind": "single-drivers", "sig": {}, "detail": f"target {tgt}: {sorted(drv)} vs from LDOIs {sorted(want)}"})
    return {"fails": fails, "diffs": [], "tags": [], "nontrivial": nontriv, "sig": common.case_hash(case)}
