"""C13 – every operation terminates within bounded work.

Every public operation of random histories (construction, all expansion strategies, candidate /
seed / set queries on expanded and unexpanded nodes with tiny and default simulation budgets,
skipping, control) runs under the work meter: executed loop back-edges inside biobalm
(sys.monitoring), aborted when they exceed the bound W(n, d, budget) = 20 (n+2)^2 (d+2)^2 2^n +
16 max(1024, budget n)(n+1) 2^n, n = variables, d = diagram size after the call.  Exceeding the
bound, or the wall-clock guard, is a failure.  The Lean side proves termination of the model's
loops (fuel sufficiency of BFS, percolation in n rounds, the repaired attractor test from a pass
specification).
"""
from __future__ import annotations

import common
import plain
import workmeter
from plain import gen_ops, make_sd

RULE = ("histories of 2-8 operations over the whole API on networks composed around motif-avoidant / multi-attractor cores "
        "(60%) and expression/lattice networks, minimum_simulation_budget in {1, 5, 50, default}, candidate queries on stubs, "
        "skip nodes; each call metered; non-trivial = some call executed more than 1000 loop back-edges; distinct by case hash")
ASSUMPTIONS = ["foreign-engine calls (clingo, AEON) are assumed to return; only loops inside biobalm are metered"]
CASE_TIMEOUT = {"quick": 150, "thorough": 400}


def budget(tier):
    return 800 if tier == "quick" else 8000


def gen_case(rng, tier, k):
    nmax = 5 if tier == "quick" else 6
    bnet = common.g_compose(rng, extra_max=max(0, nmax - 3)) if rng.random() < 0.6 else common.g_mixed(rng, nmax=nmax, p_core=0.0)
    ops = []
    for _ in range(rng.randint(2, 8)):
        r = rng.random()
        if r < 0.35:
            ops.append([rng.choice(["seedsq", "cands", "setsq", "seedsfb"]), rng.randrange(64)])
        elif r < 0.45:
            ops.append(["build"])
        elif r < 0.55:
            ops.append(rng.choice([["blockx", True, None, True, False], ["scc", True], ["blockx", True, None, True, True]]))
        elif r < 0.62:
            ops.append(["control", [[rng.randrange(64), rng.randint(0, 1)]], rng.choice(["internal", "all"])])
        else:
            ops += gen_ops(rng, 1, allow_skip=True, allow_unmodelled=True)
    if rng.random() < 0.15:
        # strategies called on a diagram that already holds skip nodes (several independent modules: source SCCs,
        # with or without stable motifs of their own)
        bnet = common.g_union(rng, nmax=nmax + 1, nested=rng.random() < 0.5) if rng.random() < 0.4 else common.g_oscillators(rng, nmax + 1)
        first = rng.choice([["skipmin", 0], ["skiprem"], ["skipmin", 0], ["skiprem"], ["min", 0, None, True], ["bfs", 0, 1, None]])
        ops = [first] + ([rng.choice([["skiprem"], ["skipmin", rng.randrange(64)]])] if first[0] in ("min", "bfs") else []) + [
            rng.choice([["scc", True], ["scc", False], ["scc", True], ["blockx", True, None, True, False], ["aseeds", None], ["build"]])] + ops[:2]
    budget_ = rng.choice([0, 1, 5, 50, 1000, 1000, 100000])
    if budget_ > 1000:
        # large budgets only on very small networks (the work bound grows with the budget)
        bnet = common.g_tt(rng, rng.randint(2, 3)) if rng.random() < 0.5 else "A, B\nB, A"
        ops = [op for op in ops if op[0] in ("seedsq", "cands", "setsq", "bfs", "one", "build")] or [["cands", 0]]
    cfg = {"minimum_simulation_budget": budget_}
    if rng.random() < 0.25:
        # rarely used values of the other options (zero included): every one of them selects another code path
        for key, vals in (("nfvs_size_threshold", [0, 1, 3]), ("retained_set_optimization_threshold", [0, 1, 2]),
                          ("attractor_candidates_limit", [1, 2, 5, 50]), ("max_motifs_per_node", [1, 2, 4])):
            if rng.random() < 0.4:
                cfg[key] = rng.choice(vals)
    case = {"bnet": bnet, "ops": ops, "cfg": cfg}
    if rng.random() < 0.05:
        fam = rng.choice([["c_", "_c_", "c[", "c]"], ["a-b", "a+b", "a_b", "_a_b"], ["x.y", "x;y", "x~y"], ["q[1]", "q{1}", "q 1"]])
        case["weird_names"] = fam[:rng.randint(2, len(fam))]
    return case


def wbound(n, d, budget):
    return 20 * (n + 2) ** 2 * (d + 2) ** 2 * 2 ** n + 16 * max(1024, budget * n) * (n + 1) * 2 ** n


def run_case(case):
    from biobalm.control import succession_control

    plain._patch_recorders()
    m = workmeter.meter()
    fails, tags = [], set()
    budget_ = case["cfg"]["minimum_simulation_budget"]
    holder = {}

    def mk():
        if case.get("weird_names"):
            # variable names that sanitise to the same identifier (two and more clashes): `sanitize_network_names` and the
            # construction on its result must terminate
            from biobalm import SuccessionDiagram
            from biobalm.petri_net_translation import sanitize_network_names
            from biodivine_aeon import BooleanNetwork
            bn = BooleanNetwork.from_bnet(case["bnet"])
            for v, nm in zip(list(bn.variable_names()), case["weird_names"]):
                bn.set_variable_name(v, nm)
            cfg = SuccessionDiagram.default_config()
            cfg.update(case.get("cfg", {}))
            holder["sd"] = SuccessionDiagram(sanitize_network_names(bn), cfg)
            return
        holder["sd"] = make_sd(case)

    m.run(None, mk)
    sd = holder["sd"]
    ni = common.NetInfo(sd.network)
    maxratio, maxcount = 0.0, m.count
    for k, op in enumerate(case["ops"]):
        def call():
            if op[0] == "setsq":
                sd.node_attractor_sets(op[1] % len(sd), compute=True)
            elif op[0] == "seedsfb":
                sd.node_attractor_seeds(op[1] % len(sd), compute=True, symbolic_fallback=True)
            elif op[0] == "build":
                sd.build()
            elif op[0] == "control":
                succession_control(sd, plain.resolve_target(op[1], ni), strategy=op[2])
            else:
                plain.apply_op(sd, ni, op)
        # the diagram can grow during the call; the bound uses the largest possible diagram of a call
        # that adds at most 3^n nodes, evaluated after the call; while running, a loose cap applies
        cap = wbound(ni.n, len(sd), budget_)
        try:
            m.run(cap, call, bound_fn=lambda: wbound(ni.n, len(sd), budget_))
        except workmeter.WorkExceeded as e:
            fails.append({"kind": "work-bound-exceeded", "sig": {"op": op[0]}, "detail": f"op{k}:{op} exceeded {cap} loop back-edges in {e}"})
            break
        except RuntimeError:
            pass
        b = wbound(ni.n, len(sd), budget_)
        if m.count > b:
            fails.append({"kind": "work-bound-exceeded", "sig": {"op": op[0]}, "detail": f"op{k}:{op}: {m.count} loop back-edges, bound {b} (n={ni.n}, d={len(sd)})"})
            break
        maxratio = max(maxratio, m.count / b)
        maxcount = max(maxcount, m.count)
        tags.add("op:" + op[0])
    return {"fails": fails, "diffs": [], "tags": sorted(tags), "nontrivial": maxcount > 1000, "sig": common.case_hash(case),
            "metrics": {"max_work_over_bound": round(maxratio, 6), "max_back_edges": maxcount},
            "sample": {"max_work_over_bound": round(maxratio, 6), "max_back_edges": maxcount}}


def corpus():
    f5 = ("c0, (c0 & !c1 & !c2) | (!c0 & c1 & !c2) | (c0 & !c1 & c2) | (!c0 & c1 & c2)\n"
          "c1, (!c0 & !c1 & !c2) | (c0 & c1 & !c2) | (!c0 & !c1 & c2) | (c0 & c1 & c2)\n"
          "c2, (!c0 & c1 & !c2) | (!c0 & c1 & c2)\n"
          "x0, (x1 & !(x0 | x1)) | (!x1 & (x0 | x1))\nx1, (!c2 | !x0) & !x0")
    return [{"bnet": f5, "ops": [["skiprem"], ["seedsq", 0]], "cfg": {"minimum_simulation_budget": 1000}},
            {"bnet": f5, "ops": [["build"]], "cfg": {"minimum_simulation_budget": 1000}}]
