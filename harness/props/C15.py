"""C15 – early stops and limit errors leave a valid, resumable diagram.

Histories with every kind of limit (size, level, stack, stable motifs per node) and solver failures
injected at the k-th foreign call. After every operation (also after an error): Lean judge of the
strict invariant on the real diagram; contract of the return value (True = complete below the
start node; a size-limited run returns False only if a stub remains); the real state is compared
literally with the model (which implements the same limit tests); finally the history is resumed
with an unrestricted BFS and compared with a fresh uninterrupted run.
"""
from __future__ import annotations

import common
from plain import LIMS, SMALL, gen_ops, run_plain_history, shrink_history

RULE = ("random plain histories where every operation carries a size/level/stack limit, max_motifs_per_node in "
        "{0,1,2,3,4,default} and, in 40% of the cases, a solver failure injected at the k-th foreign call of one operation; "
        "non-trivial = some operation stopped early (returned False, raised the motif-limit error or the injected failure) "
        "and a later operation changed the diagram; distinct by (network, history) hash")
ASSUMPTIONS = [
    "E1, E3 as for C04; an injected failure is a RuntimeError raised instead of calling the solver",
]


def budget(tier):
    return 1200 if tier == "quick" else 12000


def gen_case(rng, tier, k):
    nmax = 6 if tier == "quick" else 7
    bnet = common.g_mixed(rng, nmax=nmax, p_core=0.25)
    mm = rng.choice([100000] * 4 + [0, 1, 2, 3, 4])
    nops = rng.randint(2, 7 if tier == "quick" else 12)
    ops = gen_ops(rng, nops, allow_skip=False)
    if rng.random() < 0.15:
        # size-limited block expansion with the source-node shortcut (inputs at the root, variables that become inputs
        # inside a trap space): the limit can hit while a node's valuations are being attached
        bnet = common.g_idtrap(rng, nmax) if rng.random() < 0.5 else common.free_inputs(rng, common.g_chains(rng, total_max=nmax, kind="input")) if rng.random() < 0.3 else common.g_chains(rng, total_max=nmax, kind="input")
        ops = ops[:rng.randint(0, 2)] + [["blockx", rng.random() < 0.5, rng.choice([1, 2, 3, 4, 5, 6, 8]), True, False]] + ops[2:4]
    if rng.random() < 0.12:
        # attractor-seed expansion under a size limit: True must mean that every minimal trap space has been expanded
        bnet = common.g_union(rng, nmax) if rng.random() < 0.5 else bnet
        ops = ops[:rng.randint(0, 1)] + [["aseeds", rng.randint(1, 8)]] + ops[1:3]
    if rng.random() < 0.4:
        j = rng.randrange(len(ops))
        ops[j] = ops[j] + [{"fail_at": rng.randint(1, 4)}]
    if mm < 100000 and rng.random() < 0.6:
        # the limit is relaxed on the same diagram after (possibly) hitting it
        ops.insert(rng.randint(1, len(ops)), ["setmm", rng.choice([100000, 100000, mm + 1, mm + 2])])
    # "resume = uninterrupted run" is claimed for bfs/dfs/minimal-space/attractor-seed/target expansion only: a diagram that
    # went through the source-node shortcut has valuation children instead of stable-motif children by design
    shortcut = any(op[0] == "blockx" and op[3] for op in ops)
    case = {"bnet": bnet, "max_motifs": mm, "ops": ops, "final_full": not shortcut, "judge_contract": True,
            "check": "weak" if shortcut else True, "judge_leaves_after": ["aseeds"]}
    if rng.random() < 0.15:
        # the attractor query under a resource limit on an early-stopped diagram: an error caches nothing, a relaxed
        # repeat gives the exact answer, an answer without error is exact
        case["attr_limit"] = {"limit": rng.choice([1, 2, 3]), "threshold": rng.choice([1000, 1000, 4, 2]), "nodes": [rng.randrange(64) for _ in range(3)]}
        if rng.random() < 0.6:
            case["bnet"] = common.g_compose(rng, kind=rng.choice(["maa", "multi"]), extra_max=2)
            case["ops"] = [rng.choice([["bfs", 0, 0, None], ["bfs", 0, 1, None], ["dfs", 0, 0, None], ["one", 0]])]
    return case


def attr_limit_check(case):
    """C15, attractor clause: queries under `attractor_candidates_limit` on the diagram the history leaves behind"""
    import plain
    from attrs import Oracle, node_obs, judge_seeds_exact

    al = case["attr_limit"]
    sd = plain.make_sd(dict(case, cfg={"attractor_candidates_limit": al["limit"], "retained_set_optimization_threshold": al["threshold"]}))
    ni = common.NetInfo(sd.network)
    for op in case["ops"]:
        if op[0] in ("setmm", "pickle") or (isinstance(op[-1], dict) and "fail_at" in op[-1]):
            continue
        try:
            plain.apply_op(sd, ni, op)
        except RuntimeError:
            pass
    fails = []
    orc = Oracle(ni)
    results = []
    for a in al["nodes"]:
        i = a % len(sd)
        d = sd.node_data(i)
        if d["skipped"]:
            continue
        err = False
        try:
            seeds = [dict(x) for x in sd.node_attractor_seeds(i, compute=True)]
        except RuntimeError:
            err = True
            if d["attractor_seeds"] is not None or d["attractor_sets"] is not None:
                fails.append({"kind": "cached-after-limit-error", "sig": {}, "detail": f"node {i}: seeds/sets cached although the candidate limit raised an error"})
            sd.config["attractor_candidates_limit"] = 100000
            sd.config["retained_set_optimization_threshold"] = 1000
            try:
                seeds = [dict(x) for x in sd.node_attractor_seeds(i, compute=True)]
            except RuntimeError:
                seeds = None
            sd.config["attractor_candidates_limit"] = al["limit"]
            sd.config["retained_set_optimization_threshold"] = al["threshold"]
        if seeds is None:
            continue
        obs = node_obs(sd, i)
        orc.own((i, err), obs["space"], obs["succ"])
        results.append(((i, err), obs, seeds))
    if results:
        orc.run()
        for key, obs, seeds in results:
            f, _ = judge_seeds_exact(orc, key, obs, seeds, what="seeds under a candidate limit" + (" (after the error, limit relaxed)" if key[1] else ""))
            for x in f:
                x.setdefault("sig", {})["after_error"] = key[1]
            fails += f
    return fails


def run_case(case):
    if case.get("attr_limit"):
        r = run_plain_history(case)
        r["fails"] += attr_limit_check(case)
        r["tags"].append("attractor-query-under-candidate-limit")
        early = [t for t in r["tags"] if t.startswith("early-stop") or t in ("motif-limit-error", "injected-solver-failure")]
        r["nontrivial"] = bool(early) and r["nontrivial"]
        return r
    r = run_plain_history(case)
    early = [t for t in r["tags"] if t.startswith("early-stop") or t in ("motif-limit-error", "injected-solver-failure")]
    r["nontrivial"] = bool(early) and r["nontrivial"]
    return r


def shrink(case, fail):
    return shrink_history("C15", case, fail)


def corpus():
    return [
        {"bnet": "a, b\nb, a & c\nc, !a | b", "max_motifs": 100000, "judge_contract": True,
         "ops": [["bfs", 0, None, None], ["bfs", 0, None, 1], ["dfs", 0, None, 1], ["min", 0, 1, False], ["target", [[0, 1]], 1]],
         "final_full": True},
        {"bnet": "a, a\nb, b\nc, a & b", "max_motifs": 0, "judge_contract": True,
         "ops": [["one", 0], ["bfs", 0, None, None]], "final_full": True},
    ]
