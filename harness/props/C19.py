"""C19 – results are reproducible.

The same case (network, configuration, history, seed queries, control query) is executed in fresh
interpreters under PYTHONHASHSEED in {0, 1, 2, 3, random}, and in a process that first built and
queried unrelated diagrams; node ids, spaces, edges (also their insertion order), motifs, depths,
seeds, interventions (incl. their printed form) and the summary must be literally identical.  The
Lean side proves the order-independence of the logic that makes this possible (key injectivity
for every dictionary order, findDrivers for every pool order).
"""
from __future__ import annotations

import json
import os
import subprocess
import sys

import common
from plain import gen_ops

RULE = ("random case (network incl. cores with complex attractors and networks with declared variable order, history of 1-5 "
        "operations incl. build/skip, seeds of all expanded nodes, one control query with strategy internal/all), executed in "
        "6 fresh interpreters (PYTHONHASHSEED 0, 1, 2, 4, random, and 3 after three unrelated diagrams with complex attractors); cases are run in batches of 8 per interpreter; non-trivial = the case has a "
        "complex attractor with at least two candidates, or a step with two driver sets, or at least 4 nodes; distinct by case hash")
ASSUMPTIONS = ["E8: CPython random.Random(123), dict insertion order, networkx adjacency order", "clingo enumeration order is a function of the program text"]
CASE_TIMEOUT = {"quick": 120, "thorough": 300}
DECOY = 0.0        # every observation runs in fresh interpreters with their own warm-up diagrams
WORKER = os.path.join(common.VERIF, "harness", "c19_worker.py")


NAMES = 0.0          # this campaign relies on the names it generates
FREE_INPUTS = 0.0


def budget(tier):
    return 150 if tier == "quick" else 1500


def gen_case(rng, tier, k):
    return {"batch": [gen_one(rng, tier) for _ in range(8)]}


def gen_one(rng, tier):
    nmax = 6 if tier == "quick" else 7
    if rng.random() < 0.15:
        # XOR-like triggers: a motif with two minimal driver sets over the same variables
        extra = rng.choice(["", "\nZ, Z & C", "\nZ, !P | Z"])
        gate = rng.choice(["(P & !Q) | (!P & Q)", "(P & Q) | (!P & !Q)"])
        return {"bnet": f"P, Q\nQ, P\nC, E | {gate}\nE, C" + extra, "ops": [],
                "target": [[0, 1], [1, 1]] if rng.random() < 0.7 else [[0, 1]], "strategy": "all"}
    bnet = common.g_compose(rng, extra_max=max(0, nmax - 4)) if rng.random() < 0.45 else common.g_mixed(rng, nmax=nmax, p_core=0.0)
    ops = []
    for _ in range(rng.randint(1, 5)):
        r = rng.random()
        if r < 0.2:
            ops.append(["build"])
        else:
            ops += gen_ops(rng, 1, allow_skip=True, allow_unmodelled=True)
    case = {"bnet": bnet, "ops": ops, "target": [[rng.randrange(64), rng.randint(0, 1)] for _ in range(rng.randint(1, 2))],
            "strategy": rng.choice(["internal", "all"])}
    if rng.random() < 0.3:
        case["order"] = [rng.randrange(64) for _ in range(8)]
    return case


def run_in(case, hashseed, warmup=0):
    env = dict(os.environ, PYTHONHASHSEED=str(hashseed), BALM_REPO=common.REPO)
    c = dict(case, warmup=warmup)
    p = subprocess.run([sys.executable, WORKER], input=json.dumps(c), capture_output=True, text=True, env=env, timeout=400)
    if p.returncode != 0:
        raise RuntimeError("worker failed: " + p.stderr[-300:])
    return json.loads(p.stdout.strip().split("\n")[-1])


def run_case(case):
    if "batch" not in case:
        case = {"batch": [case]}
    runs = [("hashseed=0", run_in(case, 0)), ("hashseed=1", run_in(case, 1)), ("hashseed=2", run_in(case, 2)),
            ("hashseed=4", run_in(case, 4)), ("hashseed=random", run_in(case, "random")),
            ("hashseed=3 after 3 unrelated diagrams", run_in(case, 3, warmup=3))]
    fails = []
    nontriv = False
    for j, sub in enumerate(case["batch"]):
        base = runs[0][1][j]
        if base.get("timeout"):
            continue
        for name, outs in runs[1:]:
            o = outs[j]
            if o.get("timeout"):
                continue
            bad = [key for key in ("rets", "dump", "edges_order", "seeds", "control", "summary") if o[key] != base[key]]
            if bad:
                key = bad[0]
                fails.append({"kind": "not-reproducible", "sig": {"what": key}, "case": sub, "detail":
                              f"{key} differs between hashseed=0 and {name}: {json.dumps(base[key])[:200]} / {json.dumps(o[key])[:200]}"})
                break
        nn = len(base["dump"].split(" | ")[0].split())
        multi = isinstance(base["control"], list) and any(len(c) >= 2 for iv in base["control"] for c in iv[1])
        nontriv = nontriv or nn >= 4 or multi
    return {"fails": fails, "diffs": [], "tags": ["batch"], "nontrivial": nontriv, "sig": common.case_hash(case)}


def corpus():
    return [{"bnet": "c0, (!c0 & c1 & !c2) | (c0 & c1 & !c2) | (c0 & !c1 & c2) | (!c0 & c1 & c2)\nc1, (c0 & !c1 & !c2) | (c0 & !c1 & c2) | (!c0 & c1 & c2)\n"
                     "c2, (!c0 & c1 & !c2) | (c0 & !c1 & c2) | (!c0 & c1 & c2) | (c0 & c1 & c2)\nx0, x0 | (c0)",
             "ops": [["min", 0, 8, True]], "target": [[3, 1]], "strategy": "all"},
            {"bnet": "P, P\nQ, Q\nT, (P & !Q) | (!P & Q) | T", "ops": [], "target": [[2, 1]], "strategy": "all"}]
