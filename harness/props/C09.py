"""C09 – the trap-space solver returns exactly the requested trap spaces.

Every combination of problem (min/max/fix) x direction x ensure_subspace x avoid_subspaces (nested,
empty, overlapping) x source list x solution limit is compared with `Impl.solveRef` (Lean: filter of
the exhaustive trap-space list); the reduced-STG solver with `Impl.reducedFixedPoints`; a limit
must return a duplicate-free sub-list of length min(max(1,limit), total).
"""
from __future__ import annotations

import common
from plain import make_sd

RULE = ("random network (4%: one wide update function with a shared parity sub-function), 5 random solver queries (trappist min/max/fix, reverse_time, ensure in {empty, random, trap}, 0-3 "
        "avoid subspaces incl. nested ones and the empty one, source list empty/auto/explicit, limit in {None,0,1,2,5}) and 3 "
        "reduced-STG queries (random retained set, ensure, avoid); both on the global net and on a net restricted to a node; "
        "non-trivial = the reference answer has at least two elements or a constraint excludes a trap space; distinct by case hash")
ASSUMPTIONS = ["E1: clingo enumerates exactly the subset-maximal (domRec, dom-mod 3) / subset-minimal (dom-mod 5) models of the emitted program"]


def budget(tier):
    return 900 if tier == "quick" else 9000


def rand_space(rng, k=3):
    return [[rng.randrange(64), rng.randint(0, 1)] for _ in range(rng.randint(0, k))]


def gen_case(rng, tier, k):
    nmax = 5 if tier == "quick" else 7
    bnet = common.g_mixed(rng, nmax=nmax, p_core=0.2)
    if rng.random() < 0.04:
        bnet = common.g_wide(rng, k=7)        # a large BDD with shared sub-graphs reaches the Petri-net encoder
    qs = []
    for _ in range(5):
        av = [rand_space(rng, 3) for _ in range(rng.choice([0, 0, 1, 2, 3]))]
        if av and rng.random() < 0.4:
            av.append(av[0] + rand_space(rng, 2))       # nested
        if rng.random() < 0.08:
            av.append([])
        qs.append({"problem": rng.choice(["min", "max", "fix"]), "rev": rng.random() < 0.3,
                   "ens": rand_space(rng, 2) if rng.random() < 0.6 else [], "ens_trap": rng.random() < 0.3,
                   "avoid": av, "srcs": rng.choice(["none", "auto", "empty", "explicit"]),
                   "limit": rng.choice([None, None, 0, 1, 2, 5]), "pick": rng.randrange(1 << 20)})
    rq = [{"ret": rand_space(rng, 3), "ens": rand_space(rng, 2) if rng.random() < 0.4 else [],
           "avoid": [rand_space(rng, 3) for _ in range(rng.choice([0, 0, 1, 2]))],
           "limit": rng.choice([None, None, 0, 1, 2, 5])} for _ in range(3)]
    return {"bnet": bnet, "queries": qs, "reduced": rq}


def mk(sp, ni):
    d = {}
    for i, v in sp:
        d[ni.names[i % ni.n]] = v
    return d


_added = []


def _patch_control():
    """record every rule string handed to clingo by the trap-space encoder"""
    import biobalm.trappist_core as tc

    if getattr(tc.Control, "_balm_rec", False):
        return
    Orig = tc.Control

    class Rec(Orig):
        _balm_rec = True

        def add(self, *a, **k):
            _added.append(a[-1] if a else k.get("program"))
            return super().add(*a, **k)

    tc.Control = Rec


def canon_rule(rule, ni):
    """canonical form of an emitted rule: places as p<i>/n<i>, atoms sorted"""
    import re

    def place(m):
        return ("p" if m.group(1) == "1" else "n") + str(ni.idx[m.group(2)])

    r = re.sub(r"b([01])_([A-Za-z0-9_]+)", place, rule.strip())
    assert r.endswith("."), rule
    r = r[:-1]
    if r == "#false" or r.strip() == ":-":
        return "#false."        # an empty integrity constraint is the same rule
    if r.startswith("{"):
        return r + "."
    if r.startswith(":-"):
        # in a rule body `;` and `,` both mean conjunction
        return ":- " + ", ".join(sorted(x.strip() for x in re.split(r"[;,]", r[2:]))) + "."
    if ":-" in r:
        h, b = r.split(":-")
        return "; ".join(sorted(x.strip() for x in h.split(";"))) + " :- " + b.strip() + "."
    if ";" in r:
        return "; ".join(sorted(x.strip() for x in r.split(";"))) + "."
    return r + "."


def run_case(case):
    from biobalm.trappist_core import trappist, compute_fixed_point_reduced_STG
    from props.C10 import pn_transitions

    _patch_control()

    sd = make_sd(case)
    ni = common.NetInfo(sd.network)
    pn = sd.petri_net
    r0 = common.run_driver([ni.net_line, "TRAPS", "INPUTS"])
    traps = r0[1].split()
    inputs = [ni.names[int(x)] for x in r0[2].split()]
    lines = [ni.net_line]
    obs = []
    for q in case["queries"]:
        ens = mk(q["ens"], ni)
        if q["ens_trap"] and traps:
            ens = ni.unsp(traps[q["pick"] % len(traps)])
        avoid = [mk(a, ni) for a in q["avoid"]]
        if q["problem"] == "max" and len(ens) == ni.n:
            continue
        kw = {}
        if q["srcs"] == "auto":
            srcs_model = inputs            # default: detected from the net
        elif q["srcs"] == "empty":
            kw["optimize_source_variables"] = []
            srcs_model = []
        elif q["srcs"] == "explicit":
            kw["optimize_source_variables"] = list(inputs[:1])
            srcs_model = list(inputs[:1])
        else:
            srcs_model = inputs
        del _added[:]
        got = trappist(pn, problem=q["problem"], reverse_time=q["rev"], ensure_subspace=ens, avoid_subspaces=avoid,
                       solution_limit=q["limit"], **kw)
        emitted = sorted(canon_rule(r, ni) for r in _added)
        sl = ",".join(str(ni.idx[v]) for v in srcs_model) or "-"
        if q["problem"] != "max":
            sl = "-"
        if q["rev"] and q["srcs"] in ("auto", "none"):
            # sources are detected on the net; in reverse time they are the same variables
            pass
        lines.append(f"SOLVE {q['problem']} {1 if q['rev'] else 0} {ni.sp(ens)} {sl} " + " ".join(ni.sp(a) for a in avoid))
        obs.append(("trappist", q, [ni.sp(x) for x in got], q["limit"]))
        if not q["rev"]:
            ts, err = pn_transitions(pn, ni)
            if not err:
                lines.append(f"ASP {q['problem']} {ni.sp(ens)} {sl} " + " ".join(ni.sp(a) for a in avoid) + " || " + " ".join(ts))
                obs.append(("program", q, emitted, None))
    for q in case["reduced"]:
        ret, ens, avoid = mk(q["ret"], ni), mk(q["ens"], ni), [mk(a, ni) for a in q["avoid"]]
        del _added[:]
        got = compute_fixed_point_reduced_STG(pn, ret, ensure_subspace=ens, avoid_subspaces=avoid, solution_limit=q["limit"])
        emitted = sorted(canon_rule(r, ni) for r in _added)
        lines.append(f"REDFP {ni.sp(ret)} {ni.sp(ens)} " + " ".join(ni.sp(a) for a in avoid))
        obs.append(("reduced", q, [ni.sp(x) for x in got], q["limit"]))
        ts, err = pn_transitions(pn, ni)
        if not err:
            lines.append(f"FPASP {ni.sp(ret)} {ni.sp(ens)} " + " ".join(ni.sp(a) for a in avoid) + " || " + " ".join(ts))
            obs.append(("program", q, emitted, None))
    rep = common.run_driver(lines)
    fails, nontriv = [], False
    diffs = []
    ncmp = [0]
    for (kind, q, got, limit), want in zip(obs, rep[1:]):
        if kind == "program":
            ncmp[0] += 1
            model = sorted(want.split(" | ")) if want else []
            if got != model:
                only_real = [r for r in got if r not in model][:4]
                only_model = [r for r in model if r not in got][:4]
                diffs.append({"stream": "ASP program text vs Impl.trapProgram", "query": q, "only_emitted": only_real, "only_model": only_model,
                              "emitted": got[:30] if not only_real and not only_model else None, "model": model[:30] if not only_real and not only_model else None})
            continue
        want = want.split()
        if len(set(got)) != len(got):
            fails.append({"kind": "duplicate-solution", "sig": {"solver": kind}, "detail": f"{q}: {got}"})
        if limit is None:
            if sorted(got) != sorted(want):
                fails.append({"kind": "wrong-solution-set", "sig": {"solver": kind, "problem": q.get("problem")}, "detail":
                              f"{q}: solver {sorted(got)[:8]} / requested trap spaces {sorted(want)[:8]}"})
        else:
            exp_len = min(max(1, limit), len(want))
            if len(got) != exp_len or any(g not in want for g in got):
                fails.append({"kind": "limit-not-a-truncation", "sig": {"solver": kind}, "detail":
                              f"{q}: limit {limit}: got {got[:8]} of {len(want)} solutions {want[:8]}"})
        if len(want) >= 2 or q.get("avoid") or q.get("ens"):
            nontriv = True
    return {"fails": fails, "diffs": diffs, "tags": ["asp-program-compared"] if ncmp[0] else [], "metrics": {"asp_programs_compared_per_case": ncmp[0]},
            "nontrivial": nontriv, "sig": common.case_hash(case)}
