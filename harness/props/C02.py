"""C02 – a fully expanded diagram is exactly the hierarchy of percolated trap spaces.

Tie: literal equality of the fully expanded real diagram (BFS and DFS, fresh) with the model's.
Judge (Lean): strict invariant, no stub, leaves = minimal trap spaces, depth = longest path.
"""
from __future__ import annotations

import common
from plain import gen_ops, run_plain_history, shrink_history

RULE = ("fresh diagram (15%: small max_motifs_per_node; 15%: declared variable order, pickled while partially expanded; 40%: after a random plain prefix history incl. cache-touching queries) + unrestricted expand_bfs or expand_dfs over G-expr/G-tt/G-compose networks with inputs, constants, "
        "self-loops, non-monotonic functions (n<=6 quick, <=7 thorough); non-trivial = at least 3 nodes and one of "
        "{input, constant, edge with two motifs, node with two parents}; distinct by network hash")
ASSUMPTIONS = [
    "E1: clingo enumerates exactly the subset-maximal trap spaces of the emitted program (tie-checked against Ref.maxTrapsIn)",
    "E3: AEON percolate_subspace computes Sem.percolate (tie-checked per created node)",
]


def budget(tier):
    return 1200 if tier == "quick" else 12000


def gen_case(rng, tier, k):
    nmax = 6 if tier == "quick" else 7
    bnet = common.g_mixed(rng, nmax=nmax, p_core=0.25)
    op = ["bfs", 0, None, None] if rng.random() < 0.5 else ["dfs", 0, None, None]
    prefix = gen_ops(rng, rng.randint(1, 4), allow_unmodelled=True) if rng.random() < 0.4 else []
    case = {"bnet": bnet, "max_motifs": rng.choice([100000] * 6 + [2, 3, 4]), "ops": prefix + [op], "final_full": True,
            "judge_leaves_after": ["bfs", "dfs"], "judge_contract": True}
    if rng.random() < 0.15:
        # declared (non-alphabetical) variable order, pickled while partially expanded
        case["order"] = [rng.randrange(64) for _ in range(8)]
        case["ops"] = [["bfs", 0, rng.randint(0, 1), None], ["pickle"]] + case["ops"]
    return case


def run_case(case):
    r = run_plain_history(case)
    d = r["final_dump"]
    nodes = d.split(" | ")[0].split()
    es = d.split(" | ")[1].split() if " | " in d else []
    twomotif = any("," in e for e in es)
    tgt = [e.split(">")[1].split("[")[0] for e in es]
    twoparent = len(tgt) != len(set(tgt))
    txt = case["bnet"]
    special = twomotif or twoparent or "true" in txt or "false" in txt or any(
        l.split(",")[0].strip() == l.split(",")[1].strip() for l in txt.split("\n") if "," in l)
    r["nontrivial"] = len(nodes) >= 3 and special
    r["sig"] = common.case_hash(case["bnet"])
    if twomotif:
        r["tags"].append("edge-with-two-motifs")
    if twoparent:
        r["tags"].append("node-with-two-parents")
    return r


def shrink(case, fail):
    return case


def corpus():
    return [{"bnet": "A, A | (B & C)\nB, A | B | (C & A)\nC, A & C", "max_motifs": 100000,
             "ops": [["bfs", 0, None, None]], "final_full": True, "judge_leaves_after": ["bfs"], "judge_contract": True},
            {"bnet": "A, B\nB, A & C\nC, !A | B", "max_motifs": 100000,
             "ops": [["dfs", 0, None, None]], "final_full": True, "judge_leaves_after": ["dfs"], "judge_contract": True}]
