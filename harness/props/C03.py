"""C03 – every complete expansion strategy finds exactly the minimal trap spaces.

Judge (Lean `judgeLeaves`): after any strategy that reports completion – BFS, DFS, minimal-space
(with/without skipping), attractor-seed, block (all option combinations), source-SCC, or an
early-stopped diagram completed by skip_remaining – `minimal_trap_spaces()` = Ref.minTrapsIn, no
duplicates; for BFS/DFS/minimal-space/attractor-seed also after a random plain prefix history.
"""
from __future__ import annotations

import common
from plain import gen_ops, run_plain_history, shrink_history

RULE = ("(optional random plain prefix) + one complete strategy from the root, or a size-limited strategy followed by "
        "skip_remaining; networks G-expr/G-tt/G-compose incl. motif-avoidant and multi-attractor cores, several inputs; "
        "non-trivial = the network has at least 2 minimal trap spaces or a non-root minimal trap space and the strategy "
        "reported completion; distinct by (network, history) hash")
ASSUMPTIONS = [
    "E1 (clingo min/max enumeration), E3 (AEON percolation), E5 (AEON backward_reachable / SCC on the influence graph) - tie-checked at the observable level",
    "block and source-SCC strategies are not yet modelled in Lean: they are covered by the Lean judge on the real diagram only",
]
STRATS = ["bfs", "dfs", "min", "minskip", "aseeds", "block", "block_nosrc", "block_nomaa", "block_exact",
          "scc", "scc_nomaa", "limit+skip", "limit+skip", "aseeds+limit", "aseeds+limit"]


def budget(tier):
    return 1500 if tier == "quick" else 15000


def strat_ops(rng, st):
    if st == "bfs":
        return [["bfs", 0, None, None]]
    if st == "dfs":
        return [["dfs", 0, None, None]]
    if st == "min":
        return [["min", 0, None, False]]
    if st == "minskip":
        return [["min", 0, None, True]]
    if st == "aseeds":
        return [["aseeds", None]]
    if st == "block":
        return [["blockx", True, None, True, False]]
    if st == "block_nosrc":
        return [["blockx", True, None, False, False]]
    if st == "block_nomaa":
        return [["blockx", False, None, rng.random() < 0.5, False]]
    if st == "block_exact":
        return [["blockx", True, None, True, True]]
    if st == "scc":
        return [["scc", True]]
    if st == "scc_nomaa":
        return [["scc", False]]
    if st == "aseeds+limit":
        # a size limit that can bite in the minimal-space phase of attractor-seed expansion; True must still mean complete
        return [["aseeds", rng.randint(1, 9)]]
    lim = rng.randint(1, 7)
    first = rng.choice([["bfs", 0, None, lim], ["dfs", 0, None, lim], ["min", 0, lim, False], ["aseeds", lim],
                        ["blockx", True, lim, True, False], ["bfs", 0, rng.randint(0, 2), None]])
    return [first, ["skiprem"] if rng.random() < 0.5 else ["skipminall"]]


def gen_case(rng, tier, k):
    nmax = 6 if tier == "quick" else 7
    bnet = common.g_mixed(rng, nmax=nmax, p_core=0.35)
    st = rng.choice(STRATS)
    if (st.startswith("scc") or st.startswith("block")) and rng.random() < 0.5:
        bnet = common.g_modulated(rng, focus=rng.random() < 0.4)
    if st == "aseeds+limit" and rng.random() < 0.8:
        # small latch pairs / triples (contradicting sibling motifs right below the root) or unions of modules
        bnet = common.g_lattice(rng, rng.randint(2, 3)) if rng.random() < 0.6 else common.g_union(rng, nmax=nmax + 1, nested=rng.random() < 0.3)
    if st.startswith("block") and rng.random() < 0.3:
        # independent modules with downstream latches: several source blocks per node, some nested in others
        bnet = common.g_union(rng, nmax=nmax + 1, nested=True)
    prefix = []
    if st in ("bfs", "dfs", "min", "aseeds") and rng.random() < 0.5:
        prefix = gen_ops(rng, rng.randint(1, 4), allow_skip=False, allow_unmodelled=False)
    return {"bnet": bnet, "max_motifs": rng.choice([100000, 100000, 100000, 2, 3, 4]), "strategy": st, "ops": prefix + strat_ops(rng, st), "check": "weak",
            "judge_leaves_after": ["bfs", "dfs", "min", "aseeds", "blockx", "scc", "skiprem", "skipminall"]}


def run_case(case):
    r = run_plain_history(case)
    d = r["final_dump"]
    nodes = d.split(" | ")[0].split()
    r["tags"].append("strategy:" + case.get("strategy", "?"))
    r["nontrivial"] = len(nodes) >= 3
    for f in r["fails"]:
        f.setdefault("sig", {})["strategy"] = case.get("strategy")
    return r


def shrink(case, fail):
    return shrink_history("C03", case, fail)
