"""C20 – reported diagram metadata is accurate.

depth = longest root path (Lean judge on every intermediate dump), depth() = max, ids contiguous,
len() counts; find_node vs the model's exact lookup (key injectivity theorem); is_subgraph /
is_isomorphic vs the Lean model and its node/edge-inclusion specification; summary() after build()
lists every attractor (Lean `attractors`) exactly once with the right label.
"""
from __future__ import annotations

import re

import common
import plain
from plain import gen_ops, make_sd

RULE = ("two random plain histories on the same network (G-expr/G-tt/G-compose incl. diamond-shaped inclusion structures), "
        "find_node on node spaces / perturbed spaces / spaces with an unknown variable, is_subgraph+is_isomorphic on the pair, "
        "summary() after build() on a fresh diagram; non-trivial = some node has two root paths of different length or the two "
        "diagrams differ; distinct by case hash")
ASSUMPTIONS = ["E1, E3 as for C04; summary: seeds are taken from the real code, attractors from Sem.attractors"]


RARE_CFG = 0.1     # share of cases run under rarely used option values (same results expected)


def budget(tier):
    return 700 if tier == "quick" else 6000


def gen_dag_case(rng, tier):
    """Mechanism-level history for the depth bookkeeping: edges of a random DAG inserted through
    `_ensure_edge` in random order (each prefix is a state the depth clause must hold in)."""
    k = rng.randint(3, 9 if tier == "quick" else 14)
    edges = set()
    for v in range(1, k):
        for u in rng.sample(range(v), rng.randint(1, min(v, 3))):
            edges.add((u, v))
    edges = sorted(edges)
    rng.shuffle(edges)
    if rng.random() < 0.5:
        # a late edge that makes a long chain jump onto an already built region
        edges.sort(key=lambda e: (e[1] - e[0] == 1, rng.random()))
    return {"dag": k, "edges": [list(e) for e in edges]}


def gen_dag_batch(rng, tier):
    return {"dags": [gen_dag_case(rng, tier) for _ in range(40)]}


def run_dag_batch(case):
    out = {"fails": [], "diffs": [], "tags": ["dag-insertion"], "nontrivial": True, "sig": common.case_hash(case)}
    for c in case["dags"]:
        r = run_dag_case(c)
        for f in r["fails"]:
            f["dag_case"] = c
        out["fails"] += r["fails"]
        out["diffs"] += r["diffs"]
    return out


def run_dag_case(case):
    from biobalm import SuccessionDiagram
    sd = SuccessionDiagram.from_rules("a, a")
    for i in range(1, case["dag"]):
        sd.dag.add_node(i, space={}, depth=0, expanded=True, skipped=None)
    lines, obs = [], []
    done = []
    for u, v in case["edges"]:
        sd._ensure_edge(u, v, {})
        done.append(f"{u}>{v}")
        lines.append(f"DEPTHS {case['dag']} " + " ".join(done))
        obs.append(" ".join(str(sd.dag.nodes[i]["depth"]) for i in range(case["dag"])))
    lines.append(f"RELAXSEQ {case['dag']} " + " ".join(done))
    rep = common.run_driver(lines)
    fails, diffs = [], []
    for j, (a, b) in enumerate(zip(obs, rep)):
        if a != b:
            fails.append({"kind": "depth-not-longest-path", "sig": {}, "detail":
                          f"after inserting edges {done[:j + 1]}: depths {a}, longest paths {b}"})
            break
    # tie of the algorithm itself: Balm.Depth.updateDepth step by step (and it must report completion)
    model = rep[-1].split(" | ")
    for j, (a, m) in enumerate(zip(obs, model)):
        md, flag = m.split(":")
        if md.replace(",", " ") != a or flag != "done":
            diffs.append({"stream": "OBS depth bookkeeping vs Balm.Depth.updateDepth", "after": done[:j + 1], "impl": a, "model": m})
            break
    return {"fails": fails, "diffs": diffs, "tags": ["dag-insertion"], "nontrivial": len(case["edges"]) > case["dag"],
            "sig": common.case_hash(case)}


def gen_case(rng, tier, k):
    if k % 3 == 0:
        return gen_dag_batch(rng, tier)
    nmax = 6 if tier == "quick" else 7
    bnet = common.g_mixed(rng, nmax=nmax, p_core=0.25)
    ops1 = gen_ops(rng, rng.randint(1, 6), allow_unmodelled=False)
    r = rng.random()
    if r < 0.3:
        ops2 = ops1 + gen_ops(rng, rng.randint(0, 3), allow_unmodelled=False)
    elif r < 0.5:
        ops2 = [["bfs", 0, None, None]]
    else:
        ops2 = gen_ops(rng, rng.randint(1, 6), allow_unmodelled=False)
    queries = [[rng.randrange(64), rng.choice(["exact", "exact", "flip", "drop", "add", "unknown"]), rng.randrange(64)]
               for _ in range(4)]
    summary = rng.random() < 0.5
    if summary and rng.random() < 0.6:
        # build() on networks where an input switches the logic of a module (sibling nodes with equal block variables)
        bnet = common.g_modulated(rng, focus=rng.random() < 0.7)
    case = {"bnet": bnet, "max_motifs": 100000, "ops": ops1, "ops2": ops2, "queries": queries,
            "summary": summary}
    if summary and rng.random() < 0.5:
        # history before build(): the diagram is (partly) expanded and raw candidate lists (no minification: usually
        # several candidates per attractor, transient states among them) are cached in the nodes
        case["prebuild"] = rng.choice(["block-raw", "block-raw", "bfs-raw", "ops-raw", "ops"])
        if rng.random() < 0.5:
            case["bnet"] = common.g_compose(rng, extra_max=2)
    return case


def run_hist(case, ops):
    sd = make_sd(case)
    ni = common.NetInfo(sd.network)
    for op in ops:
        try:
            plain.apply_op(sd, ni, op)
        except RuntimeError:
            pass
    return sd, ni


def run_case(case):
    if "dags" in case:
        return run_dag_batch(case)
    if "dag" in case:
        return run_dag_case(case)
    plain._patch_recorders()
    fails, diffs, tags = [], [], []
    sd1, ni = run_hist(case, case["ops"])
    sd2, _ = run_hist(case, case["ops2"])
    d1, d2 = common.dump_sd(sd1, ni), common.dump_sd(sd2, ni)
    lines = [ni.net_line, "CHECK " + d1, "CHECK " + d2]
    # python-level metadata
    for sd, d in ((sd1, d1), (sd2, d2)):
        depths = [sd.node_data(i)["depth"] for i in sd.node_ids()]
        if sd.depth() != max(depths):
            fails.append({"kind": "depth-max", "sig": {}, "detail": f"depth()={sd.depth()} max node depth={max(depths)}"})
        if list(sd.node_ids()) != list(range(len(sd))) or sorted(sd.dag.nodes()) != list(range(len(sd))):
            fails.append({"kind": "ids-not-contiguous", "sig": {}, "detail": str(sorted(sd.dag.nodes()))})
    # find_node
    qs = []
    for a, mode, b in case["queries"]:
        sp = dict(sd1.node_data(a % len(sd1))["space"])
        v = ni.names[b % ni.n]
        if mode == "flip" and v in sp:
            sp[v] = 1 - sp[v]
        elif mode == "drop" and v in sp:
            del sp[v]
        elif mode == "add" and v not in sp:
            sp[v] = b % 2
        got = sd1.find_node(dict(sp, **({"no_such_variable": 1} if mode == "unknown" else {})))
        if mode == "unknown":
            if got is not None:
                fails.append({"kind": "find-node", "sig": {}, "detail": f"unknown variable, got {got}"})
            continue
        qs.append((sp, got))
        lines.append(f"FIND {ni.sp(sp)} " + d1)
        tags.append("find:" + mode)
    # the same second history on the same network declared in another variable order: the two diagrams
    # have the same spaces and edges, so the comparison functions must not see a difference
    if ni.n >= 2:
        oc = dict(case, order=list(reversed(range(ni.n))))
        sd2o = plain.make_sd_ordered(oc)
        nio = common.NetInfo(sd2o.network)
        for op in case["ops2"]:
            try:
                plain.apply_op(sd2o, nio, op)
            except RuntimeError:
                pass
        a, b = plain.abstract(common.dump_sd(sd2, ni)), None
        sp2 = {tuple(sorted(sd2.node_data(i)["space"].items())) for i in sd2.node_ids()}
        spo = {tuple(sorted(sd2o.node_data(i)["space"].items())) for i in sd2o.node_ids()}
        e2 = {(tuple(sorted(sd2.node_data(u)["space"].items())), tuple(sorted(sd2.node_data(v)["space"].items()))) for u, v in sd2.dag.edges()}
        eo = {(tuple(sorted(sd2o.node_data(u)["space"].items())), tuple(sorted(sd2o.node_data(v)["space"].items()))) for u, v in sd2o.dag.edges()}
        if sp2 == spo and e2 == eo:
            if not (sd2.is_isomorphic(sd2o) and sd2o.is_subgraph(sd2) and sd2.is_subgraph(sd2o)):
                fails.append({"kind": "is-subgraph", "sig": {"what": "declared-order"}, "detail":
                              "two diagrams of the same network declared in different variable orders have the same spaces and edges, but is_subgraph/is_isomorphic is False"})
            for i in list(sd2.node_ids())[:4]:
                if sd2o.find_node(sd2.node_data(i)["space"]) is None:
                    fails.append({"kind": "find-node", "sig": {"what": "declared-order"}, "detail": "node of one diagram not found in the other"})
    sub12, sub21, iso = sd1.is_subgraph(sd2), sd2.is_subgraph(sd1), sd1.is_isomorphic(sd2)
    lines.append(f"SUBGRAPH {d1} || {d2}")
    lines.append(f"SUBGRAPH {d2} || {d1}")
    summ = None
    if case.get("summary"):
        sd3 = make_sd(case)
        pb = case.get("prebuild")
        if pb:
            try:
                if pb == "block-raw":
                    sd3.expand_block()
                elif pb == "bfs-raw":
                    sd3.expand_bfs()
                else:
                    for op in case["ops"]:
                        plain.apply_op(sd3, ni, op)
                if pb.endswith("raw"):
                    plain.apply_op(sd3, ni, ["rawcands", "all"])
            except RuntimeError:
                pass
            tags.append("summary:prebuild:" + pb)
        sd3.build()
        summ = sd3.summary()
        lines.append("ATTRS")
    rep = common.run_driver(lines)
    if rep[0] != "OK":
        return {"diffs": [{"stream": "protocol", "reply": rep[0]}]}
    for k in (1, 2):
        if rep[k] != "OK":
            fails.append({"kind": "invariant", "sig": {"what": rep[k][:40]}, "detail": rep[k], "dump": lines[k][:400]})
    for j, (sp, got) in enumerate(qs):
        want = rep[3 + j]
        if str(got).lower() != want:
            fails.append({"kind": "find-node", "sig": {}, "detail": f"find_node({sp}) = {got}, node with exactly that space: {want}"})
    base = 3 + len(qs)
    for (val, r, what) in ((sub12, rep[base], "sd1.is_subgraph(sd2)"), (sub21, rep[base + 1], "sd2.is_subgraph(sd1)")):
        model, spec = r.split()
        if str(val).lower() != spec:
            fails.append({"kind": "is-subgraph", "sig": {}, "detail": f"{what} = {val}, inclusion of node and edge sets = {spec}"})
        elif str(val).lower() != model:
            diffs.append({"stream": "OBS is_subgraph", "impl": val, "model": model})
    if iso != (rep[base].split()[1] == "true" and rep[base + 1].split()[1] == "true"):
        fails.append({"kind": "is-isomorphic", "sig": {}, "detail": f"is_isomorphic = {iso}"})
    if summ is not None:
        atts = [a.split(",") for a in rep[-1].split(" | ")] if rep[-1] else []
        f = judge_summary(sd3, ni, summ, atts)
        if f:
            fails.append({"kind": "summary", "sig": {"what": f.split(":")[0]}, "detail": f, "summary": summ[:600]})
        tags.append("summary")
    pairs = {}
    nontriv = d1 != d2
    return {"fails": fails, "diffs": diffs, "tags": tags, "nontrivial": nontriv,
            "sig": common.case_hash(case), "sample": {"d1": d1[:200]}}


def judge_summary(sd, ni, text, atts):
    names = sorted(ni.names)
    head, _, body = text.partition("Attractors in diagram:\n\n")
    m = re.match(r"Succession Diagram with (\d+) nodes and depth (\d+)\.", head)
    if not m or int(m.group(1)) != len(sd) or int(m.group(2)) != sd.depth():
        return "header: wrong node count or depth"
    seen = []
    for block in [b for b in body.split("\n\n") if b.strip()]:
        ls = [x for x in block.split("\n") if x.strip()]
        mm = re.match(r"(minimal trap space |motif avoidance in )([01*]+)$", ls[0])
        if not mm:
            return "block: cannot parse " + ls[0]
        space = {names[i]: int(c) for i, c in enumerate(mm.group(2)) if c != "*"}
        node = sd.find_node(space)
        if node is None:
            return "block: space is not a node"
        if (mm.group(1) == "minimal trap space ") != sd.node_is_minimal(node):
            return "label: does not match node_is_minimal"
        for l in ls[1:]:
            st = l.lstrip(".")
            if len(st) != len(names) or any(c not in "01" for c in st):
                return "state: a listed line is not a state of the network: " + st[:40]
            state = {names[i]: int(c) for i, c in enumerate(st)}
            s = ni.st(state)
            idx = [k for k, a in enumerate(atts) if s in a]
            if not idx:
                return "state: listed state is in no attractor"
            if any(state[v] != b for v, b in space.items()):
                return "state: listed state is outside its node"
            seen.append(idx[0])
    if len(set(seen)) != len(seen):
        return "duplicate: an attractor is listed twice"
    if len(set(seen)) != len(atts):
        return "missing: an attractor is not listed"
    return None


def corpus():
    return [{"bnet": "A, A | (B & C)\nB, A | B | (C & A)\nC, A & C", "max_motifs": 100000, "ops": [["bfs", 0, None, None]],
             "ops2": [["dfs", 0, None, None]], "queries": [[3, "exact", 0], [1, "flip", 1]], "summary": True},
            {"bnet": "a, b\nb, a\nc, d\nd, c", "max_motifs": 100000, "ops": [["bfs", 0, 0, None]],
             "ops2": [["bfs", 0, None, None]], "queries": [[1, "drop", 2]], "summary": True}]
