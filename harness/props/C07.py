"""C07 – control output is complete, minimal and honours the user's constraints.

Fresh diagram; `successions_to_target` is compared (as a multiset) with the Lean model evaluated on
the dump of the real target-directed expansion; every step's override sets are compared with the
Lean model of `find_drivers` (whose specification theorem says: exactly the domain-minimal working
assignments within pool, bound and forbidden set, for every enumeration order); flags are checked.
"""
from __future__ import annotations

import common
import plain
from control_common import gen_control_case, pick_target, pre_query, union, canon
from plain import make_sd

RULE = ("fresh diagram, random non-empty target (50% trap spaces), both strategies, size bound in {None,0,1,2,3}, random "
        "forbidden sets, skip_feedforward on/off (literal tie of the target-directed expansion with the model), successful_only on/off; lattice/expression/compose networks n<=5 quick; "
        "non-trivial = at least two successions, or a step with two minimal driver sets, or a constraint removed a driver; "
        "distinct by case hash")
ASSUMPTIONS = ["E3 AEON percolation = Sem.percolate (tie-checked)", "E8 networkx descendants / all_simple_paths"]
CASE_TIMEOUT = {"quick": 40, "thorough": 120}


def budget(tier):
    return 1500 if tier == "quick" else 15000


def gen_case(rng, tier, k):
    return gen_control_case(rng, tier, fresh=True)


def run_case(case, fresh=True):
    from biobalm.control import succession_control, successions_to_target

    plain._patch_recorders()
    sd = make_sd(case)
    ni = common.NetInfo(sd.network)
    for op in case["ops"]:
        try:
            plain.apply_op(sd, ni, op)
        except RuntimeError:
            pass
    rep0 = common.run_driver([ni.net_line, "TRAPS"])
    target = pick_target(case, ni, rep0[1].split())
    if not target:
        return {"fails": [], "diffs": [], "nontrivial": False}
    forb = sorted({ni.names[i % ni.n] for i in case["forbidden"]})
    pre_query(case, sd, ni, target)
    try:
        succs = successions_to_target(sd, target, expand_diagram=True, skip_feedforward_successions=case["skip_ff"])
    except RuntimeError:
        return {"fails": [], "diffs": [], "tags": ["motif-limit-error"], "nontrivial": False}
    dump = common.dump_sd(sd, ni)
    ivs = succession_control(sd, target, strategy=case["strategy"], max_drivers_per_succession_node=case["bound"],
                             forbidden_drivers=set(forb), successful_only=False,
                             skip_feedforward_successions=case["skip_ff"])
    ivs_succ = succession_control(sd, target, strategy=case["strategy"], max_drivers_per_succession_node=case["bound"],
                                  forbidden_drivers=set(forb), successful_only=True,
                                  skip_feedforward_successions=case["skip_ff"])
    lines = [ni.net_line, f"SUCCS {ni.sp(target)} {dump}", f"PERC {'-' * ni.n}"]
    tie_fresh = not case["ops"] and not case.get("pre_query")
    if tie_fresh:
        # the diagram the successions are read from is the model's own target-directed expansion (literal tie)
        lines += [f"CFG {case.get('max_motifs', 100000)}", "SDINIT", f"TARGET {ni.sp(target)} -"]
    steps = []
    root = None
    fails, diffs = [], []
    if [iv.succession for iv in ivs] != succs:
        fails.append({"kind": "interventions-do-not-follow-successions", "sig": {}, "detail": ""})
    for a, iv in enumerate(ivs):
        steps.append([])
    rep = common.run_driver(lines)
    if tie_fresh and rep[5] != "true " + dump:
        diffs.append({"stream": "OBS literal diagram state after the target-directed expansion", "impl": dump[:400], "model": rep[5][:400]})
    # `drivers_of_succession` starts with an empty `assume_fixed` (the whole state space)
    root = "-" * ni.n
    # successions as multiset
    got = sorted(",".join(ni.sp(m) for m in su) for su in succs)
    if succs == [[]]:
        gots = "EMPTY"
    else:
        gots = " ; ".join(got)
    if tie_fresh and rep[5].startswith("true ") and not case["skip_ff"]:
        # the chains of stable motifs of the *model's* diagram (not of the dump the real code produced)
        repm = common.run_driver([ni.net_line, f"SUCCS {ni.sp(target)} {rep[5][5:]}"])
        if gots != repm[1]:
            fails.append({"kind": "successions", "sig": {"diagram": "model"}, "detail":
                          f"target {ni.sp(target)}: real {gots[:300]} / chains of stable motifs of the full target-directed diagram {repm[1][:300]}"})
    if not case["skip_ff"]:
        if gots != rep[1]:
            fails.append({"kind": "successions", "sig": {}, "detail": f"target {ni.sp(target)}: real {gots[:300]} / chains of the target-directed diagram {rep[1][:300]}", "dump": dump[:400]})
    else:
        full = [] if rep[1] in ("", "EMPTY") else rep[1].split(" ; ")
        sig = lambda s: union_all(ni, s.split(","))
        if rep[1] == "EMPTY":
            if succs != [[]]:
                fails.append({"kind": "successions", "sig": {}, "detail": "expected [[]]"})
        else:
            for g in got:
                if g not in full:
                    fails.append({"kind": "successions", "sig": {}, "detail": f"spurious succession {g}"})
            for f_ in full:
                if not any(subspace(sig(f_), sig(g)) for g in got):
                    fails.append({"kind": "successions", "sig": {}, "detail": f"feed-forward filter dropped {f_} without a more general one"})
    # drivers per step
    lines2 = [ni.net_line]
    meta = []
    for a, iv in enumerate(ivs):
        cur = root
        for k, (motif, ctrl) in enumerate(zip(iv.succession, iv.control)):
            bound = "-" if case["bound"] is None else str(case["bound"])
            fl = ",".join(str(ni.idx[v]) for v in forb) or "-"
            lines2.append(f"DRIVERS {cur} {ni.sp(motif)} {1 if case['strategy'] == 'internal' else 0} {bound} {fl}")
            meta.append(("drivers", a, k, ctrl, motif, cur))
            lines2.append(f"PERC {union(ni, cur, ni.sp(motif))}")
            meta.append(("perc", a, k))
            nxt = None
            # the next assume_fixed is only known after the reply; use python-side chaining
            cur = common.run_driver([ni.net_line, f"PERC {union(ni, cur, ni.sp(motif))}"])[1]
    rep2 = common.run_driver(lines2)
    two_sets = False
    removed = False
    for m, r in zip(meta, rep2[1:]):
        if m[0] != "drivers":
            continue
        _, a, k, ctrl, motif, cur = m
        real = sorted(ni.sp(d) for d in ctrl)
        model = sorted(r.split())
        if real != model:
            fails.append({"kind": "override-sets", "sig": {"strategy": case["strategy"]}, "detail":
                          f"succession {a} step {k}: assume {cur} motif {ni.sp(motif)} strategy {case['strategy']} bound {case['bound']} "
                          f"forbidden {forb}: real {real[:6]} / minimal working sets {model[:6]}"})
        if len(model) >= 2:
            two_sets = True
        for d in ctrl:
            if any(v in forb for v in d):
                fails.append({"kind": "forbidden-driver-reported", "sig": {}, "detail": f"{d} forbidden {forb}"})
            if case["bound"] is not None and len(d) > case["bound"]:
                fails.append({"kind": "oversized-driver-set", "sig": {}, "detail": f"{d} bound {case['bound']}"})
    for iv in ivs:
        if iv.successful != all(len(c) > 0 for c in iv.control):
            fails.append({"kind": "successful-flag", "sig": {}, "detail": f"successful={iv.successful} control sizes {[len(c) for c in iv.control]}"})
    want_succ = [iv for iv in ivs if all(len(c) > 0 for c in iv.control)]
    if [(iv.succession, iv.control) for iv in ivs_succ] != [(iv.succession, iv.control) for iv in want_succ]:
        fails.append({"kind": "successful-only-filter", "sig": {}, "detail": f"{len(ivs_succ)} returned, {len(want_succ)} have an override for every step"})
    nontriv = len(succs) >= 2 or two_sets or bool(forb) or case["bound"] is not None
    tags = ["strategy:" + case["strategy"], "successions:%d" % min(len(succs), 3)] + (["skip_ff"] if case["skip_ff"] else [])
    return {"fails": fails, "diffs": diffs, "tags": tags, "nontrivial": nontriv and succs not in ([], [[]]),
            "sig": common.case_hash(case), "sample": {"target": ni.sp(target), "successions": len(succs)}}


def union_all(ni, motifs):
    cur = "-" * ni.n
    for m in motifs:
        cur = union(ni, cur, m)
    return cur


def subspace(a: str, b: str) -> bool:
    """a is a subspace of b (fixes everything b fixes, same values)"""
    return all(y == "-" or x == y for x, y in zip(a, b))


def corpus():
    return [{"bnet": "A, B & C\nB, A & C\nC, A & B", "ops": [], "target": [[0, 1], [1, 1], [2, 1]], "target_mode": "space",
             "target_pick": 0, "strategy": "internal", "bound": None, "forbidden": [], "skip_ff": False, "successful_only": True},
            {"bnet": "S, S\nA, S | B\nB, A", "ops": [], "target": [[1, 1]], "target_mode": "space", "target_pick": 0,
             "strategy": "all", "bound": 1, "forbidden": [2], "skip_ff": False, "successful_only": False}]
