"""Runs one case in this (fresh) interpreter and prints a canonical JSON observation."""
import json
import sys
import os

sys.path.insert(0, os.path.dirname(os.path.abspath(__file__)))
import common  # noqa: E402


_SHARED_FORBIDDEN: set = set()      # one (empty) set object handed to every control query of the process


def observe(case, warmup=0):
    import plain
    from biobalm.control import succession_control

    plain._patch_recorders()
    import random
    if warmup:
        # unrelated diagrams built and queried earlier in the same process
        rng = random.Random(warmup)
        import re
        for w in range(warmup):
            if w % 2 == 0:
                # a *related* network: same names and wiring, some literals negated
                txt = "\n".join(
                    l.split(",", 1)[0] + "," + re.sub(r"(?<![!\w])([A-Za-z_]\w*)", lambda m: ("!" + m.group(1)) if rng.random() < 0.3 and m.group(1) not in ("true", "false") else m.group(1), l.split(",", 1)[1])
                    for l in case["bnet"].split("\n") if "," in l)
                other_case = {"bnet": txt}
            else:
                other_case = {"bnet": common.g_compose(rng, extra_max=1) if rng.random() < 0.7 else common.g_mixed(rng, nmax=5)}
            try:
                other = plain.make_sd(other_case)
            except Exception:
                continue
            try:
                common.guarded(20, other.build)
                succession_control(other, {other.network.variable_names()[0]: 1})
                succession_control(other, {other.network.variable_names()[-1]: 1}, strategy="all", forbidden_drivers=_SHARED_FORBIDDEN)
            except Exception:
                pass
    sd = plain.make_sd_ordered(case)
    ni = common.NetInfo(sd.network)
    obs = {"rets": []}
    for op in case["ops"]:
        try:
            if op[0] == "build":
                sd.build()
                obs["rets"].append("none")
            else:
                obs["rets"].append(plain.apply_op(sd, ni, op)[0])
        except RuntimeError as e:
            obs["rets"].append("RuntimeError")
    obs["dump"] = common.dump_sd(sd, ni)
    obs["edges_order"] = [[u, v] for u, v in sd.dag.edges()]
    seeds = {}
    for i in sd.node_ids():
        if not sd.node_data(i)["expanded"]:
            continue
        try:
            seeds[i] = [ni.st(s) for s in sd.node_attractor_seeds(i, compute=True)]
        except RuntimeError:
            seeds[i] = "RuntimeError"
    obs["seeds"] = seeds
    t = plain.resolve_target(case["target"], ni)
    try:
        ivs = succession_control(sd, t, strategy=case["strategy"], successful_only=False, forbidden_drivers=_SHARED_FORBIDDEN)
        obs["control"] = [[[sorted(m.items()) for m in iv.succession], [[list(d.items()) for d in c] for c in iv.control],
                           iv.successful, str(iv)] for iv in ivs]
    except RuntimeError:
        obs["control"] = "RuntimeError"
    obs["summary"] = sd.summary()
    return obs


if __name__ == "__main__":
    common.load_biobalm()
    case = json.loads(sys.stdin.read())
    if "batch" in case:
        out = []
        for j, c in enumerate(case["batch"]):
            try:
                out.append(common.guarded(40, observe, c, warmup=case.get("warmup", 0) if j == 0 else 0))
            except common.Timeout:
                out.append({"timeout": True})
            except Exception as e:      # the real code died: that is an observation like any other
                x = "exception:" + type(e).__name__
                out.append({k: x for k in ("rets", "dump", "edges_order", "seeds", "control", "summary")})
        print(json.dumps(out, sort_keys=True))
    else:
        print(json.dumps(observe(case, warmup=case.get("warmup", 0)), sort_keys=True))
