"""Attractor-level observation and judging (C01, C05, C08, C12, C14).

Ground truth comes from the Lean driver: `ATTRS` (Sem attractors by exhaustive asynchronous
reachability), `OWNX space succ…` (attractors inside the space and inside none of the successor
spaces), `MIN` (minimal trap spaces).  The harness only maps states to attractor indices.
"""
from __future__ import annotations

import common


class Oracle:
    """Builds driver lines for one network and decodes the replies."""

    def __init__(self, ni):
        self.ni = ni
        self.lines = [ni.net_line, "ATTRS", "MIN " + "-" * ni.n]
        self.slots = {}

    def own(self, key, space: dict, succ_spaces: list[dict]):
        self.slots[key] = len(self.lines)
        self.lines.append("OWNX " + self.ni.sp(space) + "".join(" " + self.ni.sp(s) for s in succ_spaces))

    def ask(self, key, line):
        self.slots[key] = len(self.lines)
        self.lines.append(line)

    def run(self):
        self.rep = common.run_driver(self.lines)
        if self.rep[0] != "OK":
            raise common.DriverError("NET rejected: " + self.lines[0][:200])
        self.atts = [a.split(",") for a in self.rep[1].split(" | ")] if self.rep[1] else []
        self.state_att = {}
        for k, a in enumerate(self.atts):
            for s in a:
                self.state_att[s] = k
        self.mins = self.rep[2].split()
        self.maa = [k for k, a in enumerate(self.atts) if not any(self.inside(a, m) for m in self.mins)]
        return self

    def get(self, key):
        return self.rep[self.slots[key]]

    def own_idx(self, key):
        r = self.get(key)
        return sorted(int(x) for x in r.split()) if r else []

    @staticmethod
    def inside(att_states, space_str):
        return all(all(c == "-" or c == s[i] for i, c in enumerate(space_str)) for s in att_states)

    def att_of(self, state: dict):
        """index of the attractor containing the (full) state, None if it is in no attractor,
        'partial' if it is not a full state"""
        if set(state.keys()) != set(self.ni.names):
            return "partial"
        return self.state_att.get(self.ni.st(state))


def vertex_set_states(sd, ni, vs):
    out = []
    for vv in vs.items():
        d = {sd.network.get_variable_name(k): int(v) for k, v in vv.to_dict().items()}
        out.append(ni.st(d))
    return sorted(out)


def node_obs(sd, i):
    d = sd.node_data(i)
    succ = list(sd.dag.successors(i)) if d["expanded"] else []
    return {"id": i, "space": dict(d["space"]), "succ": [dict(sd.node_data(s)["space"]) for s in succ],
            "expanded": bool(d["expanded"]), "skipped": bool(d["skipped"]), "minimal": sd.node_is_minimal(i)}


def judge_seeds_exact(orc, key, obs, seeds, what="seeds"):
    """ordinary node: seeds <-> own attractors, one each.  Returns list of failures."""
    fails = []
    own = orc.own_idx(key)
    idx = []
    for s in seeds:
        a = orc.att_of(s)
        if a == "partial":
            fails.append({"kind": "seed-not-a-full-state", "detail": f"node {obs['id']} {what}: {s}"})
            continue
        if a is None:
            fails.append({"kind": "seed-in-no-attractor", "detail": f"node {obs['id']} {what}: state {orc.ni.st(s)} lies in no attractor"})
            continue
        idx.append(a)
    for a in idx:
        if a not in own:
            fails.append({"kind": "seed-not-own", "detail": f"node {obs['id']} ({orc.ni.sp(obs['space'])}) {what}: attractor {a} is not inside the node or is inside a successor; own = {own}"})
    if len(set(idx)) != len(idx):
        fails.append({"kind": "duplicate-attractor", "detail": f"node {obs['id']} {what}: attractor indices {idx}"})
    missing = [a for a in own if a not in idx]
    if missing and not fails:
        fails.append({"kind": "lost-attractor", "detail": f"node {obs['id']} ({orc.ni.sp(obs['space'])}) {what}: own attractors {own}, reported {idx}"})
    return fails, idx


def judge_seeds_sound(orc, obs, seeds, what="seeds"):
    """skip node: every seed in an attractor inside the node, no duplicates."""
    fails, idx = [], []
    sp = orc.ni.sp(obs["space"])
    for s in seeds:
        a = orc.att_of(s)
        if a in (None, "partial"):
            fails.append({"kind": "seed-in-no-attractor", "detail": f"skip node {obs['id']} {what}: {s}"})
            continue
        if not orc.inside(orc.atts[a], sp):
            fails.append({"kind": "seed-outside-node", "detail": f"skip node {obs['id']} ({sp}) {what}: attractor {a} not inside"})
        idx.append(a)
    if len(set(idx)) != len(idx):
        fails.append({"kind": "duplicate-attractor", "detail": f"skip node {obs['id']} {what}: {idx}"})
    return fails, idx


def judge_candidates(orc, key, obs, cands):
    """every candidate a full state of the node's space; every own attractor contains one."""
    fails = []
    own = orc.own_idx(key)
    sp = obs["space"]
    hit = set()
    for c in cands:
        if set(c.keys()) != set(orc.ni.names):
            fails.append({"kind": "candidate-not-a-full-state", "detail": f"node {obs['id']}: {c}"})
            continue
        if any(c[v] != b for v, b in sp.items()):
            fails.append({"kind": "candidate-outside-node", "detail": f"node {obs['id']}: {orc.ni.st(c)} not in {orc.ni.sp(sp)}"})
        a = orc.state_att.get(orc.ni.st(c))
        if a is not None:
            hit.add(a)
    missing = [a for a in own if a not in hit]
    if missing:
        fails.append({"kind": "uncovered-attractor", "detail": f"node {obs['id']} ({orc.ni.sp(sp)}, expanded={obs['expanded']}, "
                      f"minimal={obs['minimal']}): own attractors {own}, candidates hit {sorted(hit)}; candidates {[orc.ni.st(c) for c in cands if set(c.keys()) == set(orc.ni.names)][:8]}"})
    return fails
