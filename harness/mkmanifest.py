"""Regenerates MANIFEST.json from the table below (keeps it valid at all times)."""
import json, os
VERIF = os.path.dirname(os.path.dirname(os.path.abspath(__file__)))
CLAIMED = json.load(open(os.path.join(VERIF, "harness", "claims.json")))
props = [json.loads(l) for l in open(os.path.join(VERIF, "properties.jsonl"))]
checks, na = [], []
for p in props:
    pid = p["id"]
    c = CLAIMED.get(pid)
    if c is None or c.get("not_applicable"):
        na.append({"property_id": pid, "reason": (c or {}).get("not_applicable", "not yet covered by a theorem + correspondence check in this round of the build (see DESIGN.md section 10)")})
        continue
    checks.append({
        "property_id": pid,
        "quick_cmd": f"bin/check {pid} --tier quick",
        "thorough_cmd": f"bin/check {pid} --tier thorough",
        "evidence_file": f"evidence/{pid}.json",
        "replay_cmd_template": f"bin/check {pid} --replay {{path}}",
        "engine": "balm-lean",
        "level_claimed": {"category": "proof", "text": c["text"], "design_ref": c.get("design_ref", "DESIGN.md section 6 " + pid)},
        "level_note": c["note"],
        "technique": c.get("technique", "Lean 4 theorems about a hand-written executable model + differential correspondence check of the model against /repo"),
    })
m = {
    "version": 1,
    "setup_cmd": "cd lean && lake build Balm BalmProofs balmdriver",
    "hooks": {"guard": "BALM_VERIF", "enable": "no source hooks are needed: the harness observes biobalm through its Python objects, sys.monitoring and by wrapping module-level names at run time",
              "baseline_off_cmd": "cd /repo && /venv/bin/python -m pytest -ra -q -p no:cacheprovider --timeout=900 --continue-on-collection-errors",
              "source_commits": [], "add_only": True},
    "engines": [{"name": "balm-lean", "path": "lean/", "serves_properties": [c["property_id"] for c in checks],
                 "kind_free_text": "Lean 4 project (model Balm, proofs BalmProofs, native driver balmdriver) + Python correspondence harness (harness/)"}],
    "checks": checks,
    "not_applicable": na,
    "notes": "bin/check <id> rebuilds the Lean obligations of the property, audits axioms, runs the correspondence+judge campaign against /repo's working tree and rewrites evidence/<id>.json. Known findings: findings/known_findings.json.",
}
json.dump(m, open(os.path.join(VERIF, "MANIFEST.json"), "w"), indent=1)
print("claimed", [c["property_id"] for c in checks], "not_applicable", len(na))
