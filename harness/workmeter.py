"""Work meter: counts executed loop back-edges inside biobalm (sys.monitoring JUMP/BRANCH events whose
destination precedes the source) and can abort the running call when a bound is exceeded."""
from __future__ import annotations

import os
import sys

import common

TOOL = 3


class WorkExceeded(Exception):
    pass


class Meter:
    def __init__(self):
        self.count = 0
        self.bound = None
        self.active = False
        self.bound_fn = None
        self.prefix = os.path.realpath(os.path.join(common.REPO, "biobalm"))

    def install(self):
        mon = sys.monitoring
        try:
            mon.use_tool_id(TOOL, "balm-work")
        except ValueError:
            pass
        mon.register_callback(TOOL, mon.events.JUMP, self._jump)
        mon.register_callback(TOOL, mon.events.BRANCH, self._jump)
        mon.set_events(TOOL, mon.events.JUMP | mon.events.BRANCH)

    def _jump(self, code, src, dst):
        if not self.active:
            return
        if dst < src and code.co_filename.startswith(self.prefix):
            self.count += 1
            if self.bound is not None and self.count > self.bound:
                if self.bound_fn is not None:
                    # the bound depends on the current diagram size: re-evaluate before giving up
                    self.bound = self.bound_fn()
                    if self.count <= self.bound:
                        return None
                self.active = False
                raise WorkExceeded(f"{os.path.basename(code.co_filename)}:{code.co_name}")
        return None

    def run(self, bound, fn, *a, bound_fn=None, **k):
        self.count = 0
        self.bound = bound
        self.bound_fn = bound_fn
        self.active = True
        try:
            return fn(*a, **k)
        finally:
            self.active = False


_meter = None


def meter():
    global _meter
    if _meter is None:
        _meter = Meter()
        _meter.install()
    return _meter
