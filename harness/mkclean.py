"""Builds corpus/clean_cores.json: for the 3-variable motif-avoidant cores of corpus/cores.json the number of
stable motifs, and a sample of 3-variable 'clean' networks (no constant / identity-free variable lost by
percolation at the root, at least one stable motif, no motif-avoidant attractor) grouped by their number of
stable motifs.  Brute force over 8 states and 27 subspaces; generator-side only (nothing here is trusted)."""
import itertools
import json
import os
import random

HERE = os.path.dirname(os.path.abspath(__file__))
N = 3
STATES = list(itertools.product([0, 1], repeat=N))
SPACES = [sp for sp in itertools.product([None, 0, 1], repeat=N)]


def f(tt, i, s):
    idx = sum(s[j] << j for j in range(N))
    return int(tt[i][idx])


def inside(s, sp):
    return all(v is None or s[j] == v for j, v in enumerate(sp))


def is_trap(tt, sp):
    for s in STATES:
        if inside(s, sp):
            for i in range(N):
                if sp[i] is not None and f(tt, i, s) != sp[i]:
                    return False
    return True


def le(a, b):      # a subset of b
    return all(vb is None or va == vb for va, vb in zip(a, b))


def classify(tt):
    traps = [sp for sp in SPACES if is_trap(tt, sp)]
    nontriv = [sp for sp in traps if any(v is not None for v in sp)]
    motifs = [sp for sp in nontriv if not any(o != sp and le(sp, o) for o in nontriv)]
    mins = [sp for sp in traps if not any(o != sp and le(o, sp) for o in traps)]
    # attractors
    succ = {}
    for s in STATES:
        out = []
        for i in range(N):
            v = f(tt, i, s)
            if v != s[i]:
                t = list(s); t[i] = v; out.append(tuple(t))
        succ[s] = out
    def reach(x):
        seen = {x}; todo = [x]
        while todo:
            y = todo.pop()
            for t in succ[y]:
                if t not in seen:
                    seen.add(t); todo.append(t)
        return seen
    fwd = {s: reach(s) for s in STATES}
    atts = {frozenset(fwd[s]) for s in STATES if all(s in fwd[t] for t in fwd[s])}
    maa = [a for a in atts if not any(all(inside(s, m) for s in a) for m in mins if any(v is not None for v in m))]
    whole_is_min = mins == [(None,) * N]
    const = any(len({f(tt, i, s) for s in STATES}) == 1 for i in range(N))
    return {"motifs": len(motifs), "maa": len(maa) if not whole_is_min else 0, "const": const, "atts": len(atts), "whole_min": whole_is_min}


def main():
    cores = json.load(open(os.path.join(HERE, "..", "corpus", "cores.json")))
    out = {"maa3": [], "clean3": {}}
    for c in cores["maa"]:
        if c["n"] == 3:
            k = classify(c["tt"])
            out["maa3"].append({"tt": c["tt"], "motifs": k["motifs"]})
    rng = random.Random(20260929)
    seen = set()
    while sum(len(v) for v in out["clean3"].values()) < 120:
        tt = ["".join(rng.choice("01") for _ in range(8)) for _ in range(N)]
        if tuple(tt) in seen:
            continue
        seen.add(tuple(tt))
        k = classify(tt)
        if k["const"] or k["maa"] or k["whole_min"] or k["motifs"] == 0 or k["motifs"] > 3:
            continue
        lst = out["clean3"].setdefault(str(k["motifs"]), [])
        if len(lst) < 50:
            lst.append(tt)
    json.dump(out, open(os.path.join(HERE, "..", "corpus", "clean_cores.json"), "w"))
    print({k: len(v) for k, v in out["clean3"].items()}, [m["motifs"] for m in out["maa3"]])


if __name__ == "__main__":
    main()
