"""Shared machinery of the correspondence harness.

Everything the real code does is executed by importing biobalm from $BALM_REPO (default /repo);
everything the model does is executed by the compiled Lean driver (lean/.lake/build/bin/balmdriver),
whose definitions are the ones the theorems in lean/Balm and lean/BalmProofs are about.
"""
from __future__ import annotations

import hashlib
import json
import os
import random
import signal
import subprocess
import re
import sys
import time

VERIF = os.path.dirname(os.path.dirname(os.path.abspath(__file__)))
REPO = os.environ.get("BALM_REPO", "/repo")
DRIVER = os.path.join(VERIF, "lean", ".lake", "build", "bin", "balmdriver")

_loaded = False


def load_biobalm():
    """Import biobalm from REPO's *current working tree* (never a cached copy)."""
    global _loaded
    if _loaded:
        return
    sys.dont_write_bytecode = True
    sys.path.insert(0, REPO)
    # clingo writes "domRec ignored" on the C-level stderr; silence fd 2 but keep Python's stderr
    if os.environ.get("BALM_KEEP_STDERR") != "1":
        keep = os.dup(2)
        devnull = os.open(os.devnull, os.O_WRONLY)
        os.dup2(devnull, 2)
        sys.stderr = os.fdopen(keep, "w", buffering=1)
    import biobalm  # noqa: F401

    assert os.path.realpath(biobalm.__file__).startswith(os.path.realpath(REPO)), biobalm.__file__
    _loaded = True


# ----------------------------------------------------------------------------------------------
# time guard


class Timeout(Exception):
    pass


def _alarm(*_a):
    raise Timeout()


def guarded(seconds, fn, *a, **k):
    """Run fn under a wall-clock guard; raises Timeout."""
    old = signal.signal(signal.SIGALRM, _alarm)
    signal.setitimer(signal.ITIMER_REAL, seconds)
    try:
        return fn(*a, **k)
    finally:
        signal.setitimer(signal.ITIMER_REAL, 0)
        signal.signal(signal.SIGALRM, old)


# ----------------------------------------------------------------------------------------------
# Lean driver


class DriverError(Exception):
    pass


def run_driver(lines: list[str], timeout: float = 120.0) -> list[str]:
    """Batch protocol: one reply line per command line."""
    if not lines:
        return []
    try:
        p = subprocess.run(
            [DRIVER], input="\n".join(lines) + "\n", capture_output=True, text=True, timeout=timeout
        )
    except subprocess.TimeoutExpired:
        raise DriverError("driver timeout")
    if p.returncode != 0:
        raise DriverError(f"driver exit {p.returncode}: {p.stderr[:300]}")
    out = p.stdout.split("\n")
    if out and out[-1] == "":
        out.pop()
    if len(out) != len(lines):
        raise DriverError(f"driver replied {len(out)} lines to {len(lines)} commands")
    return out


# ----------------------------------------------------------------------------------------------
# translation of networks


def prefix(e, idx) -> str:
    if e.is_const():
        return "T" if e.as_const() else "F"
    if e.is_var():
        return f"v{idx[e.as_var()]}"
    if e.is_not():
        return "! " + prefix(e.as_not(), idx)
    for tag, sym in (("and", "&"), ("or", "|"), ("xor", "^"), ("iff", "="), ("imp", ">")):
        if getattr(e, "is_" + tag)():
            a, b = getattr(e, "as_" + tag)()
            return f"{sym} {prefix(a, idx)} {prefix(b, idx)}"
    if e.is_cond():
        a, b, c = e.as_cond()
        return f"? {prefix(a, idx)} {prefix(b, idx)} {prefix(c, idx)}"
    raise ValueError("unknown expression " + str(e))


class NetInfo:
    """Names, order and the Lean `NET` line of the network held by a SuccessionDiagram."""

    def __init__(self, bn):
        self.names = bn.variable_names()
        self.n = len(self.names)
        self.idx = {nm: i for i, nm in enumerate(self.names)}
        exprs = []
        for v in self.names:
            f = bn.get_update_function(v)
            exprs.append(f"v{self.idx[v]}" if f is None else prefix(f.as_expression(), self.idx))
        self.exprs = exprs
        self.net_line = f"NET {self.n} " + " ; ".join(exprs)

    def sp(self, space: dict) -> str:
        return "".join("-" if nm not in space else str(int(space[nm])) for nm in self.names)

    def unsp(self, s: str) -> dict:
        return {self.names[i]: int(c) for i, c in enumerate(s) if c != "-"}

    def st(self, state: dict) -> str:
        return "".join(str(int(state[nm])) for nm in self.names)


def dump_sd(sd, ni: NetInfo) -> str:
    """Canonical dump of the structural state (same format as the driver's `dumpDiag`)."""
    ns = []
    for i in sd.node_ids():
        d = sd.node_data(i)
        ns.append(
            f"{i}:{ni.sp(d['space'])}:{d['depth']}:{1 if d['expanded'] else 0}:{1 if d['skipped'] else 0}"
        )
    es = [
        f"{u}>{v}[{','.join(ni.sp(m) for m in d['all_motifs'])}]"
        for u, v, d in sorted(sd.dag.edges(data=True), key=lambda e: (e[0], e[1]))
    ]
    return " ".join(ns) + " | " + " ".join(es)


# ----------------------------------------------------------------------------------------------
# generators (every choice from one random.Random)


def rand_expr(rng, names, depth):
    if depth == 0 or rng.random() < 0.25:
        v = rng.choice(names)
        return v if rng.random() < 0.6 else f"!{v}"
    op = rng.choice(["&", "|", "&", "|", "xor"])
    a = rand_expr(rng, names, depth - 1)
    b = rand_expr(rng, names, depth - 1)
    if op == "xor":
        return f"(({a} & !({b})) | (!({a}) & ({b})))"
    return f"({a} {op} {b})"


def g_expr(rng, n, depth=2, p_const=0.05, p_src=0.1, prefix_name="v"):
    names = [f"{prefix_name}{i}" for i in range(n)]
    lines = []
    for v in names:
        r = rng.random()
        if r < p_const:
            e = rng.choice(["true", "false"])
        elif r < p_const + p_src:
            e = v
        else:
            k = rng.randint(1, min(3, n))
            e = rand_expr(rng, rng.sample(names, k), depth)
        lines.append(f"{v}, {e}")
    return "\n".join(lines)


def tt_to_expr(n, table, names):
    terms = []
    for s in range(1 << n):
        if table[s] in (1, "1", True):
            terms.append(
                "(" + " & ".join((names[i] if (s >> i) & 1 else "!" + names[i]) for i in range(n)) + ")"
            )
    if not terms:
        return "false"
    if len(terms) == (1 << n):
        return "true"
    return " | ".join(terms)


def g_tt(rng, n, kmax=3, prefix_name="v"):
    names = [f"{prefix_name}{i}" for i in range(n)]
    lines = []
    for i in range(n):
        regs = rng.sample(range(n), rng.randint(1, min(n, kmax)))
        tab = [rng.randint(0, 1) for _ in range(1 << len(regs))]
        rn = [names[r] for r in regs]
        lines.append(f"{names[i]}, {tt_to_expr(len(regs), tab, rn)}")
    return "\n".join(lines)


_cores = None
_clean = None


def clean_cores():
    global _clean
    if _clean is None:
        _clean = json.load(open(os.path.join(VERIF, "corpus", "clean_cores.json")))
    return _clean


def cores():
    global _cores
    if _cores is None:
        _cores = json.load(open(os.path.join(VERIF, "corpus", "cores.json")))
    return _cores


def core_lines(core, cn):
    n = core["n"]
    return [f"{cn[i]}, {tt_to_expr(n, core['tt'][i], cn)}" for i in range(n)]


def g_compose(rng, kind=None, extra_max=3):
    """A corpus core (motif-avoidant or multi-attractor) embedded in random context:
    latches, inputs, downstream variables."""
    cs = cores()
    if kind is None:
        kind = rng.choice(["maa", "maa", "multi"])
    c = rng.choice(cs[kind])
    n = c["n"]
    cn = [f"c{i}" for i in range(n)]
    lines = core_lines(c, cn)
    ex = [f"x{i}" for i in range(rng.randint(0, extra_max))]
    allv = cn + ex
    for e in ex:
        r = rng.random()
        if r < 0.3:
            lines.append(f"{e}, {e} | ({rand_expr(rng, allv, 2)})")
        elif r < 0.4:
            lines.append(f"{e}, {e} & ({rand_expr(rng, allv, 2)})")
        elif r < 0.55:
            lines.append(f"{e}, {e}")
        else:
            lines.append(f"{e}, {rand_expr(rng, allv, 2)}")
    return "\n".join(lines)


def rand_mono(rng, names, depth):
    """random negation-free expression"""
    if depth == 0 or rng.random() < 0.3:
        return rng.choice(names)
    op = rng.choice(["&", "|"])
    return f"({rand_mono(rng, names, depth - 1)} {op} {rand_mono(rng, names, depth - 1)})"


def g_lattice(rng, n, prefix_name="v"):
    """Latch-rich networks: `x & phi`, `x | phi`, positive cycles, guarded modules.  They have deep,
    diamond-shaped trap-space lattices (nodes reachable by root paths of different length, children
    shared between parents, variables that become identity functions inside a trap space)."""
    names = [f"{prefix_name}{i}" for i in range(n)]
    lines = []
    for i, v in enumerate(names):
        others = [x for x in names if x != v] or names
        r = rng.random()
        phi = rand_mono(rng, rng.sample(others, min(len(others), rng.randint(1, 3))), rng.randint(1, 2))
        if r < 0.3:
            e = f"{v} & {phi}"
        elif r < 0.6:
            e = f"{v} | {phi}"
        elif r < 0.75:
            e = phi
        elif r < 0.85:
            g = rand_mono(rng, others, 1)
            e = f"({g} & ({v} | {phi})) | (!({g}) & !{v})"
        elif r < 0.92:
            e = v
        else:
            e = f"!{v} | {phi}" if rng.random() < 0.5 else f"!({phi})"
        lines.append(f"{v}, {e}")
    return "\n".join(lines)


def g_modulated(rng, extra=True, focus=False):
    """Input-modulated modules: one or two inputs switch the *logic* of a module (a corpus core, an
    oscillator or a bistable pair) while its wiring stays (almost) the same, next to an optional
    independent module.  Under different input valuations the percolated networks have the same
    variables but different dynamics."""
    cs = cores()
    lines = ["i0, i0"]
    kind = rng.choice(["maa", "maa", "multi", "osc"])
    if focus:
        kind = "maa"        # a motif-avoidant core under one valuation, other logic over the same variables under the other
    if kind == "osc":
        n = 2
        cn = ["m0", "m1"]
        f = ["m1", "!m0"]
    else:
        c = rng.choice([x for x in cs[kind] if x["n"] == 3])      # at most 6 variables in total
        n = c["n"]
        cn = [f"m{i}" for i in range(n)]
        f = [tt_to_expr(n, c["tt"][i], cn) for i in range(n)]
    alt_kind = rng.choice(["freeze", "other", "latch", "xor", "samewire", "samewire"])
    clean_tt = None
    if focus:
        alt_kind = rng.choice(["cycle", "latch", "other", "clean", "clean", "clean"])
        if alt_kind == "clean":
            # a network over the same variables with the same number of stable motifs and no motif-avoidant attractor
            cc = clean_cores()
            k = next((m["motifs"] for m in cc["maa3"] if m["tt"] == c["tt"]), 1)
            clean_tt = rng.choice(cc["clean3"].get(str(k)) or cc["clean3"]["1"])
    if alt_kind == "samewire":
        # the input switches the *function* of the module while regulators and signs stay the same
        n = 3
        cn = ["m0", "m1", "m2"]
        pairs = [(f"{a} | {b}", f"{a} & {b}") for a, b in (("m1", "m2"), ("m0", "m2"), ("m0", "m1"))]
        for k in range(n):
            a, b = pairs[k] if rng.random() < 0.5 else pairs[k][::-1]
            if rng.random() < 0.3:
                a, b = f"{cn[k]} | ({a})", f"{cn[k]} & ({b})"
            lines.append(f"{cn[k]}, (i0 & ({a})) | (!i0 & ({b}))")
        f = []
    for k in range(n if alt_kind != "samewire" else 0):
        if alt_kind == "freeze":
            g = cn[k]
        elif alt_kind == "clean":
            g = tt_to_expr(3, clean_tt[k], cn)
        elif alt_kind == "cycle":
            g = cn[(k + 1) % n]          # positive cycle: stable motifs all-0 and all-1, no motif-avoidant attractor
        elif alt_kind == "latch":
            g = f"{cn[k]} | {rng.choice(cn)}"
        elif alt_kind == "xor":
            o = rng.choice(cn)
            g = f"({cn[k]} & !{o}) | (!{cn[k]} & {o})"
        else:
            g = rand_expr(rng, cn, 2)
        a, b = (f[k], g) if rng.random() < 0.5 else (g, f[k])
        lines.append(f"{cn[k]}, (i0 & ({a})) | (!i0 & ({b}))")
    has_extra = extra and rng.random() < (0.5 if focus else 0.7)
    if has_extra:
        r = rng.random()
        if r < 0.4:
            lines += ["p, q", "q, p"]
        elif r < 0.7:
            lines += ["p, !q | (i0 & p)", "q, p"]
        else:
            lines += [f"p, p | {rng.choice(cn)}"]
    if not has_extra and rng.random() < 0.4:
        lines.append("i1, i1")
        lines.append(f"z, (i1 & {rng.choice(cn)}) | (!i1 & z)")
    return "\n".join(lines)


def g_chains(rng, total_max=8, kind=None):
    """A small core (motif-avoidant corpus core, the two-variable burst oscillator, a multi-attractor
    core or a plain input) that triggers several *chains* of latches: `x1 | t`, `x1 & (x2 | t)`, ...
    The trap-space lattice is a grid (product of chains): most nodes have several parents, parents
    are discovered in different orders by different strategies (a node can be created before one of
    its parents), and the core attractor lies in the intersection of many sub-diagram nodes."""
    cs = cores()
    if kind is None:
        kind = rng.choice(["maa", "maa", "burst", "multi", "input"])
    if kind in ("maa", "multi"):
        c = rng.choice([x for x in cs[kind] if x["n"] == 3])
        cn = ["c0", "c1", "c2"]
        lines = core_lines(c, cn)
    elif kind == "burst":
        cn = ["a", "b"]
        lines = ["a, !a & !b", "b, !a & !b"]
        if rng.random() < 0.7:
            lines.append("c, c | (a & b)")
    else:
        cn = ["a"]
        lines = ["a, a"] if rng.random() < 0.5 else ["a, !a"]
    left = total_max - len(lines)
    nchains = 0
    while left > 0 and nchains < 3:
        ln = rng.randint(1, min(2, left)) if rng.random() < 0.8 else min(3, left)
        left -= ln
        t = rng.choice(cn)
        if rng.random() < 0.3:
            t = f"({t} & {rng.choice(cn)})" if rng.random() < 0.5 else f"!{t}"
        pre = "xyz"[nchains]
        prev = None
        for k in range(ln):
            v = f"{pre}{k + 1}"
            if prev is None:
                lines.append(f"{v}, {v} | {t}")
            elif rng.random() < 0.7:
                lines.append(f"{v}, {prev} & ({v} | {t})")
            else:
                lines.append(f"{v}, {v} | ({prev} & {t})")
            prev = v
        nchains += 1
        if rng.random() < 0.25:
            break
    return "\n".join(lines)


def g_wide(rng, k=None):
    """One update function with many regulators and shared sub-structure (a multiplexer tree over the
    first inputs with non-trivial leaf functions over the others: large BDDs with shared sub-graphs,
    the shape of signalling functions in the published models); the inputs are identity functions."""
    k = k or rng.randint(7, 8)
    ins = [f"a{j}" for j in range(k)]
    nsel = rng.randint(2, 3)
    sel, rest = ins[:nsel], ins[nsel:]

    def leaf():
        vs = rng.sample(rest, min(len(rest), rng.randint(3, 4)))
        forms = ["{0} | {1} | ({2} & {3})", "{3} & ({0} | {1})", "({0} & {1}) | ({2} & {3})", "{0} | ({1} & {2})",
                 "{0} & {1} & {2}", "({0} | {1}) & ({2} | {3})", "({0} & !{1}) | (!{0} & {1}) | {2}"]
        vs = (vs * 2)[:4]
        return "(" + rng.choice(forms).format(*vs) + ")"

    def mux(d):
        if d >= len(sel):
            return leaf()
        return f"(({sel[d]} & {mux(d + 1)}) | (!{sel[d]} & {mux(d + 1)}))"

    p, q = rng.sample(ins, 2)
    lines = [f"{v}, {v}" for v in ins]
    if rng.random() < 0.5 and len(rest) >= 4:
        # two branches over different variables that share one large sub-function (a parity)
        g4 = rng.sample(rest, 4)
        def xor(a, b):
            return f"(({a} & !{b}) | (!{a} & {b}))"
        G = xor(xor(g4[0], g4[1]), xor(g4[2], g4[3]))
        u, w = rng.sample([v for v in ins if v not in g4 and v != sel[0]] or rest, 2) if len([v for v in ins if v not in g4 and v != sel[0]]) >= 2 else (sel[-1], rest[0])
        lines.append(f"x, ({sel[0]} & {u} & {G}) | (!{sel[0]} & {w} & {G})")
    else:
        lines.append(f"x, ({mux(0)}) & (!{p} | !{q} | !x)")
    return "\n".join(lines)


def g_idtrap(rng, nmax=6):
    """A gate variable (input or latch) under which several other variables degenerate to identity
    functions: inside the trap space fixing the gate, the percolated network consists (mostly) of
    source variables - the situation of the source-node shortcuts below the root."""
    k = rng.randint(2, max(2, nmax - 1))
    vs = [f"w{i}" for i in range(k)]
    lines = ["g, g" if rng.random() < 0.6 else f"g, g | ({rng.choice(vs)} & {rng.choice(vs)})"]
    for v in vs:
        o = rng.choice([x for x in vs if x != v])
        form = rng.choice(["{v} | g", "{v} & !g", "{v} | !g", "{v} & g", "{v} | (g & {o})", "{v} & (!g | {o})", "({v} & !g) | (g & {o})", "{v}"])
        lines.append(f"{v}, " + form.format(v=v, o=o))
    return "\n".join(lines)


def g_union(rng, nmax=6, nested=False):
    """Two (or three) independent modules side by side - several source SCCs, each with its own nested
    trap spaces - optionally feeding a common downstream variable."""
    parts = []
    left = nmax
    for k, pre in enumerate("pqr"):
        if left < 2 or (k >= 2 and rng.random() < 0.6):
            break
        m = rng.randint(2, min(3, left))
        r = rng.random()
        if r < 0.5:
            parts.append(g_lattice(rng, m, prefix_name=pre))
        elif r < 0.8:
            parts.append(g_expr(rng, m, depth=2, p_const=0.0, p_src=0.1, prefix_name=pre))
        else:
            # positive cycle, bistable pair, or an oscillator (negative cycle: no stable motif at all)
            parts.append(rng.choice([f"{pre}0, {pre}1\n{pre}1, {pre}0", f"{pre}0, !{pre}1\n{pre}1, !{pre}0", f"{pre}0, !{pre}1\n{pre}1, {pre}0"]))
            m = 2
        left -= m
    text = "\n".join(parts)
    names = [l.split(",")[0].strip() for l in text.split("\n")]
    if nested:
        # a downstream variable per module that sustains itself once the module has switched it on/off: the
        # block of its stable motif strictly contains the block(s) of the module; its name sorts before or
        # after the module's names, so nested blocks are listed in different orders
        for pre in sorted({nm[0] for nm in names}):
            if left < 1 or rng.random() < 0.25:
                continue
            mod = [nm for nm in names if nm[0] == pre]
            d = (chr(ord(pre) - 15) + "d") if rng.random() < 0.5 else (pre + "z")   # 'a'..'c' + d  <  p,q,r  <  pz
            src = rng.choice(mod)
            form = rng.choice(["{d} | {s}", "{d} | {s}", "{d} & {s}", "{d} | !{s}", "{d} | ({s} & {t})"])
            text += "\n" + f"{d}, " + form.format(d=d, s=src, t=rng.choice(mod))
            left -= 1
        names = [l.split(",")[0].strip() for l in text.split("\n")]
    if left >= 1 and rng.random() < 0.5:
        e = rand_expr(rng, rng.sample(names, min(len(names), 3)), 2)
        text += f"\nz, {e}" if rng.random() < 0.6 else f"\nz, ({e}) | z"
    return text


def g_oscillators(rng, nmax=6):
    """Two or three independent modules without any stable motif (negative cycles, negative self-loops): source SCCs
    whose own succession diagrams are trivial, feeding downstream latches / functions."""
    lines, names = [], []
    for pre in "pqr"[:rng.randint(2, 3)]:
        if len(lines) + 2 > nmax - 1:
            break
        if rng.random() < 0.7:
            lines += [f"{pre}0, !{pre}1", f"{pre}1, {pre}0"]
            names += [f"{pre}0", f"{pre}1"]
        else:
            lines.append(f"{pre}0, !{pre}0")
            names.append(f"{pre}0")
    for d in ("e", "f")[:rng.randint(1, 2)]:
        if len(lines) >= nmax:
            break
        e = rand_expr(rng, rng.sample(names, min(len(names), rng.randint(1, 3))), rng.randint(1, 2))
        lines.append(rng.choice([f"{d}, ({e}) | {d}", f"{d}, ({e}) & {d}", f"{d}, {e}", f"{d}, ({e}) | {d}"]))
    return "\n".join(lines)


def g_mixed(rng, nmax=6, p_core=0.4):
    r = rng.random()
    if nmax >= 5 and r > 0.96:
        return g_oscillators(rng, nmax) if rng.random() < 0.5 else g_union(rng, nmax, nested=True)
    if nmax >= 5 and r > 0.90:
        return g_union(rng, nmax)
    if nmax >= 5 and r < 0.12:
        return g_modulated(rng, extra=nmax >= 6)
    r = rng.random()
    if r < 0.22:
        return g_lattice(rng, rng.randint(3, nmax))
    if nmax >= 5 and r < 0.30:
        return g_chains(rng, total_max=min(nmax, 6), kind=rng.choice(["burst", "burst", "input", "maa"]))
    r = rng.random()
    if r < p_core:
        return g_compose(rng, extra_max=max(0, nmax - 4))
    if r < p_core + 0.2:
        return g_tt(rng, rng.randint(2, min(nmax, 5)))
    return g_expr(rng, rng.randint(2, nmax), depth=rng.randint(1, 3), p_const=0.06, p_src=0.15)


# ----------------------------------------------------------------------------------------------
# results, evidence, findings


def decoy_bnet(rng, bnet: str) -> str:
    """A network related to `bnet`: same variable names, but other positions (names rotated), other
    signs (a variable negated wherever it is read) or other logic (and/or swapped in some functions)."""
    rows = [l.split(",", 1) for l in bnet.split("\n") if "," in l]
    names = [a.strip() for a, _ in rows]
    exprs = [b.strip() for _, b in rows]
    kinds = rng.sample(["rotate", "sign", "logic", "shift"], rng.randint(1, 2))
    if "shift" in kinds:
        # one more variable whose name sorts between the others: every later name moves one position up
        k = rng.randrange(len(names))
        names = names[:k + 1] + [names[k] + "a"] + names[k + 1:]
        exprs = exprs[:k + 1] + [rng.choice(names)] + exprs[k + 1:]
        rows = list(zip(names, exprs))
    if "rotate" in kinds and len(names) >= 2:
        k = rng.randint(1, len(names) - 1)
        m = {names[i]: names[(i + k) % len(names)] for i in range(len(names))}
        exprs = [re.sub(r"[A-Za-z_][A-Za-z0-9_]*", lambda t: m.get(t.group(0), t.group(0)), e) for e in exprs]
        exprs = exprs[-k:] + exprs[:-k]
    if "sign" in kinds:
        v = rng.choice(names)
        exprs = [e if names[i] == v else re.sub(r"\b" + re.escape(v) + r"\b", f"(!{v})", e) for i, e in enumerate(exprs)]
    if "logic" in kinds:
        for i in range(len(exprs)):
            if rng.random() < 0.5:
                exprs[i] = exprs[i].replace("&", "\0").replace("|", "&").replace("\0", "|")
    out = "\n".join(f"{n}, {e}" for n, e in zip(names, exprs))
    if out == bnet and len(names) >= 2:
        m = {names[i]: names[(i + 1) % len(names)] for i in range(len(names))}
        ex2 = [re.sub(r"[A-Za-z_][A-Za-z0-9_]*", lambda t: m.get(t.group(0), t.group(0)), e.strip()) for _, e in rows]
        out = "\n".join(f"{n}, {e}" for n, e in zip(names, ex2[-1:] + ex2[:-1]))
    return out


TRICKY = ["S", "S_R", "S_R_up_1", "x_up_y", "x_down", "x_down_y", "tr_a", "tr_a_up_1", "a_b0", "b1_c", "p_up", "p_up_stream", "EGF", "EGF_R",
          "g", "g_act", "g_act_1", "n_up", "vdown_1", "b0_x", "b1_x", "k_up_k", "A_", "A__1"]


def tricky_names(rng, k):
    """`k` distinct names, most of them prefix-related within one or two families, with the fragments the
    Petri-net encoding uses in its own identifiers"""
    out = []
    while len(out) < k:
        base = rng.choice(["S", "EGF", "g", "x", "tr_a", "p", "n", "b0", "b1", "sw"])
        fam = [base]
        for _ in range(rng.randint(1, 4)):
            cand = rng.choice(fam) + rng.choice(["_R", "_up", "_up_1", "_down", "_down_1", "_act", "_1", "_", "_up_clk", "_b0", "_b1_x", "_tr"])
            if cand not in fam:
                fam.append(cand)
        for x in fam:
            if x not in out and len(out) < k:
                out.append(x)
    rng.shuffle(out)
    return out


def mangle_names(rng, bnet: str) -> str:
    """the same network with variable names that are prefixes of each other or contain the fragments the
    Petri-net encoding uses in its own identifiers (`tr_`, `_up_`, `_down_`, `b0_`, `b1_`)"""
    rows = [l.split(",", 1) for l in bnet.split("\n") if "," in l]
    names = sorted({t for _, e in rows for t in re.findall(r"[A-Za-z_][A-Za-z0-9_]*", e) if t not in ("true", "false")} | {a.strip() for a, _ in rows})
    m = dict(zip(names, tricky_names(rng, len(names))))
    sub = lambda txt: re.sub(r"[A-Za-z_][A-Za-z0-9_]*", lambda t: m.get(t.group(0), t.group(0)), txt)
    return "\n".join(f"{m[a.strip()]}, {sub(e.strip())}" for a, e in rows)


def free_inputs(rng, bnet: str) -> str:
    """identity inputs `x, x` turned into free inputs (no update function at all), as in aeon / sbml files"""
    rows = [l.split(",", 1) for l in bnet.split("\n") if "," in l]
    out = []
    for a, e in rows:
        v = a.strip()
        used = any(re.search(r"\b" + re.escape(v) + r"\b", e2) for a2, e2 in rows if a2.strip() != v)
        if e.strip() in (v, f"({v})") and used and rng.random() < 0.8:
            continue
        out.append(f"{v}, {e.strip()}")
    return "\n".join(out) if out else bnet


def with_decoy(mod, case, seed_str):
    """variants of a generated case: tricky variable names, free inputs, and a decoy case (run first,
    result ignored) for a fraction of the cases"""
    p = getattr(mod, "DECOY", 0.25)
    if not isinstance(case, dict) or not isinstance(case.get("bnet"), str) or "_decoy" in case:
        return case
    rng = random.Random(seed_str)
    try:
        if rng.random() < getattr(mod, "NAMES", 0.12):
            case = dict(case, bnet=mangle_names(rng, case["bnet"]))
        if rng.random() < getattr(mod, "FREE_INPUTS", 0.06):
            case = dict(case, bnet=free_inputs(rng, case["bnet"]))
        if rng.random() < getattr(mod, "RARE_CFG", 0.0):
            # rarely used values of options that select other code paths but must not change any result
            cfg = dict(case.get("cfg", {}))
            for key, vals in (("nfvs_size_threshold", [0, 1, 3]), ("retained_set_optimization_threshold", [0, 1, 2, 5]),
                              ("minimum_simulation_budget", [0, 1, 7])):
                if key not in cfg and rng.random() < 0.5:
                    cfg[key] = rng.choice(vals)
            case = dict(case, cfg=cfg)
        if rng.random() < getattr(mod, "DEBUG_FLAGS", 0.04):
            # debug output switched on (config["debug"] and the module flag of the Petri-net translation): printing must
            # not change any result (the runner silences stdout while such a case runs)
            case = dict(case, cfg=dict(case.get("cfg", {}), debug=True), _debug=True)
        if rng.random() < getattr(mod, "ISO_INPUT", 0.0):
            # one more variable that nothing reads and that has no update function (an isolated free input)
            case = dict(case, iso_input=True)
        if "order" not in case and rng.random() < getattr(mod, "ORDER", 0.08):
            # variables declared in a non-alphabetical order (`BooleanNetwork(variables=[...])`; honoured by plain.make_sd)
            case = dict(case, order=[rng.randrange(64) for _ in range(8)])
    except Exception:
        pass
    if rng.random() >= p:
        return case
    d = dict(case)
    try:
        d["bnet"] = decoy_bnet(rng, case["bnet"])
    except Exception:
        return case
    out = dict(case)
    out["_decoy"] = d
    return out


def case_hash(obj) -> str:
    return hashlib.sha1(json.dumps(obj, sort_keys=True, default=str).encode()).hexdigest()[:12]


def known_findings():
    p = os.path.join(VERIF, "findings", "known_findings.json")
    if not os.path.exists(p):
        return []
    return json.load(open(p)).get("findings", [])


def write_json(path, obj):
    os.makedirs(os.path.dirname(path), exist_ok=True)
    tmp = path + ".tmp"
    with open(tmp, "w") as f:
        json.dump(obj, f, indent=1, default=str)
    os.replace(tmp, path)
