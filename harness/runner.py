"""Check driver: proof obligations + correspondence/judge campaign + verdict + evidence.

Usage: python harness/runner.py C04 [--tier quick|thorough] [--replay FILE]
Exit 0: property held on everything explored (KNOWN-FINDING lines allowed);
exit 1: `VIOLATION property=<id> replay=<path>` printed; exit 2: inconclusive (infrastructure).
"""
from __future__ import annotations

import argparse
import importlib
import json
import multiprocessing as mp
import os
import random
import re
import subprocess
import sys
import time
import traceback

sys.path.insert(0, os.path.dirname(os.path.abspath(__file__)))
import common  # noqa: E402

VERIF = common.VERIF
LEAN = os.path.join(VERIF, "lean")
OUT = os.environ.get("VERIF_OUT", VERIF)     # evidence/replay root (scratch runs against seeded changes redirect it)
SYMTIE_PIDS = {"C01", "C05", "C08", "C12", "C14", "C16", "C17", "C18", "C20"}
SYMHYP_PIDS = {"C01", "C08", "C12"}          # where "candidates cover" is part of the property's own chain
STD_AXIOMS = {"propext", "Classical.choice", "Quot.sound"}
FORBIDDEN = re.compile(r"\b(sorry|admit|native_decide|bv_decide|implemented_by|maxHeartbeats\s+0)\b|^\s*axiom\s|\bunsafe\s")


# ----------------------------------------------------------------------------------------------
# proof obligations


def strip_comments(src: str) -> str:
    src = re.sub(r"/-.*?-/", "", src, flags=re.S)
    return re.sub(r"--.*", "", src)


def grep_forbidden() -> list[str]:
    hits = []
    for root in ("Balm", "BalmProofs"):
        for dp, _dn, fns in os.walk(os.path.join(LEAN, root)):
            for fn in fns:
                if fn.endswith(".lean"):
                    p = os.path.join(dp, fn)
                    for ln, line in enumerate(strip_comments(open(p).read()).split("\n"), 1):
                        if FORBIDDEN.search(line):
                            hits.append(f"{os.path.relpath(p, LEAN)}:{ln}: {line.strip()[:80]}")
    for fn in ("Main.lean",):
        p = os.path.join(LEAN, fn)
        for ln, line in enumerate(strip_comments(open(p).read()).split("\n"), 1):
            if re.search(r"\b(sorry|admit|native_decide|implemented_by)\b|^\s*axiom\s", line):
                hits.append(f"{fn}:{ln}: {line.strip()[:80]}")
    return hits


def check_proofs(pid: str, thorough: bool) -> dict:
    """Build the property's theorem file and the driver, audit axioms."""
    t0 = time.time()
    obl = json.load(open(os.path.join(LEAN, "obligations.json")))
    wanted = obl.get(pid, [])
    res = {
        "obligations": len(wanted),
        "discharged": 0,
        "theorems": {},
        "build_ok": False,
        "forbidden_hits": [],
        "checker_cmd": f"cd lean && lake build balmdriver BalmProofs.Props.{pid} && lake env lean BalmProofs/Audit/{pid}.lean",
        "problems": [],
    }
    b = subprocess.run(
        ["lake", "build", "balmdriver", f"BalmProofs.Props.{pid}"], cwd=LEAN, capture_output=True, text=True
    )
    res["build_ok"] = b.returncode == 0
    if b.returncode != 0:
        tail = (b.stdout + b.stderr).strip().split("\n")[-15:]
        res["problems"].append("lake build failed: " + " / ".join(tail))
        # the driver may still be buildable on its own
        subprocess.run(["lake", "build", "balmdriver"], cwd=LEAN, capture_output=True, text=True)
    res["forbidden_hits"] = grep_forbidden()
    if res["forbidden_hits"]:
        res["problems"].append("forbidden constructs: " + "; ".join(res["forbidden_hits"][:5]))
    if res["build_ok"]:
        a = subprocess.run(
            ["lake", "env", "lean", f"BalmProofs/Audit/{pid}.lean"], cwd=LEAN, capture_output=True, text=True
        )
        out = a.stdout + a.stderr
        found = {}
        for m in re.finditer(r"'([^']+)' depends on axioms: \[([^\]]*)\]", out, flags=re.S):
            found[m.group(1)] = {x.strip() for x in m.group(2).replace("\n", " ").split(",") if x.strip()}
        for m in re.finditer(r"'([^']+)' does not depend on any axioms", out):
            found[m.group(1)] = set()
        if a.returncode != 0:
            res["problems"].append("audit file failed: " + out.strip()[-300:])
        for th in wanted:
            if th not in found:
                res["theorems"][th] = "missing"
                res["problems"].append(f"theorem {th} not found by the audit")
            elif not found[th] <= STD_AXIOMS:
                res["theorems"][th] = "axioms:" + ",".join(sorted(found[th] - STD_AXIOMS))
                res["problems"].append(f"theorem {th} uses non-standard axioms {sorted(found[th] - STD_AXIOMS)}")
            else:
                res["theorems"][th] = "ok:" + ",".join(sorted(found[th]))
                if not res["forbidden_hits"]:
                    res["discharged"] += 1
    else:
        for th in wanted:
            res["theorems"][th] = "not-built"
    if thorough and res["build_ok"]:
        mods = [f"BalmProofs.Props.{pid}"]
        c = subprocess.run(["lake", "env", "leanchecker"] + mods, cwd=LEAN, capture_output=True, text=True)
        res["leanchecker"] = "ok" if c.returncode == 0 else "failed: " + (c.stdout + c.stderr)[-300:]
        if c.returncode != 0:
            res["problems"].append("leanchecker rejected " + ",".join(mods))
    res["wall_s"] = round(time.time() - t0, 2)
    return res


# ----------------------------------------------------------------------------------------------
# campaign


def _worker(args):
    pid, case, timeout = args
    common.load_biobalm()
    mod = importlib.import_module(f"props.{pid}")
    t0 = time.time()
    dbg = isinstance(case, dict) and case.get("_debug")
    saved_fd = None
    if dbg:
        import biobalm.petri_net_translation as _pnt
        _pnt.DEBUG = True
        sys.stdout.flush()
        saved_fd = os.dup(1)
        _dn = os.open(os.devnull, os.O_WRONLY)
        os.dup2(_dn, 1)
        os.close(_dn)
    try:
        return _worker_inner(pid, case, timeout, mod, t0)
    finally:
        if dbg:
            _pnt.DEBUG = False
            sys.stdout.flush()
            os.dup2(saved_fd, 1)
            os.close(saved_fd)


def _worker_inner(pid, case, timeout, mod, t0):
    if isinstance(case, dict) and case.get("_decoy") is not None:
        # history of the process: a related network (same names, other positions / signs / logic) is put
        # through the same calls first; its results are ignored, the real case must be unaffected by it
        try:
            common.guarded(timeout, mod.run_case, case["_decoy"])
        except BaseException as e:
            if isinstance(e, KeyboardInterrupt):
                raise
    tie = pid in SYMTIE_PIDS
    if tie:
        import symtie
        symtie.begin()
    try:
        r = common.guarded(timeout, mod.run_case, case)
        if tie:
            # the candidate loop of compute_attractors_symbolic, replayed on the Lean model
            d2, t2, nt2, f2 = common.guarded(timeout, symtie.finish)
            r.setdefault("diffs", []).extend(d2)
            if pid in SYMHYP_PIDS:
                r.setdefault("fails", []).extend(f2)
            r["tags"] = sorted(set(r.get("tags", [])) | t2)
    except common.Timeout:
        r = {"fails": [], "diffs": [], "timeout": True}
    except common.DriverError as e:
        r = {"fails": [], "diffs": [], "infra": f"driver: {e}"}
    except BaseException as e:  # harness bug or unexpected exception of the real code
        # BaseException on purpose: a panic inside the AEON extension (pyo3 `PanicException`) does not derive from
        # Exception; uncaught it kills the pool worker and the whole campaign waits for ever for its result
        if isinstance(e, (KeyboardInterrupt, SystemExit, GeneratorExit)):
            raise
        msg = ("".join(traceback.format_exception_only(type(e), e)).strip()[:300]
               + " @ " + traceback.format_tb(e.__traceback__)[-1].strip()[:200])
        frames = traceback.extract_tb(e.__traceback__)
        inner = os.path.realpath(frames[-1].filename) if frames else ""
        in_repo = inner.startswith(os.path.realpath(os.path.join(common.REPO, "biobalm")))
        if in_repo and not isinstance(e, (MemoryError, KeyboardInterrupt)):
            # an API call on a valid input died inside biobalm: no result, hence no property holds for it
            r = {"fails": [{"kind": "unexpected-exception", "sig": {"type": type(e).__name__}, "detail": msg}], "diffs": []}
        else:
            r = {"fails": [], "diffs": [], "infra": "exception: " + msg}
    r.setdefault("fails", [])
    r.setdefault("diffs", [])
    r["case"] = case
    r["wall"] = round(time.time() - t0, 3)
    return r


def generic_shrink(pid, mod, case, fail, budget_s=90, max_runs=80):
    """Smaller replay: drop the decoy, drop operations, remove variables of the network (replaced by a
    constant), as long as a failure of the same kind persists.  Bounded; the original case is kept on any doubt."""
    if not isinstance(case, dict):
        return case
    common.load_biobalm()
    t_end = time.time() + budget_s
    runs = [0]

    def still(c):
        if time.time() > t_end or runs[0] >= max_runs:
            return False
        runs[0] += 1
        try:
            r = _worker((pid, c, 30))
        except Exception:
            return False
        return any(f.get("kind") == fail.get("kind") for f in r.get("fails", []))

    cur = case
    if cur.get("_decoy") is not None:
        c2 = {k: v for k, v in cur.items() if k != "_decoy"}
        if still(c2):
            cur = c2
    if isinstance(cur.get("ops"), list) and len(cur["ops"]) > 1:
        ops = list(cur["ops"])
        i = 0
        while i < len(ops) and len(ops) > 1:
            cand = dict(cur, ops=ops[:i] + ops[i + 1:])
            if still(cand):
                ops = cand["ops"]
                cur = cand
            else:
                i += 1
    if isinstance(cur.get("bnet"), str) and "order" not in cur:
        rows = [l.split(",", 1) for l in cur["bnet"].split("\n") if "," in l]
        names = [a.strip() for a, _ in rows]
        for v in reversed(names):
            if len(rows) <= 2:
                break
            for const in ("false", "true"):
                new = [(a, re.sub(r"\b" + re.escape(v) + r"\b", const, b)) for a, b in rows if a.strip() != v]
                cand = dict(cur, bnet="\n".join(f"{a.strip()}, {b.strip()}" for a, b in new))
                if still(cand):
                    cur, rows = cand, new
                    break
    return cur


def matches_finding(pid, fail, findings):
    for f in findings:
        if f.get("property") != pid or f.get("status") != "finding":
            continue
        if f.get("kind") != fail.get("kind"):
            continue
        want = f.get("match", {})
        sig = fail.get("sig", {})
        if all(sig.get(k) == v for k, v in want.items()):
            return f
    return None


def run_campaign(pid, mod, cases, timeout, procs=16):
    """every case in a pool of worker processes; a worker that dies hard (segmentation fault of a foreign engine) or
    hangs outside the per-case guard must not block the check for ever: the wait for the *next* result is bounded"""
    results = []
    pool = mp.Pool(processes=procs, maxtasksperchild=200)
    try:
        it = pool.imap_unordered(_worker, [(pid, c, timeout) for c in cases], chunksize=1)
        for _ in range(len(cases)):
            try:
                results.append(it.next(timeout=6 * timeout + 300))
            except mp.TimeoutError:
                results.append({"fails": [], "diffs": [], "case": None, "lost": True,
                                "infra": f"no result from any worker for {6 * timeout + 300} s: a worker process died or hangs; "
                                         f"{len(cases) - len(results)} cases were not run"})
                break
    finally:
        pool.terminate()
        pool.join()
    return results


def main():
    ap = argparse.ArgumentParser()
    ap.add_argument("pid")
    ap.add_argument("--tier", default=os.environ.get("VERIF_TIER", "quick"))
    ap.add_argument("--replay")
    ap.add_argument("--cases", type=int)
    a = ap.parse_args()
    pid = a.pid
    tier = a.tier if a.tier in ("quick", "thorough") else "quick"
    seed = int(os.environ.get("VERIF_SEED", "0") or 0)
    t0 = time.time()
    mod = importlib.import_module(f"props.{pid}")
    findings = common.known_findings()

    if a.replay:
        rep = json.load(open(a.replay))
        r = _worker((pid, rep["case"], 300))
        bad = [f for f in r["fails"] if not matches_finding(pid, f, findings)]
        for f in r["fails"]:
            print(("FAIL " if f in bad else "KNOWN ") + json.dumps(f, default=str)[:600])
        for d in r["diffs"]:
            print("DIFF " + json.dumps(d, default=str)[:600])
        if r.get("timeout"):
            print("TIMEOUT")
        if r.get("infra"):
            print("INFRA " + r["infra"])
        if bad or r["diffs"] or (pid == "C13" and r.get("timeout")):
            print(f"VIOLATION property={pid} replay={a.replay}" + ("" if bad else " no-failing-input-found"))
            sys.exit(1)
        print("replay: no violation")
        sys.exit(0)

    proofs = check_proofs(pid, tier == "thorough")
    if not os.path.exists(common.DRIVER):
        print(f"INCONCLUSIVE property={pid}: Lean driver did not build: {proofs['problems']}")
        sys.exit(2)

    rng = random.Random(f"{pid}/{seed}/{tier}")
    ncases = a.cases or mod.budget(tier)
    cases = list(mod.corpus()) if hasattr(mod, "corpus") else []
    ncorpus = len(cases)
    for k in range(ncases):
        cases.append(common.with_decoy(mod, mod.gen_case(rng, tier, k), f"{pid}/{seed}/{tier}/decoy/{k}"))
    timeout = getattr(mod, "CASE_TIMEOUT", {"quick": 30, "thorough": 120})[tier]
    results = run_campaign(pid, mod, cases, timeout)

    def triage(results):
        fails, known, diffs, timeouts, infra = [], {}, [], [], []
        for r in results:
            for f in r["fails"]:
                kf = matches_finding(pid, f, findings)
                if kf:
                    known.setdefault(kf["id"], (kf, 0))
                    known[kf["id"]] = (kf, known[kf["id"]][1] + 1)
                else:
                    fails.append((f, r["case"]))
            for d in r["diffs"]:
                diffs.append((d, r["case"]))
            if r.get("timeout"):
                timeouts.append(r["case"])
            if r.get("infra"):
                infra.append((r["infra"], r["case"]))
        return fails, known, diffs, timeouts, infra

    fails, known, diffs, timeouts, infra = triage(results)
    searched = 0
    if not fails and (diffs or proofs["problems"]):
        # broken correspondence / proof obligation without a failing input: search harder
        extra = [common.with_decoy(mod, mod.gen_case(rng, tier, ncases + k), f"{pid}/{seed}/{tier}/decoy/{ncases + k}") for k in range(4 * ncases)]
        if diffs and hasattr(mod, "neighbours"):
            for d, c in diffs[:5]:
                extra = list(mod.neighbours(c, rng)) + extra
        more = run_campaign(pid, mod, extra, timeout)
        searched = len(extra)
        f2, k2, d2, t2, i2 = triage(more)
        fails += f2
        results += more
        for kid, v in k2.items():
            known[kid] = (v[0], v[1] + known.get(kid, (v[0], 0))[1])

    # C13 counts a hang of the real code as a failure of its own
    if pid == "C13":
        for c in timeouts:
            f = {"kind": "no-termination-within-guard", "sig": {}, "detail": "real call exceeded the wall-clock guard"}
            if not matches_finding(pid, f, findings):
                fails.append((f, c))
        timeouts_inconclusive = []
    else:
        timeouts_inconclusive = timeouts

    # ------------------------------------------------------------------ evidence
    sigs = {}
    tags = {}
    for r in results:
        for tg in r.get("tags", []):
            tags[tg] = tags.get(tg, 0) + 1
        if r.get("nontrivial"):
            sigs[r.get("sig") or common.case_hash(r["case"])] = 1
    metrics = {}
    for r in results:
        for mk_, mv in (r.get("metrics") or {}).items():
            metrics[mk_] = max(metrics.get(mk_, mv), mv)
    samples = [r["case"] for r in results[:3]] + [r.get("sample") for r in results[:2] if r.get("sample")]
    violations = len(fails) + (1 if (not fails and (diffs or proofs["problems"])) else 0)
    ev = {
        "property_id": pid,
        "tier": tier,
        "seed": seed,
        "level": "proof",
        "coverage": {
            "obligations": max(proofs["obligations"], 1) if proofs["obligations"] else 0,
            "discharged": proofs["discharged"],
            "checker_cmd": proofs["checker_cmd"],
            "trusted_base": [
                "Lean 4.33 kernel + elaborator; axioms allowed: propext, Classical.choice, Quot.sound (audited by #print axioms on every run)",
                "Lean compiler/runtime for the driver executable (executes the definitions the theorems are about)",
                "Python harness: generators, translation of AEON expressions to BExpr, canonicalisation, diff",
                "external assumptions of this property, see 'assumptions'",
            ],
            "theorems": proofs["theorems"],
            "proof_problems": proofs["problems"],
            "leanchecker": proofs.get("leanchecker", "not run (thorough tier only)"),
            "evaluations": len(results),
            "distinct_nontrivial": len(sigs),
            "rule": getattr(mod, "RULE", ""),
            "samples": samples[:5],
            "corpus_cases": ncorpus,
            "tags": dict(sorted(tags.items())),
            "max_metrics": metrics,
            "correspondence_diffs": len(diffs),
            "judge_failures": len(fails),
            "known_findings_seen": {k: v[1] for k, v in known.items()},
            "timeouts": len(timeouts),
            "infrastructure_errors": len(infra),
            "extra_search_cases": searched,
        },
        "assumptions": getattr(mod, "ASSUMPTIONS", []),
        "wall_s": round(time.time() - t0, 2),
        "violations": violations,
    }
    common.write_json(os.path.join(OUT, "evidence", f"{pid}.json"), ev)

    # ------------------------------------------------------------------ verdict
    for kid, (kf, cnt) in sorted(known.items()):
        print(f"KNOWN-FINDING: property={pid} {kf['id']}: {kf['what']} (seen {cnt}x in this run)")
    rc = 0
    if fails:
        f, c = min(fails, key=lambda fc: len(json.dumps(fc[1], default=str)))
        if hasattr(mod, "shrink"):
            try:
                c = mod.shrink(c, f)
            except Exception:
                pass
        try:
            if os.environ.get("VERIF_NOSHRINK") != "1":
                c = generic_shrink(pid, mod, c, f)
        except Exception:
            pass
        path = os.path.join(OUT, "evidence", "replay", f"{pid}-{common.case_hash(c)}.json")
        common.write_json(path, {"property": pid, "case": c, "failure": f, "seed": seed, "tier": tier,
                                 "other_failures": len(fails) - 1})
        print(f"FAIL {json.dumps(f, default=str)[:500]}")
        print(f"VIOLATION property={pid} replay={os.path.relpath(path, OUT)}")
        rc = 1
    elif diffs or proofs["problems"]:
        what = {"property": pid, "seed": seed, "tier": tier,
                "no_longer_checks": proofs["problems"] or ["correspondence stream " + diffs[0][0].get("stream", "?")],
                "case": diffs[0][1] if diffs else None, "difference": diffs[0][0] if diffs else None,
                "searched_cases": len(results)}
        path = os.path.join(OUT, "evidence", "replay", f"{pid}-nofail-{common.case_hash(what)}.json")
        common.write_json(path, what)
        print("BROKEN " + json.dumps(what["no_longer_checks"], default=str)[:500])
        if diffs:
            print("DIFF " + json.dumps(diffs[0][0], default=str)[:500])
        print(f"VIOLATION property={pid} replay={os.path.relpath(path, OUT)} no-failing-input-found")
        rc = 1
    elif any(r.get("lost") for r in results):
        print(f"INCONCLUSIVE property={pid}: {[r['infra'] for r in results if r.get('lost')][0]}")
        rc = 2
    elif infra and len(infra) > max(2, len(results) // 50):
        print(f"INCONCLUSIVE property={pid}: {len(infra)} infrastructure errors, e.g. {infra[0][0]}")
        rc = 2
    elif len(timeouts_inconclusive) > max(2, len(results) // 20):
        print(f"INCONCLUSIVE property={pid}: {len(timeouts_inconclusive)} cases hit the wall-clock guard")
        rc = 2
    if timeouts:
        print(f"note: {len(timeouts)} cases hit the wall-clock guard, first: {json.dumps(timeouts[0], default=str)[:600]}")
    if infra:
        print(f"note: {len(infra)} infrastructure errors, first: {infra[0][0][:300]}")
    print(f"{pid} {tier} seed={seed}: {len(results)} cases, {len(sigs)} distinct non-trivial, "
          f"{proofs['discharged']}/{proofs['obligations']} obligations, {len(diffs)} diffs, {len(fails)} failures, "
          f"{len(timeouts)} timeouts, {len(infra)} infra, {ev['wall_s']} s -> exit {rc}")
    sys.exit(rc)


if __name__ == "__main__":
    main()
