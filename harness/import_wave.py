"""Imports the changes a wave of sub-agents left under <src>/<Cxx>/{a,b}/ into seeded/<wave>-<Cxx>-<x>/,
validates each in a scratch worktree (demo passes clean, fails patched, pinned suite unchanged) and keeps only
the valid ones.

  import_wave.py <src> <wave> <origin text> [Cxx ...]
"""
from __future__ import annotations

import json
import os
import shutil
import sys

import seedtest

VERIF = seedtest.VERIF


def main():
    src, wave, origin = sys.argv[1], sys.argv[2], sys.argv[3]
    pids = sys.argv[4:] or sorted(d for d in os.listdir(src) if os.path.isdir(os.path.join(src, d)))
    for pid in pids:
        for x in ("a", "b"):
            d = os.path.join(src, pid, x)
            if not (os.path.exists(os.path.join(d, "patch.diff")) and os.path.exists(os.path.join(d, "demo.py"))):
                print(pid, x, "missing files")
                continue
            name = f"{wave}-{pid}-{x}"
            dst = os.path.join(VERIF, "seeded", name)
            if os.path.exists(os.path.join(dst, "meta.json")):
                print(name, "already imported")
                continue
            os.makedirs(dst, exist_ok=True)
            for f in ("patch.diff", "demo.py", "notes.md"):
                if os.path.exists(os.path.join(d, f)):
                    shutil.copy(os.path.join(d, f), os.path.join(dst, f))
            v = seedtest.validate(dst)
            json.dump(v, open(os.path.join(dst, "validate.json"), "w"), indent=1)
            if not v.get("valid"):
                print(name, "INVALID", {k: v.get(k) for k in ("demo_clean_rc", "apply_rc", "demo_patched_rc", "suite_passed", "suite_failed")})
                shutil.rmtree(dst)
                os.makedirs(os.path.join(VERIF, "seeded", "_rejected"), exist_ok=True)
                json.dump(v, open(os.path.join(VERIF, "seeded", "_rejected", name + ".json"), "w"), indent=1)
                continue
            notes = open(os.path.join(dst, "notes.md")).read() if os.path.exists(os.path.join(dst, "notes.md")) else ""
            meta = {"id": name, "property": pid, "origin": origin,
                    "what_it_needs_to_manifest": " ".join(notes.split())[:3000],
                    "validated": {"demo_exit_on_clean_tree": v["demo_clean_rc"], "demo_exit_with_patch": v["demo_patched_rc"],
                                  "pinned_suite_passed_with_patch": v["suite_passed"], "suite_has_other_failures": v["suite_failed"],
                                  "how": "harness/seedtest.py validate"},
                    "checks_run": [pid]}
            json.dump(meta, open(os.path.join(dst, "meta.json"), "w"), indent=1)
            print(name, "valid")


if __name__ == "__main__":
    main()
