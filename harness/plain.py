"""Random histories over the structural API, executed on the real code and on the Lean model.

Shared by C02, C03, C04, C15, C20 (and, with skip operations, C05).
"""
from __future__ import annotations

import json
import pickle
import random

import common

_min_record: list = []
_patched = False


def _patch_recorders():
    """Record the answers of the `min` solver calls whose *order* decides node ids."""
    global _patched
    if _patched:
        return
    import biobalm._sd_algorithms.expand_minimal_spaces as ems
    import biobalm.succession_diagram as sdm

    def wrap(orig):
        def rec(*a, **k):
            _tick()
            r = orig(*a, **k)
            if k.get("problem", a[1] if len(a) > 1 else None) == "min":
                _min_record.append([dict(x) for x in r])
            return r

        rec._balm_orig = orig
        return rec

    import biobalm._sd_attractors.attractor_candidates as ac

    def wrapfp(orig):
        def rec(*a, **k):
            _tick()
            return orig(*a, **k)

        rec._balm_orig = orig
        return rec

    def wrapclean(orig):
        # verdicts of the motif-avoidant check of block expansion: candidate / seed queries on component sub-diagrams
        def rec(self, *a, **k):
            main = _block_main[0]
            if main is None or self is main or _clean_depth[0] > 0:
                return orig(self, *a, **k)
            _clean_depth[0] += 1
            try:
                r = orig(self, *a, **k)
            except RuntimeError:
                _clean.append(False)
                raise
            finally:
                _clean_depth[0] -= 1
            _clean.append(len(r) == 0)
            return r

        rec._balm_orig = orig
        return rec

    import biobalm._sd_algorithms.expand_attractor_seeds as eas

    def wrapfound(orig):
        def rec(*a, **k):
            r = orig(*a, **k)
            _found.append(len(r) > 0)
            return r

        rec._balm_orig = orig
        return rec

    if not hasattr(eas.compute_fixed_point_reduced_STG, "_balm_orig") or not getattr(eas.compute_fixed_point_reduced_STG, "_found", False):
        w = wrapfound(eas.compute_fixed_point_reduced_STG)
        w._found = True
        eas.compute_fixed_point_reduced_STG = w
    for meth in ("node_attractor_candidates", "node_attractor_seeds"):
        if not hasattr(getattr(sdm.SuccessionDiagram, meth), "_balm_orig"):
            setattr(sdm.SuccessionDiagram, meth, wrapclean(getattr(sdm.SuccessionDiagram, meth)))
    if not hasattr(ac.compute_fixed_point_reduced_STG, "_balm_orig"):
        ac.compute_fixed_point_reduced_STG = wrapfp(ac.compute_fixed_point_reduced_STG)
    if not hasattr(ems.trappist, "_balm_orig"):
        ems.trappist = wrap(ems.trappist)
    if not hasattr(sdm.trappist, "_balm_orig"):
        sdm.trappist = wrap(sdm.trappist)
    _patched = True


_calls = [0]
_fail_at = [None]
_block_main = [None]
_found = []
_clean_depth = [0]
_clean = []


def min_space_of(sd, ni, op):
    """the space whose minimal trap spaces the operation asks the solver for (None: it asks for none)"""
    if op[0] in ("min", "skipmin"):
        return dict(sd.node_data(op[1] % len(sd))["space"])
    if op[0] in ("skiprem", "aseeds"):
        return dict(sd.node_data(0)["space"])
    return None


def aseeds_cmd(ni, root, sz):
    mins = [ni.sp(root | x) for x in _min_record[0]] if _min_record else []
    return f"ASEEDS {fmt(sz)} " + " ".join(mins) + " ; " + " ".join("1" if b else "0" for b in _found)


def blockx_cmd(maa, opt, sz):
    return f"BLOCKX {1 if maa else 0} {1 if opt else 0} {fmt(sz)} " + " ".join("1" if c else "0" for c in _clean)


class Injected(RuntimeError):
    pass


def _tick():
    _calls[0] += 1
    if _fail_at[0] is not None and _calls[0] == _fail_at[0]:
        raise Injected("injected solver failure")


LIMS = [None, None, None, 0, 1, 2, 3, 4, 5, 6, 8]
SMALL = [None, None, 0, 1, 2, 3]


def gen_ops(rng, nops, allow_skip=False, allow_unmodelled=True, nvars=6):
    ops = []
    for _ in range(nops):
        r = rng.random()
        a = rng.randrange(64)
        if r < 0.16:
            ops.append(["one", a])
        elif r < 0.22:
            ops.append(["succ", a])
        elif r < 0.42:
            ops.append(["bfs", a if rng.random() < 0.5 else 0, rng.choice(SMALL), rng.choice(LIMS)])
        elif r < 0.60:
            ops.append(["dfs", a if rng.random() < 0.5 else 0, rng.choice(SMALL), rng.choice(LIMS)])
        elif r < 0.74:
            ops.append(["min", a if rng.random() < 0.4 else 0, rng.choice(LIMS), allow_skip and rng.random() < 0.5])
        elif r < 0.86:
            k = rng.randint(1, max(1, nvars))
            tgt = [[rng.randrange(64), rng.randint(0, 1)] for _ in range(k)]
            ops.append(["target", tgt, rng.choice(LIMS)])
        elif allow_skip and r < 0.93:
            ops.append(["skipmin", a] if rng.random() < 0.6 else ["skiprem"])
        elif rng.random() < 0.35:
            ops.append([rng.choice(["pnet", "pnet", "cands", "seedsq", "readonly", "readonly"]), a])
        elif allow_unmodelled:
            q = rng.random()
            if q < 0.3:
                ops.append(["frontier", rng.randrange(1 << 30), rng.randint(2, 12), rng.choice([0.0, 0.1, 0.3]), rng.choice([0.0, 0.3])])
            elif q < 0.65:
                ops.append(["aseeds", rng.choice(LIMS)])
            else:
                ops.append(["block", rng.random() < 0.5, rng.choice(LIMS)])
        else:
            ops.append(["bfs", 0, rng.choice(SMALL), rng.choice(LIMS)])
    return ops


def gen_plain_case(rng, tier, k, final_full=False, allow_skip=False, nmax=None):
    nmax = nmax or (6 if tier == "quick" else 7)
    bnet = common.g_mixed(rng, nmax=nmax)
    mm = rng.choice([100000] * 6 + [1, 2, 3, 4])
    nops = rng.randint(1, 8 if tier == "quick" else 16)
    case = {"bnet": bnet, "max_motifs": mm, "ops": gen_ops(rng, nops, allow_skip=allow_skip),
            "final_full": final_full}
    if rng.random() < 0.15:
        # variables declared in a non-alphabetical order, the diagram pickled somewhere in the history
        case["order"] = [rng.randrange(64) for _ in range(8)]
        if rng.random() < 0.6:
            case["ops"].insert(rng.randrange(len(case["ops"]) + 1), ["pickle"])
    return case


def make_sd(case):
    from biobalm import SuccessionDiagram

    if case.get("order"):
        return make_sd_ordered(case)
    if case.get("iso_input"):
        return make_sd_ordered(dict(case, order=list(range(8))))
    cfg = SuccessionDiagram.default_config()
    cfg["max_motifs_per_node"] = case.get("max_motifs", 100000)
    for k, v in case.get("cfg", {}).items():
        cfg[k] = v
    return SuccessionDiagram.from_rules(case["bnet"], config=cfg)


def reorder_network(bn, order):
    """the same network with its variables declared in the given order (AEON API keeps it)"""
    from biodivine_aeon import BooleanNetwork

    out = BooleanNetwork(variables=list(order))
    for reg in bn.regulations():
        reg["source"] = bn.get_variable_name(reg["source"])
        reg["target"] = bn.get_variable_name(reg["target"])
        out.add_regulation(reg)
    known = set(bn.variable_names())
    for name in order:
        if name not in known:
            continue            # an extra variable: an isolated input without update function and without regulations
        f = bn.get_update_function(name)
        if f is not None:
            out.set_update_function(name, str(f))
    return out


def make_sd_ordered(case):
    """like make_sd, but honours case['order'] (a permutation of variable positions)"""
    from biobalm import SuccessionDiagram
    from biodivine_aeon import BooleanNetwork

    cfg = SuccessionDiagram.default_config()
    cfg["max_motifs_per_node"] = case.get("max_motifs", 100000)
    for k, v in case.get("cfg", {}).items():
        cfg[k] = v
    if not case.get("order"):
        return SuccessionDiagram.from_rules(case["bnet"], config=cfg)
    bn = BooleanNetwork.from_bnet(case["bnet"])
    names = bn.variable_names()
    order = [names[i % len(names)] for i in case["order"]]
    order = list(dict.fromkeys(order)) + [x for x in names if x not in order]
    if case.get("iso_input") and "zz_iso" not in names:
        order.insert(case["order"][0] % (len(order) + 1), "zz_iso")
    return SuccessionDiagram(reorder_network(bn, order), cfg)


def resolve_target(tgt, ni):
    sp = {}
    for i, v in tgt:
        sp[ni.names[i % ni.n]] = v
    return sp


def apply_op(sd, ni, op):
    """Execute one operation on the real diagram. Returns (return value as string, model command or None)."""
    kind = op[0]
    n = len(sd)
    del _min_record[:]
    _calls[0] = 0
    _fail_at[0] = op[-1]["fail_at"] if isinstance(op[-1], dict) and "fail_at" in op[-1] else None
    try:
        if kind == "one":
            i = op[1] % n
            sd._expand_one_node(i)
            return "none", f"EXPAND {i}"
        if kind == "succ":
            i = op[1] % n
            sd.node_successors(i, compute=True)
            return "none", f"EXPAND {i}"
        if kind == "bfs":
            i = op[1] % n
            r = sd.expand_bfs(node_id=i, bfs_level_limit=op[2], size_limit=op[3])
            return str(bool(r)).lower(), f"BFS {i} {fmt(op[2])} {fmt(op[3])}"
        if kind == "dfs":
            i = op[1] % n
            r = sd.expand_dfs(node_id=i, dfs_stack_limit=op[2], size_limit=op[3])
            return str(bool(r)).lower(), f"DFS {i} {fmt(op[2])} {fmt(op[3])}"
        if kind == "min":
            i = op[1] % n
            sp = dict(sd.node_data(i)["space"])
            cmd = None
            try:
                r = sd.expand_minimal_spaces(node_id=i, size_limit=op[2], skip_ignored=bool(op[3]))
                ret = str(bool(r)).lower()
            finally:
                if _min_record:
                    mins = [ni.sp(sp | x) for x in _min_record[0]]
                    cmd = f"MINSP {i} {fmt(op[2])} {1 if op[3] else 0} " + " ".join(mins)
            return ret, cmd
        if kind == "target":
            t = resolve_target(op[1], ni)
            r = sd.expand_to_target(t, size_limit=op[2])
            return str(bool(r)).lower(), f"TARGET {ni.sp(t)} {fmt(op[2])}"
        if kind == "skipmin":
            i = op[1] % n
            sp = dict(sd.node_data(i)["space"])
            was_expanded = sd.node_data(i)["expanded"]
            r = sd.skip_to_minimal(i)
            mins = [ni.sp(sp | x) for x in _min_record[0]] if _min_record else []
            if was_expanded:
                return str(bool(r)).lower(), f"SKIPMIN {i}"
            return str(bool(r)).lower(), f"SKIPMIN {i} " + " ".join(mins)
        if kind == "skipminall":
            # an early-stopped diagram completed by skip_to_minimal on every remaining stub
            for j in [x for x in sd.node_ids() if not sd.node_data(x)["expanded"]]:
                sd.skip_to_minimal(j)
            return "true", None
        if kind == "skiprem":
            root = dict(sd.node_data(0)["space"])
            r = sd.skip_remaining()
            _fail_at[0] = None
            mins = [ni.sp(root | x) for x in _min_record[0]] if _min_record else []
            return str(int(r)), "SKIPREM " + " ".join(mins)
        if kind == "aseeds":
            del _found[:]
            root = dict(sd.node_data(0)["space"])
            r = sd.expand_attractor_seeds(size_limit=op[1])
            return str(bool(r)).lower(), aseeds_cmd(ni, root, op[1])
        if kind == "block":
            _block_main[0] = sd
            del _clean[:]
            try:
                r = sd.expand_block(find_motif_avoidant_attractors=bool(op[1]), size_limit=op[2],
                                    optimize_source_nodes=False)
            finally:
                _block_main[0] = None
            # without the motif-avoidant check the traversal is a function of the diagram (Impl.expandBlock, proved to keep
            # the strict invariant); with it, the verdicts of the check are replayed from the transcript (Impl.expandBlockX)
            return str(bool(r)).lower(), (blockx_cmd(True, False, op[2]) if op[1] else f"BLOCK {fmt(op[2])}")
        if kind == "blockx":
            _block_main[0] = sd
            del _clean[:]
            try:
                r = sd.expand_block(find_motif_avoidant_attractors=bool(op[1]), size_limit=op[2],
                                    optimize_source_nodes=bool(op[3]), exact_attractor_detection=bool(op[4]))
            finally:
                _block_main[0] = None
            return str(bool(r)).lower(), blockx_cmd(op[1], op[3], op[2])
        if kind == "scc":
            r = sd.expand_scc(find_motif_avoidant_attractors=bool(op[1]))
            return str(bool(r)).lower(), "SCC"
        if kind == "pnet":
            sd.node_percolated_petri_net(op[1] % n, compute=True)
            return "none", "NOP"
        if kind == "readonly":
            # queries that must not change anything observable
            from biobalm.control import successions_to_target
            i = op[1] % n
            for u, v in list(sd.dag.edges())[:8]:
                sd.edge_stable_motif(u, v, reduced=True)
                sd.edge_all_stable_motifs(u, v, reduced=True)
                sd.edge_all_stable_motifs(u, v)
            sd.summary()
            sd.depth()
            sd.minimal_trap_spaces()
            sd.find_node(sd.node_data(i)["space"])
            sd.is_subgraph(sd)
            if sd.node_data(i)["expanded"]:
                sd.node_successors(i)
            try:
                successions_to_target(sd, dict(sd.node_data(i)["space"]) or {ni.names[0]: 1}, expand_diagram=False)
            except KeyError:
                pass
            return "none", "NOP"
        if kind == "cands":
            try:
                sd.node_attractor_candidates(op[1] % n, compute=True)
            except RuntimeError as e:
                if isinstance(e, Injected):
                    raise
            return "none", "NOP"
        if kind == "rawcands":
            # candidates without any minification (usually several spurious ones stay in the list)
            for j in ([x for x in sd.node_ids() if sd.node_data(x)["expanded"]] if op[1] == "all" else [op[1] % n]):
                try:
                    sd.node_attractor_candidates(j, compute=True, greedy_asp_minification=False, simulation_minification=False)
                except RuntimeError as e:
                    if isinstance(e, Injected):
                        raise
            return "none", "NOP"
        if kind == "seedsq":
            try:
                sd.node_attractor_seeds(op[1] % n, compute=True)
            except RuntimeError as e:
                if isinstance(e, Injected):
                    raise
            return "none", "NOP"
        if kind == "pickle":
            return "none", "NOP"
        if kind in ("expsp", "bfssp"):
            # expansion of the node with a given space (no-op when there is no such node)
            j = sd.find_node(dict(op[1]))
            if j is not None:
                sd.node_successors(j, compute=True) if kind == "expsp" else sd.expand_bfs(node_id=j)
            return "none", None
        if kind == "frontier":
            # hand-driven expansion: random stubs of the frontier one at a time (a node can be created
            # before one of its parents); some with everything below; "late parents" whose new children
            # are expanded completely while the children that existed before stay as they are
            frng = random.Random(op[1])
            late = op[4] if len(op) > 4 and not isinstance(op[4], dict) else 0.0
            for _ in range(op[2]):
                stubs = [i for i in sd.node_ids() if not sd.node_data(i)["expanded"]]
                if not stubs:
                    break
                i = frng.choice(stubs)
                r = frng.random()
                if r < op[3]:
                    sd.expand_bfs(node_id=i)
                elif r < op[3] + late:
                    old = len(sd)
                    for c in sd.node_successors(i, compute=True):
                        if c >= old:
                            sd.expand_bfs(node_id=c)
                else:
                    sd.node_successors(i, compute=True)
            return "none", None
        if kind == "expseeds":
            try:
                sd.expanded_attractor_seeds()
            except RuntimeError as e:
                if isinstance(e, Injected):
                    raise
            return "none", "NOP"
        if kind == "reclaim":
            sd.reclaim_node_data()
            return "none", "NOP"
    except Injected:
        return "inj", None
    except RuntimeError as e:
        if "stable motifs" in str(e):
            cmd = _cmd_for_error(sd, ni, op, n)
            return "err", cmd
        raise
    raise ValueError(f"unknown op {op}")


def _cmd_for_error(sd, ni, op, n):
    kind = op[0]
    if kind in ("one", "succ"):
        return f"EXPAND {op[1] % n}"
    if kind == "aseeds":
        return aseeds_cmd(ni, dict(sd.node_data(0)["space"]), op[1])
    if kind == "scc":
        return "SCC"
    if kind == "block" and not op[1]:
        return f"BLOCK {fmt(op[2])}"
    if kind == "block":
        return blockx_cmd(True, False, op[2])
    if kind == "blockx":
        return blockx_cmd(op[1], op[3], op[2])
    if kind == "bfs":
        return f"BFS {op[1] % n} {fmt(op[2])} {fmt(op[3])}"
    if kind == "dfs":
        return f"DFS {op[1] % n} {fmt(op[2])} {fmt(op[3])}"
    if kind == "target":
        return f"TARGET {ni.sp(resolve_target(op[1], ni))} {fmt(op[2])}"
    if kind == "min" and _min_record:
        i = op[1] % n
        sp = dict(sd.node_data(i)["space"])
        return f"MINSP {i} {fmt(op[2])} {1 if op[3] else 0} " + " ".join(ni.sp(sp | x) for x in _min_record[0])
    return None


def fmt(x):
    return "-" if x is None else str(x)


def abstract(dump: str):
    """Diagram modulo node ids: nodes by space with flags, edges by spaces with sorted motif lists."""
    ns, es = dump.split(" | ") if " | " in dump else (dump.rstrip(" |"), "")
    sp = {}
    nodes = set()
    for t in ns.split():
        i, s, _d, e, k = t.split(":")
        sp[i] = s
        nodes.add((s, e, k))
    edges = set()
    for t in es.split():
        uv, ms = t[:-1].split("[")
        u, v = uv.split(">")
        edges.add((sp[u], sp[v], tuple(sorted(ms.split(",")))))
    return nodes, edges


def run_plain_history(case, judge_leaves=False, literal=True):
    """Returns the result dict of runner._worker."""
    from biobalm import SuccessionDiagram

    _patch_recorders()
    fails, diffs, tags = [], [], set()
    sd = make_sd(case)
    ni = common.NetInfo(sd.network)
    order = sorted(ni.names)
    lines = [ni.net_line, f"CFG {case.get('max_motifs', 100000)}", "RANKS " + " ".join(str(order.index(x)) for x in ni.names), "SDINIT"]
    expect = [("net", "OK"), ("cfg", "OK"), ("cfg", "OK"), ("obs", dump_of(sd, ni), "init")]
    changed = 0
    mixed = False
    prev = common.dump_sd(sd, ni)
    ops = list(case["ops"])
    if case.get("final_full"):
        ops = ops + [["bfs", 0, None, None]]
    cur_mm = case.get("max_motifs", 100000)
    for k, op in enumerate(ops):
        if op[0] == "setmm":
            # the user relaxes (or tightens) the stable-motif limit on the same diagram
            sd.config["max_motifs_per_node"] = op[1]
            cur_mm = op[1]
            lines.append(f"CFG {op[1]}")
            expect.append(("cfg", "OK"))
            continue
        if op[0] == "pickle":
            sd = pickle.loads(pickle.dumps(sd))
        nbefore = len(sd)
        min_sp = min_space_of(sd, ni, op)
        ret, cmd = apply_op(sd, ni, op)
        _fail_at[0] = None
        if min_sp is not None and _min_record and ret != "inj":
            # the answer of the `min` solver that the model replays must be the complete list
            lines.append(f"MIN {ni.sp(min_sp)}")
            expect.append(("minset", " ".join(sorted(ni.sp(min_sp | x) for x in _min_record[0])), f"op{k}:{op[0]}"))
        d = common.dump_sd(sd, ni)
        tags.add("op:" + op[0])
        if ret == "err":
            tags.add("motif-limit-error")
        if ret == "inj":
            tags.add("injected-solver-failure")
        if ret == "false":
            tags.add("early-stop:" + op[0])
        if d != prev:
            changed += 1
        prev = d
        flags = [t.split(":")[3] for t in d.split(" | ")[0].split()]
        if "0" in flags and "1" in flags:
            mixed = True
        if cmd is None:
            lines.append("ADOPT " + d)
            expect.append(("adopt", "OK"))
        elif cmd == "NOP":
            lines.append("DUMP")
            expect.append(("obs", d, f"op{k}:{op[0]}"))
        else:
            lines.append(cmd)
            expect.append(("obs", f"{ret} {d}", f"op{k}:{op[0]}"))
        if case.get("check", True) == "weak":
            # diagrams built with shortcuts: the weak invariant (stubs have no successors, successors cover the minimal trap spaces)
            lines.append("WEAK " + d)
            expect.append(("judge", "OK", f"weak invariant after op{k}:{op[0]}"))
        elif case.get("check", True):
            lines.append("CHECK " + d)
            expect.append(("judge", "OK", f"after op{k}:{op[0]}"))
        if case.get("judge_contract") and op[0] in ("bfs", "dfs"):
            start = op[1] % nbefore
            if ret == "true" :
                lines.append(f"TRUECOMPLETE {start} " + d)
                expect.append(("judge", "OK", f"contract of op{k}:{op[0]} returning True"))
            if ret == "false" and op[2] is None:
                lines.append(f"FALSESTUB {start} " + d)
                expect.append(("judge", "OK", f"contract of size-limited op{k}:{op[0]} returning False"))
        if case.get("judge_contract") and op[0] == "min" and ret == "false" and op[1] % nbefore == 0:
            lines.append("FALSESTUB 0 " + d)
            expect.append(("judge", "OK", f"contract of size-limited op{k}:{op[0]} returning False"))
        if case.get("judge_leaves_after") and ret == "true" and op[0] in case["judge_leaves_after"] and (
                op[0] not in ("bfs", "dfs", "min") or op[1] % nbefore == 0):
            # True means "complete below the start node" whatever limits were passed (a limit that is hit returns False)
            lines.append("LEAVES " + d)
            expect.append(("judge", "OK", f"minimal trap spaces after op{k}:{op[0]} reported completion"))
    final = prev
    if case.get("final_full") and ret == "true":
        lines.append("COMPLETE " + final)
        expect.append(("judge", "OK", "after the final unrestricted BFS"))
        lines.append("LEAVES " + final)
        expect.append(("judge", "OK", "leaves after the final unrestricted BFS"))
        fresh = make_sd(dict(case, max_motifs=cur_mm))
        try:
            fr = fresh.expand_bfs()
        except RuntimeError:
            fr = None
        if fr:
            a, b = abstract(final), abstract(common.dump_sd(fresh, ni))
            if a != b:
                fails.append({"kind": "resume-differs-from-fresh", "sig": {},
                              "detail": f"nodes only resumed: {sorted(a[0]-b[0])[:3]} only fresh: {sorted(b[0]-a[0])[:3]} "
                                        f"edges only resumed: {sorted(a[1]-b[1])[:3]} only fresh: {sorted(b[1]-a[1])[:3]}"})
    if judge_leaves:
        pass
    replies = common.run_driver(lines)
    diverged = False
    for (exp, rep, line) in zip(expect, replies, lines):
        kind = exp[0]
        if kind in ("net", "cfg", "adopt"):
            if rep != exp[1]:
                diffs.append({"stream": "protocol", "line": line[:200], "reply": rep})
                diverged = True
        elif kind == "obs":
            if diverged or not literal:
                continue
            if rep != exp[1]:
                diffs.append({"stream": "OBS literal diagram state", "at": exp[2], "impl": exp[1][:400], "model": rep[:400]})
                diverged = True
        elif kind == "minset":
            if rep != exp[1]:
                diffs.append({"stream": "ORACLE answer of the minimal-trap-space solver vs Lean minTrapsIn", "at": exp[2], "impl": exp[1][:300], "model": rep[:300]})
        elif kind == "judge":
            if rep != "OK":
                fails.append({"kind": "invariant", "sig": {"what": rep.split(":")[0][:60]}, "detail": f"{exp[2]}: {rep}",
                              "dump": line[:500]})
    return {"fails": fails, "diffs": diffs, "tags": sorted(tags),
            "nontrivial": changed >= 2 and mixed, "sig": common.case_hash([case["bnet"], case["ops"]]),
            "final_dump": final, "sample": {"final_dump": final[:300]}}


def dump_of(sd, ni):
    return common.dump_sd(sd, ni)


def shrink_history(pid, case, fail):
    """ddmin-lite on the history: drop operations while the same failure kind persists."""
    import importlib

    mod = importlib.import_module(f"props.{pid}")
    cur = dict(case)

    def still(c):
        try:
            r = common.guarded(30, mod.run_case, c)
        except Exception:
            return False
        return any(f["kind"] == fail["kind"] for f in r["fails"])

    ops = list(cur["ops"])
    i = 0
    while i < len(ops) and len(ops) > 1:
        cand = dict(cur, ops=ops[:i] + ops[i + 1:])
        if still(cand):
            ops = cand["ops"]
            cur = cand
        else:
            i += 1
    return cur
